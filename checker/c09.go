package main

import (
	"fmt"
	"go/token"
	"go/types"
	"strings"

	"golang.org/x/tools/go/ssa"
)

func init() {
	register(&PropertyDef{
		ID:          "C09",
		Title:       "Concurrent sends never reuse a counter, key or nonce; chain only moves forward",
		Explanation: "Decides, for every schedule at once, the locking and arithmetic shape that makes counters unique: (D1) in SealEnvelope the read of the own chain key, the sealing (secretbox.Seal, Sign), the write of the next precomputed key and the write of the advanced chain key all happen with the secret store's message mutex write-held, acquired once before the first of them, with no release of that mutex anywhere in the code reachable from those steps (when one call of SealEnvelope carries the whole read-seal-store sequence - its tail handed as a closure to a lock helper - the steps are located in the function behind that call and the lock context is the helper's at the call of its func parameter; the helper's own deferred Unlock runs after the steps); (D3) every Put on the chain-key namespace that can overwrite an existing entry is reached only on call paths holding that write lock (creation puts, dominated by the 'no chain key stored' outcome of a lookup - made in the same function or handed on by a read-only helper as its (alreadyThere=false, err=nil) outcome, each such return of the helper being itself on the miss side - are exempt: they cannot overwrite); (D4) the updater of the stored chain key is monotone: evaluated abstractly over the orderings {new<stored, new=stored, new>stored} it never writes when new<stored and always writes when new>stored; (D6) the own chain key is looked up, generated on a miss and stored inside one write-locked critical section; the updater fails when it cannot read the stored key; (D5) the counter sealed into the headers and used as nonce is the stored counter + 1 and the chain key stored afterwards carries stored counter + 1 (same increment on both sides); (D7) the own chain key is created only when its lookup reported exactly the 'missing' sentinel (tested on the lookup's error directly, or handed on by a module helper as its 'not found, no error' outcome, every such return of the helper being itself on the sentinel side and the helper's error tested nil by the creator), and every function behind that lookup returns the sentinel only on the datastore's own not-found outcome (err == / errors.Is datastore.ErrNotFound) or after a successful read - an I/O fault or a cancelled context surfaces as a different error, so a transient read fault can never replace an advanced chain key by a fresh one at counter 0; (D8) the chain moves forward by SealEnvelope only: on every call path from OpenEnvelopePayload to an overwriting Put of a chain key the update is skipped when the sender decoded from headers.DevicePk equals the own-device parameter (or runs when that parameter is nil), and every module call of OpenEnvelopePayload passes as that parameter the Device() key of an OwnMemberDevice (through locals, fields and helpers) or nil - never Member() or a foreign key. A call through a local table of closures (a local composite literal of statically known functions that is only indexed, e.g. steps := []func() error{...}; for _, st := range steps { st() }) is resolved to its elements: the module call graph is completed with these edges before any rule runs, so lock contexts (D1/D3/D6), effect summaries and the D8 guard - which may sit inside an element closure and refer to captured, singly-assigned variables - are decided through the table. Not decided (D7/D8): implementations of the datastore/keystore interfaces outside the module; that the OwnMemberDevice whose Device() is passed belongs to the same group as the store. Not decided: that every envelope opens at a receiver (C01/C02), behaviour under real parallel runs, datastore atomicity.",
		Trusted:     []string{"go/ssa (x/tools v0.29.0)", "sync.RWMutex semantics", "lock identity by owner type + field (one message mutex per secret store)", "go-datastore: Get returns ErrNotFound (possibly wrapped) iff the key is absent", "errcode.Is compares the top-level code only"},
		Assumptions: []string{"a secret store is not shared between two datastores; the datastore's Put is atomic per key"},
		Floors:      map[string]int{"D1": 3, "D3": 3, "D4": 4, "D5": 3, "D6": 1, "D7": 2, "D8": 2},
		Run:         runC09,
	})
}

// messageLockClass: the lock class of the single sync.RWMutex field of the SecretStore implementation.
func messageLockClass(w *World) string {
	n := typeNamed(secretStoreImpl(w))
	if n == nil {
		return ""
	}
	st, ok := n.Underlying().(*types.Struct)
	if !ok {
		return ""
	}
	cls := ""
	for i := 0; i < st.NumFields(); i++ {
		if ft, ok := st.Field(i).Type().(*types.Named); ok && ft.Obj().Pkg() != nil && ft.Obj().Pkg().Path() == "sync" && ft.Obj().Name() == "RWMutex" {
			if cls != "" {
				return "" // ambiguous
			}
			cls = n.Obj().Name() + "." + st.Field(i).Name()
		}
	}
	return cls
}

// reachesCallee: fn (transitively, module functions only) calls a function with one of the keys.
func reachesCallee(w *World, fn *ssa.Function, keys ...string) bool {
	for f := range w.reachableFuncs([]*ssa.Function{fn}, 6) {
		if len(callsIn(f, keyIs(keys...))) > 0 {
			return true
		}
	}
	return false
}

// unlockedOnSomePath walks up the module call graph from instr and returns a call chain
// (root first) on which class/W is not held at the effect, or nil if every path holds it.
func unlockedOnSomePath(w *World, instr ssa.Instruction, class string, exempt func(ssa.Instruction) bool) []string {
	li := w.locks()
	cg := w.callGraph()
	var walk func(in ssa.Instruction, seen map[*ssa.Function]bool, chain []string) []string
	walk = func(in ssa.Instruction, seen map[*ssa.Function]bool, chain []string) []string {
		fn := in.Parent()
		here := append([]string{fnName(fn)}, chain...)
		if li.localOf(fn)[in].holds(class, 'W') {
			return nil
		}
		if exempt != nil && exempt(in) {
			return nil
		}
		if seen[fn] {
			return nil
		}
		callers := cg.callers[fn]
		isRoot := len(callers) == 0
		if obj := fn.Object(); obj != nil && obj.Exported() {
			isRoot = true
		}
		if isRoot {
			return here
		}
		seen[fn] = true
		defer delete(seen, fn)
		for _, cs := range callers {
			if _, isGo := cs.Instr.(*ssa.Go); isGo {
				return append([]string{"go " + fnName(cs.Caller)}, here...)
			}
			if bad := walk(cs.Instr.(ssa.Instruction), seen, here); bad != nil {
				return bad
			}
		}
		return nil
	}
	return walk(instr, map[*ssa.Function]bool{}, nil)
}

// creationGuarded: instr is dominated by the miss (error) outcome of a lookup on the
// chain-key namespace: the entry does not exist, nothing is overwritten. The lookup is either
// in the same function, or in a read-only module helper that hands its outcome on as an
// (alreadyThere bool, err error) pair: then instr must be on the helper's "no error" side and
// on its "false" side, and inside the helper every success return that may carry false must
// itself be dominated by the miss outcome of the lookup (recursively).
func creationGuarded(w *World) func(ssa.Instruction) bool {
	return func(in ssa.Instruction) bool {
		return c09CreationGuardedAt(w, in.Parent(), in.Block(), 0)
	}
}

func c09CreationGuardedAt(w *World, fn *ssa.Function, blk *ssa.BasicBlock, depth int) bool {
	if depth > 3 {
		return false
	}
	ei := w.effects()
	for _, s := range ei.sitesWith(fn, eff("Get", nsChainKey)) {
		if !s.pureLookup() {
			continue
		}
		v := errVerdict(s.Instr)
		if v != nil {
			for _, e := range edgesOfVerdict(v).Reject {
				if edgeDominates(e, blk) {
					return true
				}
			}
		}
		// outcome handed on by a read-only helper
		if s.Direct {
			continue
		}
		if _, isCall := s.Instr.(*ssa.Call); !isCall {
			continue
		}
		sig := s.Instr.Common().Signature()
		errIdx := errResultIndex(sig)
		if errIdx >= 0 {
			okSide := false
			if v != nil {
				for _, a := range edgesOfVerdict(v).Accept {
					if edgeDominates(a, blk) {
						okSide = true
					}
				}
			}
			if !okSide {
				continue
			}
		}
		for i := 0; i < sig.Results().Len(); i++ {
			if i == errIdx || !isBoolType(sig.Results().At(i).Type()) {
				continue
			}
			bv := resultValue(s.Instr, i)
			if bv == nil {
				continue
			}
			falseSide := false
			for _, e := range edgesOfVerdict(bv).Reject {
				if edgeDominates(e, blk) {
					falseSide = true
				}
			}
			if !falseSide {
				continue
			}
			all, n := true, 0
			for _, h := range calleesAt(w, fn, s.Instr) {
				for _, r := range returnsOf(h) {
					rr := retResults(r)
					if i >= len(rr) || !isSuccessReturn(r) {
						continue
					}
					if b, isC := constBool(rr[i]); isC && b {
						continue // "already there": the caller does not write
					}
					n++
					if _, isC := constBool(rr[i]); !isC || !c09CreationGuardedAt(w, h, r.Block(), depth+1) {
						all = false
					}
				}
			}
			if all && n > 0 {
				return true
			}
		}
	}
	return false
}

func runC09(c *Ctx) {
	w := c.W
	c.count("local_closure_tables", len(c09Tables(w).bySite)) // completes the call graph: must come first
	ei := w.effects()
	li := w.locks()
	seal := secretStoreMethod(w, "SealEnvelope")
	class := messageLockClass(w)
	if seal == nil || class == "" {
		c.undecided("D1", "SealEnvelope", token.NoPos, "SecretStore.SealEnvelope or its message mutex not found (class=%q)", class)
		return
	}
	c.analysed(seal)
	// ---- D1: one critical section in SealEnvelope. The steps are looked for in SealEnvelope
	// itself or, when one call carries the whole read-seal-store sequence (the tail of the
	// function handed as a closure to a lock helper), in the function behind that call.
	putChain := eff("Put", nsChainKey)
	for _, frame := range c09SealFrames(w, seal) {
		c09CheckSealFrame(c, seal, frame, class)
	}

	// ---- D3: every overwriting Put[chainKey] is write-locked on all call paths
	exempt := creationGuarded(w)
	nPut := 0
	for _, fn := range w.ModFuncs {
		if fnPkg(fn).Path() != pkgSecret {
			continue
		}
		for _, s := range ei.sitesIn(fn) {
			if !s.Direct || !s.has(putChain) {
				continue
			}
			nPut++
			c.analysed(fn)
			// evaluate per caller chain so that the report names the unlocked path
			callers := w.callGraph().callers[fn]
			if len(callers) == 0 {
				bad := unlockedOnSomePath(w, s.Instr.(ssa.Instruction), class, exempt)
				c.check(bad == nil, "D3", fnName(fn)+"+Put[chainKey]", posOf(s.Instr), "write-locked on every call path", "chain key overwritten without the write lock on path "+strings.Join(bad, " -> "))
				continue
			}
			for _, cs := range callers {
				construct := fnName(cs.Caller) + "->" + fnName(fn) + "+Put[chainKey]"
				if li.localOf(fn)[s.Instr.(ssa.Instruction)].holds(class, 'W') {
					c.ok("D3", construct, posOf(s.Instr), "write lock taken locally")
					continue
				}
				bad := unlockedOnSomePath(w, cs.Instr.(ssa.Instruction), class, exempt)
				c.check(bad == nil, "D3", construct, posOf(cs.Instr), "write-locked (or creation-guarded) on every call path", "chain key can be overwritten without the write lock on path "+strings.Join(append(bad, fnName(fn)), " -> "))
			}
		}
	}
	if nPut == 0 {
		c.undecided("D3", "Put[chainKey]", token.NoPos, "no Put on the chain-key namespace found")
	}

	// ---- D4: monotone updater (shared with C02.D1)
	checkMonotoneUpdaters(c, "D4")

	// ---- D5: sealed counter = stored+1 ; stored-after = stored+1
	checkCounterIncrements(c, "D5", seal)

	// ---- D6: the own chain key is looked up, generated and stored in one write-locked section
	checkOwnKeyCreationAtomic(c, "D6", class)

	// ---- D7: "no chain key yet" is reported only for the datastore's not-found outcome
	checkMissSentinel(c, "D7", c09RoleChainKey)

	// ---- D8: reading own messages back never advances the own sending chain
	checkOwnReadBack(c, "D8")
}

// freshChainKeyFuncs: module functions that build a DeviceChainKey from crypto/rand.
func freshChainKeyFuncs(w *World) map[*ssa.Function]bool {
	out := map[*ssa.Function]bool{}
	dck := namedType(w, pkgTypes, "DeviceChainKey")
	for _, fn := range w.ModFuncs {
		if fnPkg(fn).Path() != pkgSecret || fn.Signature.Results().Len() == 0 {
			continue
		}
		pt, ok := fn.Signature.Results().At(0).Type().(*types.Pointer)
		if !ok || dck == nil || !types.Identical(pt.Elem(), dck) {
			continue
		}
		if len(callsIn(fn, keyIs("crypto/rand.Read", "io.ReadFull"))) > 0 {
			out[fn] = true
		}
	}
	return out
}

// checkOwnKeyCreationAtomic: in every function that generates a fresh chain key when the
// lookup of the stored one misses, the lookup, the generation and the store all run with the
// message mutex write-held, with no release between the lookup and the store. Otherwise two
// first uses race: both miss, the loser's store is ignored by the register-once guard, and
// it hands out (and announces) a chain key that was never stored.
func checkOwnKeyCreationAtomic(c *Ctx, rule, class string) {
	w := c.W
	ei := w.effects()
	li := w.locks()
	fresh := freshChainKeyFuncs(w)
	n := 0
	for _, fn := range w.ModFuncs {
		if fnPkg(fn).Path() != pkgSecret {
			continue
		}
		var gen []ssa.CallInstruction
		for _, e := range w.callGraph().callees[fn] {
			if fresh[e.Callee] {
				gen = append(gen, e.Site)
			}
		}
		if len(gen) == 0 {
			continue
		}
		n++
		c.analysed(fn)
		construct := fnName(fn) + "+get-or-create"
		var lookups, stores []effectSite
		for _, s := range ei.sitesIn(fn) {
			if s.has(eff("Get", nsChainKey)) && s.pureLookup() {
				lookups = append(lookups, s)
			}
			if s.has(eff("Put", nsChainKey)) {
				stores = append(stores, s)
			}
		}
		if len(lookups) == 0 || len(stores) == 0 {
			c.fail(rule, construct, fn.Pos(), "a fresh chain key is generated without a lookup of the stored one and a store in the same function: get-or-create is not atomic")
			continue
		}
		bad := ""
		for _, s := range append(append([]effectSite{}, lookups...), stores...) {
			if !li.heldAt(s.Instr.(ssa.Instruction)).holds(class, 'W') {
				bad = fmt.Sprintf("%s at %s runs without %s write-held", s.Effects[0], c.pos(posOf(s.Instr)), class)
			}
		}
		for _, g := range gen {
			if !li.heldAt(g.(ssa.Instruction)).holds(class, 'W') {
				bad = fmt.Sprintf("the key is generated at %s without %s write-held", c.pos(posOf(g)), class)
			}
		}
		// no release between a lookup and a store
		for _, b := range fn.Blocks {
			for _, in := range b.Instrs {
				ci, ok := in.(ssa.CallInstruction)
				if !ok {
					continue
				}
				op, ok := lockOpOf(ci)
				if !ok || op.Class != class || op.Acquire || op.Deferred {
					continue
				}
				for _, l := range lookups {
					for _, st := range stores {
						if instrReaches(l.Instr.(ssa.Instruction), in) && instrReaches(in, st.Instr.(ssa.Instruction)) {
							bad = fmt.Sprintf("%s is released at %s between the lookup and the store", class, c.pos(posOf(ci)))
						}
					}
				}
			}
		}
		c.check(bad == "", rule, construct, fn.Pos(), "lookup, generation and store of the own chain key share one write-locked section", "own chain key get-or-create is not atomic: "+bad+" (two first uses can both miss; the loser announces a key that was never stored)")
	}
	if n == 0 {
		c.undecided(rule, "get-or-create", token.NoPos, "no function generating a fresh chain key found")
	}
}

// calleesAt returns the module callees of call site in fn.
func calleesAt(w *World, fn *ssa.Function, site ssa.CallInstruction) []*ssa.Function {
	var out []*ssa.Function
	for _, e := range w.callGraph().callees[fn] {
		if e.Site == site {
			out = append(out, e.Callee)
		}
	}
	return out
}

// ---------------------------------------------------------------------------
// monotone updater (A10 over the ordering of (new.Counter, stored.Counter))

// chainKeyUpdaters: functions that contain a Put[chainKey] site (direct, or through a callee
// that is a pure putter) not guarded by the creation guard, together with a lookup of the
// stored chain key. These are the functions that can move a stored chain key.
func chainKeyUpdaters(w *World) []*ssa.Function {
	ei := w.effects()
	exempt := creationGuarded(w)
	var out []*ssa.Function
	for _, fn := range w.ModFuncs {
		if fnPkg(fn).Path() != pkgSecret {
			continue
		}
		gets := ei.sitesWith(fn, eff("Get", nsChainKey))
		if len(gets) == 0 {
			continue
		}
		isUpd := false
		for _, s := range ei.sitesWith(fn, eff("Put", nsChainKey)) {
			// only sites that perform nothing but the put (direct, or a pure putter callee)
			pure := s.Direct
			if !s.Direct && s.Callee != nil {
				sum := ei.summaryOf(s.Callee)
				pure = len(sum) == 1
			}
			if pure && !exempt(s.Instr.(ssa.Instruction)) {
				isUpd = true
			}
		}
		if isUpd {
			out = append(out, fn)
		}
	}
	return out
}

func checkMonotoneUpdaters(c *Ctx, rule string) {
	w := c.W
	ei := w.effects()
	ups := chainKeyUpdaters(w)
	if len(ups) == 0 {
		c.undecided(rule, "chain-key updater", token.NoPos, "no function that overwrites a stored chain key was found")
		return
	}
	dck := namedType(w, pkgTypes, "DeviceChainKey")
	for _, fn := range ups {
		c.analysed(fn)
		// the candidate chain key is the *DeviceChainKey parameter
		cand := -1
		for i, p := range fn.Params {
			if pt, ok := p.Type().(*types.Pointer); ok && dck != nil && types.Identical(pt.Elem(), dck) {
				cand = i
			}
		}
		if cand < 0 {
			c.undecided(rule, fnName(fn), fn.Pos(), "updater has no *DeviceChainKey parameter: cannot identify the candidate value")
			continue
		}
		for _, sc := range []struct {
			name       string
			newC, oldC int64
			wantPut    string // never | always | any
		}{{"new<stored", 5, 9, "never"}, {"new=stored", 7, 7, "any"}, {"new>stored", 9, 5, "always"}, {"lookup-fails", 9, 5, "error"}} {
			ev := &Evaluator{W: w}
			storedTag := "STORED"
			ev.Cfg = EvalConfig{
				MaxDepth: 2,
				Inline:   func(f *ssa.Function) bool { return false },
				Field: func(path string, t types.Type) (AVal, bool) {
					if strings.HasSuffix(path, ".Counter") {
						if strings.HasPrefix(path, storedTag) {
							return aConst{V: constInt64(sc.oldC), T: t}, true
						}
						if strings.HasPrefix(path, fn.Params[cand].Name()+".") {
							return aConst{V: constInt64(sc.newC), T: t}, true
						}
					}
					return nil, false
				},
				Call: func(e *Evaluator, st *pstate, key string, cc *ssa.CallCommon, args []AVal) ([]AVal, bool) {
					// a lookup of the stored chain key returns the symbolic stored object and no error
					if f := staticCallee(cc); f != nil && inModule(f) && f.Signature.Results().Len() == 2 {
						if pt, ok := f.Signature.Results().At(0).Type().(*types.Pointer); ok && dck != nil && types.Identical(pt.Elem(), dck) {
							for e2 := range ei.summaryOf(f) {
								if eff("Get", nsChainKey)(e2) {
									if sc.wantPut == "error" {
										// the read of the stored chain key fails
										return []AVal{aNil{}, aNonNil{Tag: "error"}}, true
									}
									o := e.newObj(st, storedTag)
									return []AVal{aPtr{ID: o.ID, Sym: true}, aNil{}}, true
								}
							}
						}
					}
					// GetCounter getters
					if f := staticCallee(cc); f != nil && f.Name() == "GetCounter" && len(args) == 1 {
						if p, ok := args[0].(aPtr); ok {
							return []AVal{e.load(st, aPtr{ID: p.ID, Sym: p.Sym, Path: p.Path + ".Counter"}, types.Typ[types.Uint64])}, true
						}
					}
					return nil, false
				},
				Interesting: func(key string, cc *ssa.CallCommon) bool {
					// any call that performs the Put: direct datastore put or the pure putter
					if cc.IsInvoke() {
						return cc.Method.Name() == "Put" && strings.HasPrefix(key, "("+pkgDatastore)
					}
					if f := staticCallee(cc); f != nil && inModule(f) {
						for e2 := range ei.summaryOf(f) {
							if eff("Put", nsChainKey)(e2) {
								return true
							}
						}
					}
					return false
				},
			}
			outs := ev.Eval(fn, ev.SymbolicArgs(fn))
			succ, succWithPut, trunc := 0, 0, 0
			for _, o := range outs {
				if o.Kind == "truncated" {
					trunc++
					continue
				}
				if o.Kind != "return" {
					continue
				}
				// success outcome: error result is nil or unknown
				idx := errResultIndex(fn.Signature)
				if idx >= 0 && idx < len(o.Results) {
					if isDefNonNil(o.Results[idx]) {
						continue
					}
				}
				succ++
				if len(o.Trace) > 0 {
					succWithPut++
				}
			}
			construct := fnName(fn) + "+" + sc.name
			switch {
			case trunc > 0:
				c.undecided(rule, construct, fn.Pos(), "abstract evaluation truncated (loop in the updater): cannot decide monotonicity")
			case sc.wantPut == "error":
				c.check(succ == 0, rule, construct, fn.Pos(), "a failed read of the stored chain key fails the update", fmt.Sprintf("when the stored chain key cannot be read the updater reports success on %d path(s) without having stored the new key: the envelope already sealed is handed out and its counter is reused", succ))
			case sc.wantPut == "never":
				c.check(succWithPut == 0, rule, construct, fn.Pos(), "no write when the candidate counter is lower than the stored one", "the stored chain key can be overwritten by one with a LOWER counter (rewind)")
			case sc.wantPut == "always":
				c.check(succ > 0 && succWithPut == succ, rule, construct, fn.Pos(), "a higher counter is always stored", fmt.Sprintf("a candidate with a HIGHER counter is not stored on %d of %d success paths: the chain does not advance", succ-succWithPut, succ))
			default:
				c.ok(rule, construct, fn.Pos(), "equal counters: either outcome is acceptable (%d/%d paths write)", succWithPut, succ)
			}
		}
	}
}

// ---------------------------------------------------------------------------
// counter increments on the seal side and on the derive side

// isPlusOneOfCounter: v == load(X.Counter) + 1 for some DeviceChainKey X.
func isPlusOneOfCounter(v ssa.Value) bool {
	v = stripConv(v)
	bo, ok := v.(*ssa.BinOp)
	if !ok || bo.Op != token.ADD {
		return false
	}
	one := func(x ssa.Value) bool { n, ok := constInt(x); return ok && n == 1 }
	return (isChainCounterLoad(bo.X) && one(bo.Y)) || (isChainCounterLoad(bo.Y) && one(bo.X))
}

func checkCounterIncrements(c *Ctx, rule string, seal *ssa.Function) {
	w := c.W
	scope := w.reachableFuncs([]*ssa.Function{seal}, 6)
	nHdr, nNonce, nStore := 0, 0, 0
	for _, fn := range sortedFuncs(scope) {
		if fnPkg(fn).Path() != pkgSecret {
			continue
		}
		for _, b := range fn.Blocks {
			for _, in := range b.Instrs {
				switch x := in.(type) {
				case *ssa.Store:
					fa, ok := x.Addr.(*ssa.FieldAddr)
					if !ok {
						continue
					}
					pt, ok := fa.X.Type().Underlying().(*types.Pointer)
					if !ok {
						continue
					}
					fname := pt.Elem().Underlying().(*types.Struct).Field(fa.Field).Name()
					if fname != "Counter" {
						continue
					}
					switch {
					case isNamed(pt.Elem(), pkgTypes, "MessageHeaders"):
						nHdr++
						c.analysed(fn)
						c.check(isPlusOneOfCounter(x.Val), rule, fnName(fn)+"+headers.Counter", x.Pos(), "sealed counter is the stored counter + 1", "the counter written into the message headers is not the stored chain-key counter + 1")
					case isNamed(pt.Elem(), pkgTypes, "DeviceChainKey"):
						// only the derive step (the function that also computes the next message key)
						if len(callsIn(fn, func(k string, _ *ssa.CallCommon) bool { return strings.Contains(k, "hkdf.") })) == 0 && !reachesCalleeDirect(w, fn, "golang.org/x/crypto/hkdf.Expand") {
							continue
						}
						if _, isConst := x.Val.(*ssa.Const); isConst {
							continue // creation of a fresh chain key
						}
						if ph, isPhi := x.Val.(*ssa.Phi); isPhi {
							_ = ph
							continue // loop-carried counter of the window precomputation (C02.D3)
						}
						nStore++
						c.analysed(fn)
						c.check(isPlusOneOfCounter(x.Val), rule, fnName(fn)+"+next.Counter", x.Pos(), "derived chain key carries stored counter + 1", "the derived chain key does not carry the stored counter + 1: counters repeat or skip")
					}
				case *ssa.Call:
					// nonce constructor: module function (uint64) -> *[24]byte
					f := staticCallee(x.Common())
					if f == nil || !inModule(f) || len(x.Common().Args) != 1 || f.Signature.Results().Len() != 1 || f.Signature.Recv() != nil || f.Signature.Params().Len() != 1 {
						continue
					}
					if b, ok := f.Signature.Params().At(0).Type().Underlying().(*types.Basic); !ok || b.Kind() != types.Uint64 {
						continue
					}
					if !isNonceArrayPtr(f.Signature.Results().At(0).Type()) {
						continue
					}
					// only on the sealing side (the function that calls secretbox.Seal)
					if len(callsIn(fn, keyIs(keySBSeal))) == 0 {
						continue
					}
					nNonce++
					c.analysed(fn)
					c.check(isPlusOneOfCounter(x.Common().Args[0]), rule, fnName(fn)+"+nonce", x.Pos(), "payload nonce is the stored counter + 1", "the payload nonce is not derived from the stored counter + 1")
				}
			}
		}
	}
	if nHdr == 0 {
		c.undecided(rule, "headers.Counter", seal.Pos(), "no store to MessageHeaders.Counter found on the seal path")
	}
	if nStore == 0 {
		c.undecided(rule, "next.Counter", seal.Pos(), "no derived DeviceChainKey.Counter store found on the seal path")
	}
	c.count("nonce_sites", nNonce)
}

func reachesCalleeDirect(w *World, fn *ssa.Function, key string) bool {
	for _, e := range w.callGraph().callees[fn] {
		if len(callsIn(e.Callee, keyIs(key))) > 0 {
			return true
		}
	}
	return false
}

func isNonceArrayPtr(t types.Type) bool {
	p, ok := t.Underlying().(*types.Pointer)
	if !ok {
		return false
	}
	a, ok := p.Elem().Underlying().(*types.Array)
	return ok && a.Len() == 24
}

// ---------------------------------------------------------------------------
// D7 (shared with C10.D7): a lookup reports "missing" - the sentinel its caller answers by
// CREATING fresh key material - only when the datastore said "not found".

const (
	c09DsNotFound   = "global:" + pkgDatastore + ".ErrNotFound"
	c09KsNoSuchKey  = "global:" + pkgKeystore + ".ErrNoSuchKey"
	c09RoleChainKey = "chain-key"
	c09RoleNamedKey = "named-key"
)

// c09SentinelOf: v is a fixed error sentinel: a package-level error variable
// ("global:<pkg.Name>") or a constant of a named type such as an error code
// ("const:<type>:<value>").
func c09SentinelOf(v ssa.Value) (string, bool) {
	v = stripConv(v)
	switch x := v.(type) {
	case *ssa.Const:
		if x.Value == nil {
			return "", false
		}
		if n, ok := types.Unalias(x.Type()).(*types.Named); ok {
			return "const:" + types.TypeString(n, nil) + ":" + x.Value.String(), true
		}
	case *ssa.UnOp:
		if x.Op == token.MUL {
			if g, ok := x.X.(*ssa.Global); ok {
				if p, ok := g.Type().(*types.Pointer); ok && isErrorType(p.Elem()) {
					return "global:" + g.String(), true
				}
			}
		}
	}
	return "", false
}

func c09ShortSentinel(s string) string {
	if i := strings.LastIndex(s, "/"); i >= 0 {
		return s[i+1:]
	}
	return s
}

// c09ErrorStringOf: v is x.Error() ; returns x.
func c09ErrorStringOf(v ssa.Value) ssa.Value {
	c, ok := v.(*ssa.Call)
	if !ok {
		return nil
	}
	cc := c.Common()
	if cc.IsInvoke() && cc.Method.Name() == "Error" && len(cc.Args) == 0 {
		return cc.Value
	}
	return nil
}

// c09CondSentinel analyses cond as a test "error e is sentinel S": e == S, e.Error() ==
// S.Error(), pred(e, S) for any boolean predicate (errors.Is, errcode.Is ...), and negations.
func c09CondSentinel(cond ssa.Value, e ssa.Value, depth int) (sent string, isOnTrue bool, ok bool) {
	if depth > 4 {
		return "", false, false
	}
	same := func(x ssa.Value) bool { return x == e || stripConv(x) == e }
	switch x := cond.(type) {
	case *ssa.UnOp:
		if x.Op == token.NOT {
			s, t, ok := c09CondSentinel(x.X, e, depth+1)
			return s, !t, ok
		}
	case *ssa.BinOp:
		if x.Op != token.EQL && x.Op != token.NEQ {
			return "", false, false
		}
		for _, pair := range [][2]ssa.Value{{x.X, x.Y}, {x.Y, x.X}} {
			a, b := pair[0], pair[1]
			if same(a) {
				if s, ok := c09SentinelOf(b); ok {
					return s, x.Op == token.EQL, true
				}
			}
			if ea := c09ErrorStringOf(a); ea != nil && same(ea) {
				if eb := c09ErrorStringOf(b); eb != nil {
					if s, ok := c09SentinelOf(eb); ok {
						return s, x.Op == token.EQL, true
					}
				}
			}
		}
	case *ssa.Call:
		cc := x.Common()
		if cc.IsInvoke() || !isBoolType(x.Type()) || len(cc.Args) != 2 {
			break
		}
		if same(cc.Args[0]) {
			if s, ok := c09SentinelOf(cc.Args[1]); ok {
				return s, true, true
			}
		}
	}
	// isNotFound(e): a module helper with one error parameter and a single return of a
	// sentinel test of that parameter
	if x, ok := cond.(*ssa.Call); ok && isBoolType(x.Type()) {
		cc := x.Common()
		if f := staticCallee(cc); f != nil && inModule(f) && f.Blocks != nil && len(cc.Args) == 1 && len(f.Params) == 1 && same(cc.Args[0]) {
			if rs := returnsOf(f); len(rs) == 1 && len(rs[0].Results) == 1 {
				return c09CondSentinel(rs[0].Results[0], f.Params[0], depth+1)
			}
		}
	}
	return "", false, false
}

type c09SentTest struct {
	Sent        string
	Is, IsNot   edge
	If          *ssa.If
	description string
}

// c09SentinelTests lists the branches of fn that test error value e against a sentinel.
func c09SentinelTests(fn *ssa.Function, e ssa.Value) []c09SentTest {
	var out []c09SentTest
	if e == nil {
		return nil
	}
	for _, b := range fn.Blocks {
		if len(b.Instrs) == 0 {
			continue
		}
		ifi, ok := b.Instrs[len(b.Instrs)-1].(*ssa.If)
		if !ok {
			continue
		}
		s, onTrue, ok := c09CondSentinel(ifi.Cond, e, 0)
		if !ok {
			continue
		}
		t := c09SentTest{Sent: s, If: ifi}
		if onTrue {
			t.Is, t.IsNot = edge{b, b.Succs[0]}, edge{b, b.Succs[1]}
		} else {
			t.Is, t.IsNot = edge{b, b.Succs[1]}, edge{b, b.Succs[0]}
		}
		out = append(out, t)
	}
	return out
}

// c09ValueIsSentinel: the returned error value v is (top-level) the sentinel: the sentinel
// itself, or <code constant>.Wrap(inner) for a code sentinel.
func c09ValueIsSentinel(v ssa.Value, sent string, depth int) bool {
	if v == nil || depth > 4 {
		return false
	}
	if s, ok := c09SentinelOf(v); ok && s == sent {
		return true
	}
	switch x := stripConv(v).(type) {
	case *ssa.Call:
		cc := x.Common()
		if f := staticCallee(cc); f != nil && f.Signature.Recv() != nil && len(cc.Args) >= 1 {
			// a method of the sentinel constant that yields an error carrying it (ErrCode.Wrap)
			if s, ok := c09SentinelOf(cc.Args[0]); ok && s == sent && isErrorLike(x.Type()) {
				return true
			}
		}
	case *ssa.Phi:
		for _, e := range x.Edges {
			if c09ValueIsSentinel(e, sent, depth+1) {
				return true
			}
		}
	}
	return false
}

func isErrorLike(t types.Type) bool {
	if isErrorType(t) {
		return true
	}
	it, ok := t.Underlying().(*types.Interface)
	if !ok {
		return false
	}
	return types.Implements(t, errorType.Underlying().(*types.Interface)) && it.NumMethods() > 0
}

type c09Read struct {
	Instr  ssa.CallInstruction
	Err    ssa.Value
	Label  string
	MissS  string          // sentinel that means "not found" for this read ("" = any sentinel of a module callee)
	Callee []*ssa.Function // module functions behind the read (to be checked recursively)
}

// c09ReadsIn: the store reads of fn: direct datastore Get, direct keystore Get, and calls
// of module functions that (transitively) read.
func c09ReadsIn(w *World, fn *ssa.Function) []c09Read {
	ei := w.effects()
	var out []c09Read
	for _, s := range ei.sitesIn(fn) {
		if _, isCall := s.Instr.(*ssa.Call); !isCall {
			continue
		}
		e := errVerdict(s.Instr)
		if e == nil {
			continue
		}
		switch {
		case s.Direct && s.Effects[0].Op == "Get":
			out = append(out, c09Read{Instr: s.Instr, Err: e, Label: "datastore.Get", MissS: c09DsNotFound})
		case s.Direct && s.Effects[0].Op == "KsGet":
			out = append(out, c09Read{Instr: s.Instr, Err: e, Label: "keystore.Get", MissS: c09KsNoSuchKey, Callee: w.resolve(s.Instr.Common(), nil)})
		case !s.Direct:
			reads := false
			for _, x := range s.Effects {
				if x.Op == "Get" || x.Op == "KsGet" {
					reads = true
				}
			}
			if reads {
				out = append(out, c09Read{Instr: s.Instr, Err: e, Label: fnName(s.Callee), Callee: calleesAt(w, fn, s.Instr)})
			}
		}
	}
	return out
}

type c09MissChecker struct {
	c     *Ctx
	rule  string
	seen  map[string]bool
	count int
}

// translator checks fn as a function that reports sentinel sent to its caller: every return
// of the sentinel that can follow a store read must be on the "not found" side of a test of
// that read's error (or after the read succeeded). Any other read failure - an I/O fault, a
// cancelled context - must surface as an error that is not the sentinel.
func (m *c09MissChecker) translator(fn *ssa.Function, sent string, depth int) {
	if fn == nil || fn.Blocks == nil || depth > 3 {
		return
	}
	key := fn.String() + "|" + sent
	if m.seen[key] {
		return
	}
	m.seen[key] = true
	c, w := m.c, m.c.W
	c.analysed(fn)
	idx := errResultIndex(fn.Signature)
	if idx < 0 {
		return
	}
	reads := c09ReadsIn(w, fn)
	var sentinelReturns []*ssa.Return
	for _, r := range returnsOf(fn) {
		rr := retResults(r)
		if idx >= len(rr) {
			continue
		}
		ev := rr[idx]
		// forwarded unchanged from a callee: that callee is a translator for the same sentinel
		forwarded := false
		for _, rd := range reads {
			if stripConv(ev) == rd.Err {
				forwarded = true
				for _, cal := range rd.Callee {
					m.translator(cal, sent, depth+1)
				}
			}
		}
		if !forwarded && c09ValueIsSentinel(ev, sent, 0) {
			sentinelReturns = append(sentinelReturns, r)
		}
	}
	for _, rd := range reads {
		// edges after which the sentinel is justified for this read: "not found" outcome, or success
		cut := map[edge]bool{}
		for _, e := range edgesOfVerdict(rd.Err).Accept {
			cut[e] = true
		}
		missTested := ""
		for _, t := range c09SentinelTests(fn, rd.Err) {
			if rd.MissS == "" || t.Sent == rd.MissS {
				cut[t.Is] = true
				missTested = t.Sent
				if rd.MissS == "" {
					for _, cal := range rd.Callee {
						m.translator(cal, t.Sent, depth+1)
					}
				}
			}
		}
		blk := rd.Instr.(ssa.Instruction).Block()
		var starts []edge
		for _, s := range blk.Succs {
			if !cut[edge{blk, s}] {
				starts = append(starts, edge{blk, s})
			}
		}
		region := reachFromEdges(starts, cut)
		var bad []*ssa.Return
		follows := false
		for _, r := range sentinelReturns {
			if r.Block() == blk || instrReaches(rd.Instr.(ssa.Instruction), r) {
				follows = true
			}
			if r.Block() == blk || region[r.Block()] {
				bad = append(bad, r)
			}
		}
		if !follows {
			continue
		}
		m.count++
		construct := fnName(fn) + "+" + c09ShortSentinel(sent) + "<-" + rd.Label
		okMsg := "the 'missing' sentinel is returned only when the read reported " + c09ShortSentinel(missTested) + " (or succeeded)"
		c.check(len(bad) == 0, m.rule, construct, posOf(rd.Instr), okMsg,
			fmt.Sprintf("a failure of %s other than 'not found' is reported as %s (return at %s): the caller answers that sentinel by creating a fresh key, so one transient read fault replaces the key in use", rd.Label, c09ShortSentinel(sent), describeReturns(c, bad)))
		if rd.MissS != "" {
			for _, cal := range rd.Callee {
				m.translator(cal, rd.MissS, depth+1)
			}
		}
	}
}

// c09FreshKeyCalls: call sites in fn that produce fresh random key material.
func c09FreshKeyCalls(w *World, fn *ssa.Function, role string) []ssa.CallInstruction {
	var out []ssa.CallInstruction
	if role == c09RoleChainKey {
		fresh := freshChainKeyFuncs(w)
		for _, e := range w.callGraph().callees[fn] {
			if fresh[e.Callee] {
				out = append(out, e.Site)
			}
		}
		return out
	}
	return callsIn(fn, func(k string, cc *ssa.CallCommon) bool {
		if cc.IsInvoke() {
			return false
		}
		i := strings.LastIndex(k, ".")
		if i < 0 {
			return false
		}
		pkg, name := k[:i], k[i+1:]
		switch {
		case pkg == "github.com/libp2p/go-libp2p/core/crypto" && strings.HasPrefix(name, "Generate"):
			return true
		case strings.HasPrefix(pkg, "crypto/") && name == "GenerateKey":
			return true
		}
		return false
	})
}

// checkMissSentinel (D7): for every get-or-create function of the role - a lookup of the
// stored key, fresh random key material when the lookup misses, a store of the new key -
//
//	(a) the fresh key is generated only on the side of a test that the lookup error IS the
//	    "missing" sentinel (not on any failure of the lookup), and
//	(b) every function behind the lookup that can report that sentinel does so only for the
//	    datastore's / keystore's own "not found" outcome.
func checkMissSentinel(c *Ctx, rule, role string) {
	w := c.W
	ei := w.effects()
	mc := &c09MissChecker{c: c, rule: rule, seen: map[string]bool{}}
	n := 0
	for _, fn := range w.ModFuncs {
		if !inModule(fn) {
			continue
		}
		// cheap pre-filters (effect summaries are expensive)
		if role == c09RoleChainKey && fnPkg(fn).Path() != pkgSecret {
			continue
		}
		if role == c09RoleNamedKey && fnPkg(fn).Path() != pkgSecret && len(callsIn(fn, func(k string, cc *ssa.CallCommon) bool {
			return cc.IsInvoke() && isNamed(cc.Value.Type(), pkgKeystore, "Keystore")
		})) == 0 {
			continue
		}
		gens := c09FreshKeyCalls(w, fn, role)
		if len(gens) == 0 {
			continue
		}
		lookups := c09LookupsOf(w, fn, role)
		stores := 0
		for _, s := range ei.sitesIn(fn) {
			switch role {
			case c09RoleChainKey:
				if s.has(eff("Put", nsChainKey)) {
					stores++
				}
			case c09RoleNamedKey:
				if s.has(func(e Effect) bool { return e.Op == "KsPut" }) {
					stores++
				}
			}
		}
		if len(lookups) == 0 || stores == 0 {
			continue
		}
		n++
		c.analysed(fn)
		for _, g := range gens {
			construct := fnName(fn) + "+create-on-miss"
			evs, why := c09MissEvidenceAt(w, fn, g.(ssa.Instruction).Block(), role, 0)
			if len(evs) == 0 {
				c.fail(rule, construct, posOf(g), "a fresh key is generated although the lookup of the stored one was not tested to have reported exactly the 'missing' sentinel (%s): any failure of the lookup (I/O fault, cancelled context) replaces the key in use by a new one", why)
				continue
			}
			var desc []string
			for _, ev := range evs {
				d := c09ShortSentinel(ev.Sent)
				if ev.Fn != fn {
					d += " (tested in " + fnName(ev.Fn) + ", handed on as its 'not found, no error' outcome)"
					c.analysed(ev.Fn)
				}
				desc = append(desc, d)
			}
			c.ok(rule, construct, posOf(g), "fresh key generated only when the lookup reported %s", strings.Join(desc, " / "))
			for _, ev := range evs {
				var trans []*ssa.Function
				if ev.Lookup.Direct {
					trans = w.resolve(ev.Lookup.Instr.Common(), nil)
				} else {
					trans = calleesAt(w, ev.Fn, ev.Lookup.Instr)
				}
				if len(trans) == 0 {
					c.note("%s: the lookup behind %s has no implementation inside the module; exactness of %s is decided for module implementations only", rule, fnName(ev.Fn), c09ShortSentinel(ev.Sent))
				}
				for _, t := range trans {
					mc.translator(t, ev.Sent, 0)
				}
			}
		}
	}
	if n == 0 {
		c.undecided(rule, "get-or-create("+role+")", token.NoPos, "no function that looks up a stored key, generates a fresh one and stores it was found for role %s", role)
	}
	c.count(rule+"_translator_reads", mc.count)
}

// c09LookupsOf: the sites of fn that only read the stored key of the role (directly, or
// through a module helper whose whole effect summary is reads).
func c09LookupsOf(w *World, fn *ssa.Function, role string) []effectSite {
	var out []effectSite
	for _, s := range w.effects().sitesIn(fn) {
		if !s.pureLookup() {
			continue
		}
		switch role {
		case c09RoleChainKey:
			if s.has(eff("Get", nsChainKey)) {
				out = append(out, s)
			}
		case c09RoleNamedKey:
			if s.has(func(e Effect) bool { return e.Op == "KsGet" }) {
				out = append(out, s)
			}
		}
	}
	return out
}

// c09MissEvidence: the read whose error was tested to be sentinel Sent, in function Fn.
type c09MissEvidence struct {
	Sent   string
	Fn     *ssa.Function
	Lookup effectSite
}

// c09MissEvidenceAt decides whether block blk of fn is reached only when a lookup of the
// role reported "missing". Two shapes are accepted:
//
//	(1) blk is dominated by the is-sentinel side of a test of the lookup's error;
//	(2) the lookup is a module helper with an outcome result (found bool, or a value that is
//	    nil on a miss): blk is dominated by the helper's "no error" side and by its "not
//	    found" side, and inside the helper every return with that outcome (false/nil, nil
//	    error) is itself reached only on a miss - recursively by (1) or (2). Every other
//	    failure of the helper's read then comes back as a non-nil error, which the caller
//	    has tested.
//
// When no evidence is found the string says what is missing.
func c09MissEvidenceAt(w *World, fn *ssa.Function, blk *ssa.BasicBlock, role string, depth int) ([]c09MissEvidence, string) {
	if depth > 3 {
		return nil, "helper chain too deep"
	}
	lookups := c09LookupsOf(w, fn, role)
	if len(lookups) == 0 {
		return nil, "no lookup of the stored key in " + fnName(fn)
	}
	why := "the generation is not on the 'missing' side of any test of the lookup's outcome"
	for _, l := range lookups {
		e := errVerdict(l.Instr)
		// shape (1)
		for _, t := range c09SentinelTests(fn, e) {
			if edgeDominates(t.Is, blk) {
				return []c09MissEvidence{{Sent: t.Sent, Fn: fn, Lookup: l}}, ""
			}
		}
		if l.Direct {
			continue
		}
		// shape (2)
		if _, isCall := l.Instr.(*ssa.Call); !isCall {
			continue
		}
		sig := l.Instr.Common().Signature()
		errIdx := errResultIndex(sig)
		if errIdx >= 0 {
			if e == nil {
				why = "the error result of " + fnName(l.Callee) + " is discarded"
				continue
			}
			okSide := false
			for _, a := range edgesOfVerdict(e).Accept {
				if edgeDominates(a, blk) {
					okSide = true
				}
			}
			if !okSide {
				why = "the error result of " + fnName(l.Callee) + " is not tested to be nil before the key is generated"
				continue
			}
		}
		for i := 0; i < sig.Results().Len(); i++ {
			if i == errIdx {
				continue
			}
			v := resultValue(l.Instr, i)
			if v == nil || !c09MissSideDominates(v, blk) {
				continue
			}
			// the helper's own returns with that outcome
			var all []c09MissEvidence
			bad := ""
			nMiss := 0
			for _, h := range calleesAt(w, fn, l.Instr) {
				for _, r := range returnsOf(h) {
					rr := retResults(r)
					if i >= len(rr) || !isSuccessReturn(r) {
						continue
					}
					switch c09OutcomeOf(rr[i]) {
					case "hit":
						continue
					case "unknown":
						bad = "cannot tell whether the return of " + fnName(h) + " at line " + fmt.Sprint(w.Fset.Position(posOf(r)).Line) + " means 'found' or 'missing'"
						continue
					}
					nMiss++
					sub, subWhy := c09MissEvidenceAt(w, h, r.Block(), role, depth+1)
					if len(sub) == 0 {
						bad = fnName(h) + " reports 'not found, no error' on a path where its read was not tested to have reported the 'missing' sentinel: " + subWhy
						continue
					}
					all = append(all, sub...)
				}
			}
			switch {
			case bad != "":
				why = bad
			case nMiss == 0:
				why = fnName(l.Callee) + " has no 'not found, no error' return"
			default:
				return all, ""
			}
		}
	}
	return nil, why
}

// c09MissSideDominates: blk is dominated by the side of a test of outcome value v on which
// v is false (bool) or nil (pointer, interface, slice, map).
func c09MissSideDominates(v ssa.Value, blk *ssa.BasicBlock) bool {
	if isBoolType(v.Type()) {
		for _, e := range edgesOfVerdict(v).Reject {
			if edgeDominates(e, blk) {
				return true
			}
		}
		return false
	}
	switch v.Type().Underlying().(type) {
	case *types.Pointer, *types.Interface, *types.Slice, *types.Map:
	default:
		return false
	}
	// for nil-able values edgesOfVerdict's "accepting" side is v == nil
	for _, e := range edgesOfVerdict(v).Accept {
		if edgeDominates(e, blk) {
			return true
		}
	}
	return false
}

// c09OutcomeOf classifies a returned outcome value: "miss" (false / nil), "hit" (true / a
// value that is not the nil constant), "unknown" (a computed bool).
func c09OutcomeOf(v ssa.Value) string {
	if b, ok := constBool(v); ok {
		if b {
			return "hit"
		}
		return "miss"
	}
	if isBoolType(v.Type()) {
		return "unknown"
	}
	if isNilConst(v) {
		return "miss"
	}
	if ph, ok := v.(*ssa.Phi); ok {
		for _, e := range ph.Edges {
			if isNilConst(e) {
				return "unknown"
			}
		}
	}
	return "hit"
}

// ---------------------------------------------------------------------------
// D8: the chain only moves forward by SealEnvelope - reading one's own messages back never
// advances the own sending chain.

// c09OwnParamIndex traces v (inside fn, a function of scope) back to a parameter of root
// through the call sites of scope functions; -1 when it is not exactly one root parameter.
func c09OwnParamIndex(w *World, v ssa.Value, root *ssa.Function, scope map[*ssa.Function]int, depth int) int {
	v = c09Resolve(v)
	// the raw bytes of a key stand for the key: k.Raw()
	if ex, ok := v.(*ssa.Extract); ok && ex.Index == 0 {
		if call, ok := ex.Tuple.(*ssa.Call); ok && call.Common().IsInvoke() && call.Common().Method.Name() == "Raw" {
			v = c09Resolve(call.Common().Value)
		}
	}
	p, ok := v.(*ssa.Parameter)
	if !ok || depth > 4 {
		return -1
	}
	fn := p.Parent()
	idx := -1
	for i, q := range fn.Params {
		if q == p {
			idx = i
		}
	}
	if idx < 0 {
		return -1
	}
	if fn == root {
		return idx
	}
	res := -2
	for _, cs := range w.callGraph().callers[fn] {
		if _, in := scope[cs.Caller]; !in {
			continue
		}
		cc := cs.Instr.Common()
		args := cc.Args
		if cc.IsInvoke() {
			args = append([]ssa.Value{cc.Value}, args...)
		}
		if idx >= len(args) {
			return -1
		}
		r := c09OwnParamIndex(w, args[idx], root, scope, depth+1)
		if res == -2 {
			res = r
		} else if res != r {
			return -1
		}
	}
	if res == -2 {
		return -1
	}
	return res
}

// c09IsSenderKey: v derives from the DevicePk field of the message headers.
func c09IsSenderKey(w *World, v ssa.Value) bool {
	return c09DerivesFromDevicePk(v, 0, map[ssa.Value]bool{})
}

type c09OwnGuard struct {
	OwnIdx int
	Why    string
}

// c09OwnDeviceGuard: is site (in fn) executed only when the sender of the message differs
// from the own-device parameter of root (or when there is no own device)? Returns the index
// of that parameter in root.Params.
func c09OwnDeviceGuard(w *World, fn *ssa.Function, site ssa.Instruction, root *ssa.Function, scope map[*ssa.Function]int) (c09OwnGuard, bool) {
	type cmp struct {
		equal, differ edge
		own           int
	}
	var cmps []cmp
	nilEdges := map[int][]edge{}
	for _, b := range fn.Blocks {
		if len(b.Instrs) == 0 {
			continue
		}
		ifi, ok := b.Instrs[len(b.Instrs)-1].(*ssa.If)
		if !ok {
			continue
		}
		cond, neg := ifi.Cond, false
		for {
			u, ok := cond.(*ssa.UnOp)
			if !ok || u.Op != token.NOT {
				break
			}
			cond, neg = u.X, !neg
		}
		switch x := cond.(type) {
		case *ssa.Call:
			// own.Equals(sender) / sender.Equals(own) / bytes.Equal(ownRaw, sender)
			cc := x.Common()
			if !isBoolType(x.Type()) {
				continue
			}
			var ops []ssa.Value
			switch {
			case cc.IsInvoke() && cc.Method.Name() == "Equals" && len(cc.Args) == 1:
				ops = []ssa.Value{cc.Value, cc.Args[0]}
			case !cc.IsInvoke() && len(cc.Args) == 2 && (calleeKey(cc) == "bytes.Equal" || strings.HasSuffix(calleeKey(cc), ".Equals") || strings.HasSuffix(calleeKey(cc), ".KeyEqual")):
				ops = []ssa.Value{cc.Args[0], cc.Args[1]}
			default:
				continue
			}
			for _, pr := range [][2]ssa.Value{{ops[0], ops[1]}, {ops[1], ops[0]}} {
				own := c09OwnParamIndex(w, pr[0], root, scope, 0)
				if own < 0 || !c09IsSenderKey(w, pr[1]) {
					continue
				}
				eq, df := edge{b, b.Succs[0]}, edge{b, b.Succs[1]}
				if neg {
					eq, df = df, eq
				}
				cmps = append(cmps, cmp{eq, df, own})
			}
		case *ssa.BinOp:
			if x.Op != token.EQL && x.Op != token.NEQ {
				continue
			}
			var other ssa.Value
			switch {
			case isNilConst(x.Y):
				other = x.X
			case isNilConst(x.X):
				other = x.Y
			default:
				continue
			}
			own := c09OwnParamIndex(w, other, root, scope, 0)
			if own < 0 {
				continue
			}
			isNil := edge{b, b.Succs[0]}
			if (x.Op == token.NEQ) != neg {
				isNil = edge{b, b.Succs[1]}
			}
			nilEdges[own] = append(nilEdges[own], isNil)
		}
	}
	if len(cmps) == 0 {
		return c09OwnGuard{Why: "no comparison between the sender of the message (headers.DevicePk) and the own-device argument"}, false
	}
	why := ""
	for _, cm := range cmps {
		// (i) not reachable once the keys compared equal
		if reachFromEdges([]edge{cm.equal}, nil)[site.Block()] {
			why = "the update is reachable on the side where the sender EQUALS the own device"
			continue
		}
		// (ii) every path to the site takes the "differs" edge or a "no own device" edge
		cut := map[edge]bool{cm.differ: true}
		for _, e := range nilEdges[cm.own] {
			cut[e] = true
		}
		if reach(fn.Blocks[0], cut)[site.Block()] {
			why = "the update is reachable without the sender having been compared with the own device"
			continue
		}
		return c09OwnGuard{OwnIdx: cm.own}, true
	}
	return c09OwnGuard{Why: why}, false
}

// c09OwnDeviceValue: v is the Device() key of an OwnMemberDevice (or nil: no own device).
func c09OwnDeviceValue(w *World, v ssa.Value, depth int, seen map[ssa.Value]bool) (bool, string) {
	v = stripConv(v)
	if seen[v] {
		return true, ""
	}
	seen[v] = true
	if depth > 4 {
		return false, "a value too far from its origin to be identified"
	}
	own := namedType(w, pkgSecret, "OwnMemberDevice")
	var ownIface *types.Interface
	if own != nil {
		ownIface, _ = own.Underlying().(*types.Interface)
	}
	isOwnMD := func(t types.Type) bool {
		if ownIface == nil {
			return false
		}
		return types.Implements(t, ownIface) || types.Implements(types.NewPointer(t), ownIface)
	}
	switch x := v.(type) {
	case *ssa.Const:
		if x.Value == nil {
			return true, ""
		}
	case *ssa.Phi:
		for _, e := range x.Edges {
			if ok, why := c09OwnDeviceValue(w, e, depth, seen); !ok {
				return false, why
			}
		}
		return true, ""
	case *ssa.Extract:
		if call, ok := x.Tuple.(*ssa.Call); ok {
			if f := staticCallee(call.Common()); f != nil && inModule(f) && f.Blocks != nil {
				for _, r := range returnsOf(f) {
					if rr := retResults(r); x.Index < len(rr) {
						if isSuccessReturn(r) {
							if ok, why := c09OwnDeviceValue(w, rr[x.Index], depth+1, seen); !ok {
								return false, why
							}
						}
					}
				}
				return true, ""
			}
		}
	case *ssa.Call:
		cc := x.Common()
		name := ""
		var recvT types.Type
		if cc.IsInvoke() {
			name, recvT = cc.Method.Name(), cc.Value.Type()
		} else if f := staticCallee(cc); f != nil {
			if f.Signature.Recv() != nil && len(cc.Args) > 0 {
				name, recvT = f.Name(), cc.Args[0].Type()
			} else if inModule(f) && f.Blocks != nil {
				// helper: look at what it returns
				for _, r := range returnsOf(f) {
					if rr := retResults(r); len(rr) > 0 {
						if ok, why := c09OwnDeviceValue(w, rr[0], depth+1, seen); !ok {
							return false, why
						}
					}
				}
				return true, ""
			}
		}
		if recvT != nil && len(cc.Args) <= 1 {
			switch {
			case name == "Device" && isOwnMD(recvT):
				return true, ""
			case name == "Device":
				return false, "the Device() key of a value that is not an OwnMemberDevice (some other member's device)"
			case name == "Member" && (isOwnMD(recvT) || isNamed(recvT, pkgSecret, "MemberDevice")):
				return false, "the MEMBER key (Member()), not the DEVICE key: headers carry device keys, so no sender ever equals it"
			}
		}
	case *ssa.UnOp:
		if x.Op != token.MUL {
			break
		}
		switch a := x.X.(type) {
		case *ssa.FieldAddr:
			pt, ok := a.X.Type().Underlying().(*types.Pointer)
			if !ok {
				break
			}
			stT := pt.Elem()
			n := 0
			for _, fn := range w.ModFuncs {
				for _, b := range fn.Blocks {
					for _, in := range b.Instrs {
						st, ok := in.(*ssa.Store)
						if !ok {
							continue
						}
						fa, ok := st.Addr.(*ssa.FieldAddr)
						if !ok || fa.Field != a.Field {
							continue
						}
						pt2, ok := fa.X.Type().Underlying().(*types.Pointer)
						if !ok || !types.Identical(pt2.Elem(), stT) {
							continue
						}
						n++
						if ok, why := c09OwnDeviceValue(w, st.Val, depth+1, seen); !ok {
							return false, why
						}
					}
				}
			}
			if n == 0 {
				return false, "the field read here is never assigned: the own device is unknown to the open path"
			}
			return true, ""
		case *ssa.Alloc:
			n := 0
			if a.Referrers() != nil {
				for _, r := range *a.Referrers() {
					if st, ok := r.(*ssa.Store); ok && st.Addr == ssa.Value(a) {
						n++
						if ok, why := c09OwnDeviceValue(w, st.Val, depth, seen); !ok {
							return false, why
						}
					}
				}
			}
			if n > 0 {
				return true, ""
			}
		}
	case *ssa.Parameter:
		fn := x.Parent()
		idx := -1
		for i, q := range fn.Params {
			if q == x {
				idx = i
			}
		}
		callers := w.callGraph().callers[fn]
		if idx < 0 || len(callers) == 0 || (fn.Object() != nil && fn.Object().Exported()) {
			return false, "an arbitrary key supplied by the caller of " + fnName(fn)
		}
		for _, cs := range callers {
			cc := cs.Instr.Common()
			args := cc.Args
			if cc.IsInvoke() {
				args = append([]ssa.Value{cc.Value}, args...)
			}
			if idx < len(args) {
				if ok, why := c09OwnDeviceValue(w, args[idx], depth+1, seen); !ok {
					return false, why
				}
			}
		}
		return true, ""
	}
	return false, "a value that cannot be traced to the Device() key of the store's OwnMemberDevice"
}

// checkOwnReadBack (D8).
func checkOwnReadBack(c *Ctx, rule string) {
	w := c.W
	ei := w.effects()
	impl := secretStoreMethod(w, "OpenEnvelopePayload")
	if impl == nil {
		c.undecided(rule, "OpenEnvelopePayload", token.NoPos, "SecretStore.OpenEnvelopePayload not found")
		return
	}
	c.analysed(impl)
	scope := map[*ssa.Function]int{}
	for f, d := range w.reachableFuncs([]*ssa.Function{impl}, 5) {
		if fnPkg(f) != nil && fnPkg(f).Path() == pkgSecret {
			scope[f] = d
		}
	}
	putChain := eff("Put", nsChainKey)
	exempt := creationGuarded(w)
	ownIdx := map[int]bool{}
	paths := 0
	var walk func(fn *ssa.Function, chain []string, seen map[*ssa.Function]bool, reason string)
	walk = func(fn *ssa.Function, chain []string, seen map[*ssa.Function]bool, reason string) {
		if seen[fn] || len(chain) > 6 {
			return
		}
		seen[fn] = true
		defer delete(seen, fn)
		here := append(append([]string{}, chain...), fnName(fn))
		for _, s := range ei.sitesIn(fn) {
			if !s.has(putChain) {
				continue
			}
			in := s.Instr.(ssa.Instruction)
			if exempt(in) {
				continue
			}
			g, ok := c09OwnDeviceGuard(w, fn, in, impl, scope)
			if ok {
				paths++
				ownIdx[g.OwnIdx] = true
				c.analysed(fn)
				c.ok(rule, strings.Join(here, "->")+"+update-skipped-for-own-device", posOf(s.Instr), "the stored chain key is updated only when the sender differs from the own device (parameter #%d of %s)", g.OwnIdx, fnName(impl))
				continue
			}
			why := reason
			if why == "" || !strings.HasPrefix(g.Why, "no comparison") {
				why = g.Why + " in " + fnName(fn)
			}
			if s.Direct {
				paths++
				c.fail(rule, strings.Join(here, "->")+"+update-skipped-for-own-device", posOf(s.Instr), "opening a message can overwrite the chain key of its sender even when the sender is this device (%s): reading one's own messages back advances the own sending chain, counters get gaps and receivers run out of keys", why)
				continue
			}
			descended := false
			for _, cal := range calleesAt(w, fn, s.Instr) {
				if _, in := scope[cal]; in {
					descended = true
					next := reason
					if !strings.HasPrefix(g.Why, "no comparison") {
						next = g.Why + " in " + fnName(fn)
					}
					walk(cal, here, seen, next)
				}
			}
			if !descended {
				paths++
				c.fail(rule, strings.Join(here, "->")+"+update-skipped-for-own-device", posOf(s.Instr), "chain-key update behind a call that could not be followed")
			}
		}
	}
	walk(impl, nil, map[*ssa.Function]bool{}, "")
	if paths == 0 {
		c.undecided(rule, fnName(impl)+"+update", impl.Pos(), "no update of a stored chain key found on the open path")
		return
	}
	if len(ownIdx) == 0 {
		// every path was reported above; without a guard the own-device parameter is unknown
		c.note("%s: the own-device parameter of %s could not be identified (no guarded update path); its callers were not checked", rule, fnName(impl))
		return
	}
	if len(ownIdx) != 1 {
		c.undecided(rule, fnName(impl)+"+own-device-parameter", impl.Pos(), "cannot identify the own-device parameter of OpenEnvelopePayload (candidates %v)", ownIdx)
		return
	}
	own := -1
	for i := range ownIdx {
		own = i
	}
	// (a) every module call passes the Device() key of the OwnMemberDevice
	nCalls := 0
	for _, fn := range w.ModFuncs {
		for _, ci := range callsIn(fn, func(k string, cc *ssa.CallCommon) bool {
			if cc.IsInvoke() {
				return cc.Method.Name() == impl.Name() && isNamed(cc.Value.Type(), pkgSecret, "SecretStore")
			}
			return staticCallee(cc) == impl
		}) {
			cc := ci.Common()
			ai := own
			if cc.IsInvoke() {
				ai = own - 1
			}
			if ai < 0 || ai >= len(cc.Args) {
				continue
			}
			nCalls++
			c.analysed(fn)
			ok, why := c09OwnDeviceValue(w, cc.Args[ai], 0, map[ssa.Value]bool{})
			c.check(ok, rule, fnName(fn)+"+OpenEnvelopePayload(own-device)", posOf(ci), "the own-device argument is the Device() key of the store's OwnMemberDevice (or nil)",
				"the own-device argument of OpenEnvelopePayload is "+why+"; the secret store then takes this device's own messages for someone else's and advances the own sending chain when they are read back")
		}
	}
	if nCalls == 0 {
		c.undecided(rule, "OpenEnvelopePayload callers", token.NoPos, "no module call of SecretStore.OpenEnvelopePayload found")
	}
}

// ---------------------------------------------------------------------------
// Local tables of closures: `steps := []func() error{f0, f1, ...}; for _, st := range steps
// { if err := st(); ... }`. The call st() has no static callee; when the table is a local
// composite literal whose elements are all statically known functions and which is used for
// nothing but being indexed, the call is a call of each element, and a forward range loop
// runs them in the order of the literal. The module call graph is completed with these edges
// (so that effect summaries, lock contexts and reachability see through the table) and the
// element order is kept for the write-order rules.

type c09TableCall struct {
	Site     ssa.CallInstruction
	Elems    []*ssa.Function // in literal order
	Ordered  bool            // run by a forward loop over the whole table (range, or i := 0; i < len; i++): element k runs before element k+1
	Reversed bool            // run from the last element down to the first (i := len-1; i >= 0; i--): element k+1 runs before element k
}

type c09TableInfo struct {
	bySite map[ssa.CallInstruction]*c09TableCall
	byFn   map[*ssa.Function][]*c09TableCall
	parent map[*ssa.Function]*c09TableCall // element -> table call
}

func c09FuncValue(v ssa.Value) *ssa.Function {
	for {
		switch x := v.(type) {
		case *ssa.ChangeType:
			v = x.X
			continue
		case *ssa.MakeClosure:
			f, _ := x.Fn.(*ssa.Function)
			return f
		case *ssa.Function:
			return x
		}
		return nil
	}
}

// c09TableCallOf recognises ci as a call through a local literal table.
func c09TableCallOf(ci ssa.CallInstruction) *c09TableCall {
	cc := ci.Common()
	if cc.IsInvoke() {
		return nil
	}
	ld, ok := cc.Value.(*ssa.UnOp)
	if !ok || ld.Op != token.MUL {
		return nil
	}
	ia, ok := ld.X.(*ssa.IndexAddr)
	if !ok {
		return nil
	}
	var al *ssa.Alloc
	var sl *ssa.Slice
	switch b := ia.X.(type) {
	case *ssa.Slice:
		sl = b
		al, _ = b.X.(*ssa.Alloc)
		if b.Low != nil || b.High != nil || b.Max != nil {
			return nil
		}
	case *ssa.Alloc:
		al = b
	}
	if al == nil || al.Referrers() == nil {
		return nil
	}
	arr, ok := al.Type().(*types.Pointer).Elem().Underlying().(*types.Array)
	if !ok {
		return nil
	}
	if _, isSig := arr.Elem().Underlying().(*types.Signature); !isSig {
		return nil
	}
	elems := make([]*ssa.Function, arr.Len())
	onlyLoaded := func(a *ssa.IndexAddr) bool {
		if a.Referrers() == nil {
			return true
		}
		for _, r := range *a.Referrers() {
			switch u := r.(type) {
			case *ssa.UnOp:
				if u.Op != token.MUL {
					return false
				}
			case *ssa.DebugRef:
			default:
				return false
			}
		}
		return true
	}
	for _, r := range *al.Referrers() {
		switch u := r.(type) {
		case *ssa.IndexAddr:
			k, isConst := constInt(u.Index)
			if !isConst {
				if !onlyLoaded(u) {
					return nil
				}
				continue
			}
			if k < 0 || k >= arr.Len() || u.Referrers() == nil {
				return nil
			}
			for _, r2 := range *u.Referrers() {
				switch st := r2.(type) {
				case *ssa.Store:
					if st.Addr != ssa.Value(u) || elems[k] != nil {
						return nil
					}
					f := c09FuncValue(st.Val)
					if f == nil || f.Blocks == nil {
						return nil
					}
					elems[k] = f
				case *ssa.UnOp, *ssa.DebugRef:
				default:
					return nil
				}
			}
		case *ssa.Slice:
			if sl != nil && u != sl {
				return nil
			}
			if u.Referrers() == nil {
				continue
			}
			for _, r2 := range *u.Referrers() {
				switch x := r2.(type) {
				case *ssa.IndexAddr:
					if !onlyLoaded(x) {
						return nil
					}
				case *ssa.Call:
					if b, isB := x.Common().Value.(*ssa.Builtin); !isB || b.Name() != "len" {
						return nil
					}
				case *ssa.DebugRef:
				default:
					return nil // the table escapes (appended to, passed on, stored)
				}
			}
		case *ssa.DebugRef:
		default:
			return nil
		}
	}
	for _, f := range elems {
		if f == nil {
			return nil
		}
	}
	tc := &c09TableCall{Site: ci, Elems: elems}
	tableLen := arr.Len()
	// isLen: v is len(table) or the constant length of the literal
	isLen := func(v ssa.Value) bool {
		if n, ok := constInt(v); ok {
			return n == tableLen
		}
		if call, ok := v.(*ssa.Call); ok {
			if b, isB := call.Common().Value.(*ssa.Builtin); isB && b.Name() == "len" && len(call.Common().Args) == 1 {
				a := call.Common().Args[0]
				return (sl != nil && a == ssa.Value(sl)) || a == ssa.Value(al)
			}
		}
		return false
	}
	// loopTest: the block of phi ends with a branch on "phi OP bound"; returns OP normalised
	// to phi on the left, and the bound
	loopTest := func(ph *ssa.Phi) (token.Token, ssa.Value, bool) {
		b := ph.Block()
		if len(b.Instrs) == 0 {
			return 0, nil, false
		}
		ifi, ok := b.Instrs[len(b.Instrs)-1].(*ssa.If)
		if !ok {
			return 0, nil, false
		}
		bo, ok := ifi.Cond.(*ssa.BinOp)
		if !ok {
			return 0, nil, false
		}
		// the body (where the table is indexed) must be on the true side
		if !edgeDominates(edge{b, b.Succs[0]}, ia.Block()) {
			return 0, nil, false
		}
		switch {
		case bo.X == ssa.Value(ph):
			return bo.Op, bo.Y, true
		case bo.Y == ssa.Value(ph):
			flip := map[token.Token]token.Token{token.LSS: token.GTR, token.GTR: token.LSS, token.LEQ: token.GEQ, token.GEQ: token.LEQ, token.NEQ: token.NEQ}
			if op, ok := flip[bo.Op]; ok {
				return op, bo.X, true
			}
		}
		return 0, nil, false
	}
	// step: v == ph + delta
	step := func(v ssa.Value, ph *ssa.Phi) (int64, bool) {
		bo, ok := v.(*ssa.BinOp)
		if !ok || bo.X != ssa.Value(ph) {
			return 0, false
		}
		d, isC := constInt(bo.Y)
		switch {
		case !isC:
			return 0, false
		case bo.Op == token.ADD:
			return d, true
		case bo.Op == token.SUB:
			return -d, true
		}
		return 0, false
	}
	switch idx := ia.Index.(type) {
	case *ssa.BinOp:
		// forward range: index = phi [-1, index+1] and the loop is left at len
		if one, isOne := constInt(idx.Y); idx.Op == token.ADD && isOne && one == 1 {
			if ph, ok := idx.X.(*ssa.Phi); ok && len(ph.Edges) == 2 {
				for i, e := range ph.Edges {
					if m, isC := constInt(e); isC && m == -1 && ph.Edges[1-i] == ssa.Value(idx) {
						tc.Ordered = true
					}
				}
			}
		}
	case *ssa.Phi:
		// index loop: for i := 0; i < len(table); i++ { table[i]() }  (forward, every element
		// once) or for i := len(table)-1; i >= 0; i-- (reversed). Any other start, stride or
		// bound leaves the table unordered.
		if len(idx.Edges) != 2 {
			break
		}
		for i := range idx.Edges {
			init, next := idx.Edges[i], idx.Edges[1-i]
			d, ok := step(next, idx)
			if !ok {
				continue
			}
			op, bound, ok := loopTest(idx)
			if !ok {
				continue
			}
			if n, isC := constInt(init); isC && n == 0 && d == 1 && (op == token.LSS || op == token.NEQ) && isLen(bound) {
				tc.Ordered = true
			}
			// len(table)-1 down to 0
			startsAtLast := false
			if n, isC := constInt(init); isC && n == tableLen-1 {
				startsAtLast = true
			} else if bo, ok := init.(*ssa.BinOp); ok && bo.Op == token.SUB && isLen(bo.X) {
				if one, isC := constInt(bo.Y); isC && one == 1 {
					startsAtLast = true
				}
			}
			if startsAtLast && d == -1 {
				if z, isC := constInt(bound); isC && ((op == token.GEQ && z == 0) || (op == token.GTR && z == -1)) {
					tc.Reversed = true
				}
			}
		}
	}
	return tc
}

// c09Tables finds the table calls of the module and completes the call graph with their
// edges (once per loaded program). Memoised analyses that were built on the incomplete
// graph are dropped.
func c09Tables(w *World) *c09TableInfo {
	if ti, ok := w.memo["c09tables"].(*c09TableInfo); ok {
		return ti
	}
	ti := &c09TableInfo{bySite: map[ssa.CallInstruction]*c09TableCall{}, byFn: map[*ssa.Function][]*c09TableCall{}, parent: map[*ssa.Function]*c09TableCall{}}
	w.memo["c09tables"] = ti
	cg := w.callGraph()
	added := false
	for _, fn := range w.ModFuncs {
		for _, b := range fn.Blocks {
			for _, in := range b.Instrs {
				ci, ok := in.(ssa.CallInstruction)
				if !ok {
					continue
				}
				tc := c09TableCallOf(ci)
				if tc == nil {
					continue
				}
				ti.bySite[ci] = tc
				ti.byFn[fn] = append(ti.byFn[fn], tc)
				for _, el := range tc.Elems {
					ti.parent[el] = tc
					have := false
					for _, e := range cg.callees[fn] {
						if e.Site == ci && e.Callee == el {
							have = true
						}
					}
					if !have {
						cg.callees[fn] = append(cg.callees[fn], callEdge{ci, el})
						cg.callers[el] = append(cg.callers[el], callSite{fn, ci})
						added = true
					}
				}
			}
		}
	}
	if added {
		delete(w.memo, "effects")
		delete(w.memo, "lockinfo")
	}
	return ti
}

// ---------------------------------------------------------------------------
// Variables captured by closures live in heap cells (Alloc) that the closures reach through
// FreeVars. A cell that is assigned exactly once stands for the assigned value.

// c09CellOf resolves the address x (an Alloc, or a FreeVar bound to one) to the cell.
func c09CellOf(x ssa.Value, depth int) *ssa.Alloc {
	if depth > 4 {
		return nil
	}
	switch a := x.(type) {
	case *ssa.Alloc:
		return a
	case *ssa.FreeVar:
		fn := a.Parent()
		idx := -1
		for i, f := range fn.FreeVars {
			if f == a {
				idx = i
			}
		}
		par := fn.Parent()
		if idx < 0 || par == nil {
			return nil
		}
		var cell *ssa.Alloc
		for _, b := range par.Blocks {
			for _, in := range b.Instrs {
				mc, ok := in.(*ssa.MakeClosure)
				if !ok || mc.Fn != ssa.Value(fn) || idx >= len(mc.Bindings) {
					continue
				}
				c := c09CellOf(mc.Bindings[idx], depth+1)
				if c == nil || (cell != nil && cell != c) {
					return nil
				}
				cell = c
			}
		}
		return cell
	}
	return nil
}

// c09CellStores: every value stored into the cell, by its function or by closures capturing it.
// ok is false when the cell's address escapes in another way.
func c09CellStores(al *ssa.Alloc) (vals []ssa.Value, ok bool) {
	ok = true
	var visit func(addr ssa.Value, depth int)
	visit = func(addr ssa.Value, depth int) {
		if addr.Referrers() == nil || depth > 4 {
			return
		}
		for _, r := range *addr.Referrers() {
			switch u := r.(type) {
			case *ssa.Store:
				if u.Addr == addr {
					vals = append(vals, u.Val)
				} else {
					ok = false
				}
			case *ssa.UnOp, *ssa.DebugRef:
			case *ssa.MakeClosure:
				f, isF := u.Fn.(*ssa.Function)
				if !isF {
					ok = false
					continue
				}
				for i, b := range u.Bindings {
					if b == addr && i < len(f.FreeVars) {
						visit(f.FreeVars[i], depth+1)
					}
				}
			default:
				ok = false
			}
		}
	}
	visit(al, 0)
	return
}

// c09Resolve looks through conversions and through loads of single-assignment cells.
func c09Resolve(v ssa.Value) ssa.Value {
	for i := 0; i < 8; i++ {
		v = stripConv(v)
		ld, ok := v.(*ssa.UnOp)
		if !ok || ld.Op != token.MUL {
			return v
		}
		cell := c09CellOf(ld.X, 0)
		if cell == nil {
			return v
		}
		vals, ok := c09CellStores(cell)
		if !ok || len(vals) != 1 {
			return v
		}
		v = vals[0]
	}
	return v
}

// c09DerivesFromDevicePk: v is computed from the DevicePk field of message headers (the
// sender's device key as carried by the message), looking through calls, cells and closures.
func c09DerivesFromDevicePk(v ssa.Value, depth int, seen map[ssa.Value]bool) bool {
	if v == nil || depth > 8 || seen[v] {
		return false
	}
	seen[v] = true
	v2 := c09Resolve(v)
	if v2 != v {
		return c09DerivesFromDevicePk(v2, depth+1, seen)
	}
	isHeaders := func(t types.Type) bool { return isNamed(t, pkgTypes, "MessageHeaders") }
	switch x := v.(type) {
	case *ssa.UnOp:
		return c09DerivesFromDevicePk(x.X, depth+1, seen)
	case *ssa.FieldAddr:
		if pt, ok := x.X.Type().Underlying().(*types.Pointer); ok && isHeaders(pt.Elem()) {
			return pt.Elem().Underlying().(*types.Struct).Field(x.Field).Name() == "DevicePk"
		}
	case *ssa.Field:
		if isHeaders(x.X.Type()) {
			return x.X.Type().Underlying().(*types.Struct).Field(x.Field).Name() == "DevicePk"
		}
	case *ssa.Extract:
		return c09DerivesFromDevicePk(x.Tuple, depth+1, seen)
	case *ssa.Phi:
		for _, e := range x.Edges {
			if c09DerivesFromDevicePk(e, depth+1, seen) {
				return true
			}
		}
	case *ssa.Slice:
		return c09DerivesFromDevicePk(x.X, depth+1, seen)
	case *ssa.Call:
		cc := x.Common()
		if f := staticCallee(cc); f != nil && f.Name() == "GetDevicePk" && len(cc.Args) == 1 && isHeaders(cc.Args[0].Type()) {
			return true
		}
		if cc.IsInvoke() && c09DerivesFromDevicePk(cc.Value, depth+1, seen) {
			return true
		}
		for _, a := range cc.Args {
			if c09DerivesFromDevicePk(a, depth+1, seen) {
				return true
			}
		}
	}
	return false
}

// c09SealKinds: which of the three steps of a send (read the chain key, seal, store the
// chain key) the call site can perform.
func c09SealKinds(w *World, fn *ssa.Function, s effectSite) (read, sealing, store bool) {
	read = s.has(eff("Get", nsChainKey))
	store = s.has(eff("Put", nsChainKey))
	for _, cal := range calleesAt(w, fn, s.Instr) {
		if reachesCallee(w, cal, keySBSeal) {
			sealing = true
		}
	}
	return
}

// c09SealFrames: the function(s) in which the steps of SealEnvelope are separate call sites.
// Starting at SealEnvelope: when exactly one call site carries all three steps and no other
// site carries any of them, the critical section lives behind that call (a lock helper
// running the tail of the function as a closure): continue in its callees.
func c09SealFrames(w *World, seal *ssa.Function) []*ssa.Function {
	ei := w.effects()
	var out []*ssa.Function
	seen := map[*ssa.Function]bool{}
	var visit func(fn *ssa.Function, depth int)
	visit = func(fn *ssa.Function, depth int) {
		if seen[fn] {
			return
		}
		seen[fn] = true
		var whole []effectSite
		others := 0
		for _, s := range ei.sitesIn(fn) {
			r, sl, st := c09SealKinds(w, fn, s)
			switch {
			case r && sl && st:
				whole = append(whole, s)
			case r || st:
				others++
			}
		}
		// sealing without effects (no datastore access) is not an effect site: count direct ones
		for _, e := range w.callGraph().callees[fn] {
			if _, isCall := e.Site.(*ssa.Call); isCall && len(ei.summaryOf(e.Callee)) == 0 && reachesCallee(w, e.Callee, keySBSeal) {
				others++
			}
		}
		if len(callsIn(fn, keyIs(keySBSeal))) > 0 {
			others++
		}
		if depth < 4 && len(whole) == 1 && others == 0 {
			n := 0
			for _, cal := range calleesAt(w, fn, whole[0].Instr) {
				sum := ei.summaryOf(cal)
				hasR, hasS := false, false
				for e := range sum {
					if eff("Get", nsChainKey)(e) {
						hasR = true
					}
					if eff("Put", nsChainKey)(e) {
						hasS = true
					}
				}
				if hasR && hasS && reachesCallee(w, cal, keySBSeal) {
					n++
					visit(cal, depth+1)
				}
			}
			if n > 0 {
				return
			}
		}
		out = append(out, fn)
	}
	visit(seal, 0)
	return out
}

// c09CheckSealFrame (D1) checks the steps found in frame (SealEnvelope or the function that
// holds its critical section); constructs are named after SealEnvelope.
func c09CheckSealFrame(c *Ctx, seal, frame *ssa.Function, class string) {
	w := c.W
	ei := w.effects()
	li := w.locks()
	c.analysed(frame)
	type step struct {
		name string
		site ssa.CallInstruction
	}
	var steps []step
	getChain, putPre, putChain := eff("Get", nsChainKey), eff("Put|Commit", nsPrecomputed), eff("Put", nsChainKey)
	for _, s := range ei.sitesIn(frame) {
		switch {
		case s.has(putChain):
			steps = append(steps, step{"store-chain-key", s.Instr})
		case s.has(putPre):
			steps = append(steps, step{"store-next-key", s.Instr})
		case s.has(getChain):
			steps = append(steps, step{"read-chain-key", s.Instr})
		}
	}
	for _, e := range w.callGraph().callees[frame] {
		if _, isCall := e.Site.(*ssa.Call); !isCall {
			continue
		}
		if reachesCallee(w, e.Callee, keySBSeal) {
			steps = append(steps, step{"seal", e.Site})
		}
	}
	for _, ci := range callsIn(frame, keyIs(keySBSeal, keySign)) {
		steps = append(steps, step{"seal", ci})
	}
	kinds := map[string]bool{}
	for _, st := range steps {
		kinds[st.name] = true
		held := li.heldAt(st.site.(ssa.Instruction))
		c.check(held.holds(class, 'W'), "D1", fnName(seal)+"+"+st.name, posOf(st.site),
			"step runs with "+class+" write-held", fmt.Sprintf("step %q runs without %s write-held (held: %v): two concurrent senders can read the same counter", st.name, class, held.list()))
	}
	for _, need := range []string{"read-chain-key", "seal", "store-chain-key"} {
		if !kinds[need] {
			c.fail("D1", fnName(seal)+"+"+need, frame.Pos(), "step %q not found in %s: the send path no longer reads/seals/stores under one lock", need, fnName(frame))
		}
	}
	// no release of the message mutex in anything reachable from the locked steps
	for _, st := range steps {
		for f := range w.reachableFuncs(calleesAt(w, frame, st.site), 6) {
			for _, b := range f.Blocks {
				for _, in := range b.Instrs {
					ci, ok := in.(ssa.CallInstruction)
					if !ok {
						continue
					}
					if op, ok := lockOpOf(ci); ok && op.Class == class && !op.Acquire {
						c.fail("D1", fnName(seal)+"+"+st.name+"+releases", posOf(ci), "%s releases %s while SealEnvelope relies on holding it", fnName(f), class)
					}
				}
			}
		}
	}
	// exactly: the lock is acquired before the first step and not released in SealEnvelope before the last
	for _, b := range frame.Blocks {
		for _, in := range b.Instrs {
			ci, ok := in.(ssa.CallInstruction)
			if !ok {
				continue
			}
			if op, ok := lockOpOf(ci); ok && op.Class == class && !op.Acquire && !op.Deferred {
				// a manual unlock is fine only if no step can execute after it
				for _, st := range steps {
					if instrReaches(in, st.site.(ssa.Instruction)) {
						c.fail("D1", fnName(seal)+"+early-unlock", posOf(ci), "the message mutex is released before step %q", st.name)
					}
				}
			}
		}
	}

}
