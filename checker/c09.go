package main

import (
	"fmt"
	"go/token"
	"go/types"
	"strings"

	"golang.org/x/tools/go/ssa"
)

func init() {
	register(&PropertyDef{
		ID:          "C09",
		Title:       "Concurrent sends never reuse a counter, key or nonce; chain only moves forward",
		Explanation: "Decides, for every schedule at once, the locking and arithmetic shape that makes counters unique: (D1) in SealEnvelope the read of the own chain key, the sealing (secretbox.Seal, Sign), the write of the next precomputed key and the write of the advanced chain key all happen with the secret store's message mutex write-held, acquired once before the first of them, with no release of that mutex anywhere in the code reachable from those steps; (D3) every Put on the chain-key namespace that can overwrite an existing entry is reached only on call paths holding that write lock (creation puts, dominated by the 'no chain key stored' outcome of a lookup, are exempt: they cannot overwrite); (D4) the updater of the stored chain key is monotone: evaluated abstractly over the orderings {new<stored, new=stored, new>stored} it never writes when new<stored and always writes when new>stored; (D6) the own chain key is looked up, generated on a miss and stored inside one write-locked critical section; the updater fails when it cannot read the stored key; (D5) the counter sealed into the headers and used as nonce is the stored counter + 1 and the chain key stored afterwards carries stored counter + 1 (same increment on both sides). Not decided: that every envelope opens at a receiver (C01/C02), behaviour under real parallel runs, datastore atomicity.",
		Trusted:     []string{"go/ssa (x/tools v0.29.0)", "sync.RWMutex semantics", "lock identity by owner type + field (one message mutex per secret store)"},
		Assumptions: []string{"a secret store is not shared between two datastores; the datastore's Put is atomic per key"},
		Floors:      map[string]int{"D1": 3, "D3": 3, "D4": 4, "D5": 3, "D6": 1},
		Run:         runC09,
	})
}

// messageLockClass: the lock class of the single sync.RWMutex field of the SecretStore implementation.
func messageLockClass(w *World) string {
	n := typeNamed(secretStoreImpl(w))
	if n == nil {
		return ""
	}
	st, ok := n.Underlying().(*types.Struct)
	if !ok {
		return ""
	}
	cls := ""
	for i := 0; i < st.NumFields(); i++ {
		if ft, ok := st.Field(i).Type().(*types.Named); ok && ft.Obj().Pkg() != nil && ft.Obj().Pkg().Path() == "sync" && ft.Obj().Name() == "RWMutex" {
			if cls != "" {
				return "" // ambiguous
			}
			cls = n.Obj().Name() + "." + st.Field(i).Name()
		}
	}
	return cls
}

// reachesCallee: fn (transitively, module functions only) calls a function with one of the keys.
func reachesCallee(w *World, fn *ssa.Function, keys ...string) bool {
	for f := range w.reachableFuncs([]*ssa.Function{fn}, 6) {
		if len(callsIn(f, keyIs(keys...))) > 0 {
			return true
		}
	}
	return false
}

// unlockedOnSomePath walks up the module call graph from instr and returns a call chain
// (root first) on which class/W is not held at the effect, or nil if every path holds it.
func unlockedOnSomePath(w *World, instr ssa.Instruction, class string, exempt func(ssa.Instruction) bool) []string {
	li := w.locks()
	cg := w.callGraph()
	var walk func(in ssa.Instruction, seen map[*ssa.Function]bool, chain []string) []string
	walk = func(in ssa.Instruction, seen map[*ssa.Function]bool, chain []string) []string {
		fn := in.Parent()
		here := append([]string{fnName(fn)}, chain...)
		if li.localOf(fn)[in].holds(class, 'W') {
			return nil
		}
		if exempt != nil && exempt(in) {
			return nil
		}
		if seen[fn] {
			return nil
		}
		callers := cg.callers[fn]
		isRoot := len(callers) == 0
		if obj := fn.Object(); obj != nil && obj.Exported() {
			isRoot = true
		}
		if isRoot {
			return here
		}
		seen[fn] = true
		defer delete(seen, fn)
		for _, cs := range callers {
			if _, isGo := cs.Instr.(*ssa.Go); isGo {
				return append([]string{"go " + fnName(cs.Caller)}, here...)
			}
			if bad := walk(cs.Instr.(ssa.Instruction), seen, here); bad != nil {
				return bad
			}
		}
		return nil
	}
	return walk(instr, map[*ssa.Function]bool{}, nil)
}

// creationGuarded: instr is dominated by the miss (error) outcome of a lookup on the
// chain-key namespace in the same function: the entry does not exist, nothing is overwritten.
func creationGuarded(w *World) func(ssa.Instruction) bool {
	ei := w.effects()
	return func(in ssa.Instruction) bool {
		fn := in.Parent()
		for _, s := range ei.sitesWith(fn, eff("Get", nsChainKey)) {
			v := errVerdict(s.Instr)
			if v == nil || !s.pureLookup() {
				continue
			}
			for _, e := range edgesOfVerdict(v).Reject {
				if edgeDominates(e, in.Block()) {
					return true
				}
			}
		}
		return false
	}
}

func runC09(c *Ctx) {
	w := c.W
	ei := w.effects()
	li := w.locks()
	seal := secretStoreMethod(w, "SealEnvelope")
	class := messageLockClass(w)
	if seal == nil || class == "" {
		c.undecided("D1", "SealEnvelope", token.NoPos, "SecretStore.SealEnvelope or its message mutex not found (class=%q)", class)
		return
	}
	c.analysed(seal)
	// ---- D1: one critical section in SealEnvelope
	type step struct {
		name string
		site ssa.CallInstruction
	}
	var steps []step
	getChain, putPre, putChain := eff("Get", nsChainKey), eff("Put|Commit", nsPrecomputed), eff("Put", nsChainKey)
	for _, s := range ei.sitesIn(seal) {
		switch {
		case s.has(putChain):
			steps = append(steps, step{"store-chain-key", s.Instr})
		case s.has(putPre):
			steps = append(steps, step{"store-next-key", s.Instr})
		case s.has(getChain):
			steps = append(steps, step{"read-chain-key", s.Instr})
		}
	}
	for _, e := range w.callGraph().callees[seal] {
		if _, isCall := e.Site.(*ssa.Call); !isCall {
			continue
		}
		if reachesCallee(w, e.Callee, keySBSeal) {
			steps = append(steps, step{"seal", e.Site})
		}
	}
	for _, ci := range callsIn(seal, keyIs(keySBSeal, keySign)) {
		steps = append(steps, step{"seal", ci})
	}
	kinds := map[string]bool{}
	for _, st := range steps {
		kinds[st.name] = true
		held := li.heldAt(st.site.(ssa.Instruction))
		c.check(held.holds(class, 'W'), "D1", fnName(seal)+"+"+st.name, posOf(st.site),
			"step runs with "+class+" write-held", fmt.Sprintf("step %q runs without %s write-held (held: %v): two concurrent senders can read the same counter", st.name, class, held.list()))
	}
	for _, need := range []string{"read-chain-key", "seal", "store-chain-key"} {
		if !kinds[need] {
			c.fail("D1", fnName(seal)+"+"+need, seal.Pos(), "step %q not found in SealEnvelope: the send path no longer reads/seals/stores under one lock", need)
		}
	}
	// no release of the message mutex in anything reachable from the locked steps
	for _, st := range steps {
		for f := range w.reachableFuncs(calleesAt(w, seal, st.site), 6) {
			for _, b := range f.Blocks {
				for _, in := range b.Instrs {
					ci, ok := in.(ssa.CallInstruction)
					if !ok {
						continue
					}
					if op, ok := lockOpOf(ci); ok && op.Class == class && !op.Acquire {
						c.fail("D1", fnName(seal)+"+"+st.name+"+releases", posOf(ci), "%s releases %s while SealEnvelope relies on holding it", fnName(f), class)
					}
				}
			}
		}
	}
	// exactly: the lock is acquired before the first step and not released in SealEnvelope before the last
	for _, b := range seal.Blocks {
		for _, in := range b.Instrs {
			ci, ok := in.(ssa.CallInstruction)
			if !ok {
				continue
			}
			if op, ok := lockOpOf(ci); ok && op.Class == class && !op.Acquire && !op.Deferred {
				// a manual unlock is fine only if no step can execute after it
				for _, st := range steps {
					if instrReaches(in, st.site.(ssa.Instruction)) {
						c.fail("D1", fnName(seal)+"+early-unlock", posOf(ci), "the message mutex is released before step %q", st.name)
					}
				}
			}
		}
	}

	// ---- D3: every overwriting Put[chainKey] is write-locked on all call paths
	exempt := creationGuarded(w)
	nPut := 0
	for _, fn := range w.ModFuncs {
		if fnPkg(fn).Path() != pkgSecret {
			continue
		}
		for _, s := range ei.sitesIn(fn) {
			if !s.Direct || !s.has(putChain) {
				continue
			}
			nPut++
			c.analysed(fn)
			// evaluate per caller chain so that the report names the unlocked path
			callers := w.callGraph().callers[fn]
			if len(callers) == 0 {
				bad := unlockedOnSomePath(w, s.Instr.(ssa.Instruction), class, exempt)
				c.check(bad == nil, "D3", fnName(fn)+"+Put[chainKey]", posOf(s.Instr), "write-locked on every call path", "chain key overwritten without the write lock on path "+strings.Join(bad, " -> "))
				continue
			}
			for _, cs := range callers {
				construct := fnName(cs.Caller) + "->" + fnName(fn) + "+Put[chainKey]"
				if li.localOf(fn)[s.Instr.(ssa.Instruction)].holds(class, 'W') {
					c.ok("D3", construct, posOf(s.Instr), "write lock taken locally")
					continue
				}
				bad := unlockedOnSomePath(w, cs.Instr.(ssa.Instruction), class, exempt)
				c.check(bad == nil, "D3", construct, posOf(cs.Instr), "write-locked (or creation-guarded) on every call path", "chain key can be overwritten without the write lock on path "+strings.Join(append(bad, fnName(fn)), " -> "))
			}
		}
	}
	if nPut == 0 {
		c.undecided("D3", "Put[chainKey]", token.NoPos, "no Put on the chain-key namespace found")
	}

	// ---- D4: monotone updater (shared with C02.D1)
	checkMonotoneUpdaters(c, "D4")

	// ---- D5: sealed counter = stored+1 ; stored-after = stored+1
	checkCounterIncrements(c, "D5", seal)

	// ---- D6: the own chain key is looked up, generated and stored in one write-locked section
	checkOwnKeyCreationAtomic(c, "D6", class)
}

// freshChainKeyFuncs: module functions that build a DeviceChainKey from crypto/rand.
func freshChainKeyFuncs(w *World) map[*ssa.Function]bool {
	out := map[*ssa.Function]bool{}
	dck := namedType(w, pkgTypes, "DeviceChainKey")
	for _, fn := range w.ModFuncs {
		if fnPkg(fn).Path() != pkgSecret || fn.Signature.Results().Len() == 0 {
			continue
		}
		pt, ok := fn.Signature.Results().At(0).Type().(*types.Pointer)
		if !ok || dck == nil || !types.Identical(pt.Elem(), dck) {
			continue
		}
		if len(callsIn(fn, keyIs("crypto/rand.Read", "io.ReadFull"))) > 0 {
			out[fn] = true
		}
	}
	return out
}

// checkOwnKeyCreationAtomic: in every function that generates a fresh chain key when the
// lookup of the stored one misses, the lookup, the generation and the store all run with the
// message mutex write-held, with no release between the lookup and the store. Otherwise two
// first uses race: both miss, the loser's store is ignored by the register-once guard, and
// it hands out (and announces) a chain key that was never stored.
func checkOwnKeyCreationAtomic(c *Ctx, rule, class string) {
	w := c.W
	ei := w.effects()
	li := w.locks()
	fresh := freshChainKeyFuncs(w)
	n := 0
	for _, fn := range w.ModFuncs {
		if fnPkg(fn).Path() != pkgSecret {
			continue
		}
		var gen []ssa.CallInstruction
		for _, e := range w.callGraph().callees[fn] {
			if fresh[e.Callee] {
				gen = append(gen, e.Site)
			}
		}
		if len(gen) == 0 {
			continue
		}
		n++
		c.analysed(fn)
		construct := fnName(fn) + "+get-or-create"
		var lookups, stores []effectSite
		for _, s := range ei.sitesIn(fn) {
			if s.has(eff("Get", nsChainKey)) && s.pureLookup() {
				lookups = append(lookups, s)
			}
			if s.has(eff("Put", nsChainKey)) {
				stores = append(stores, s)
			}
		}
		if len(lookups) == 0 || len(stores) == 0 {
			c.fail(rule, construct, fn.Pos(), "a fresh chain key is generated without a lookup of the stored one and a store in the same function: get-or-create is not atomic")
			continue
		}
		bad := ""
		for _, s := range append(append([]effectSite{}, lookups...), stores...) {
			if !li.heldAt(s.Instr.(ssa.Instruction)).holds(class, 'W') {
				bad = fmt.Sprintf("%s at %s runs without %s write-held", s.Effects[0], c.pos(posOf(s.Instr)), class)
			}
		}
		for _, g := range gen {
			if !li.heldAt(g.(ssa.Instruction)).holds(class, 'W') {
				bad = fmt.Sprintf("the key is generated at %s without %s write-held", c.pos(posOf(g)), class)
			}
		}
		// no release between a lookup and a store
		for _, b := range fn.Blocks {
			for _, in := range b.Instrs {
				ci, ok := in.(ssa.CallInstruction)
				if !ok {
					continue
				}
				op, ok := lockOpOf(ci)
				if !ok || op.Class != class || op.Acquire || op.Deferred {
					continue
				}
				for _, l := range lookups {
					for _, st := range stores {
						if instrReaches(l.Instr.(ssa.Instruction), in) && instrReaches(in, st.Instr.(ssa.Instruction)) {
							bad = fmt.Sprintf("%s is released at %s between the lookup and the store", class, c.pos(posOf(ci)))
						}
					}
				}
			}
		}
		c.check(bad == "", rule, construct, fn.Pos(), "lookup, generation and store of the own chain key share one write-locked section", "own chain key get-or-create is not atomic: "+bad+" (two first uses can both miss; the loser announces a key that was never stored)")
	}
	if n == 0 {
		c.undecided(rule, "get-or-create", token.NoPos, "no function generating a fresh chain key found")
	}
}

// calleesAt returns the module callees of call site in fn.
func calleesAt(w *World, fn *ssa.Function, site ssa.CallInstruction) []*ssa.Function {
	var out []*ssa.Function
	for _, e := range w.callGraph().callees[fn] {
		if e.Site == site {
			out = append(out, e.Callee)
		}
	}
	return out
}

// ---------------------------------------------------------------------------
// monotone updater (A10 over the ordering of (new.Counter, stored.Counter))

// chainKeyUpdaters: functions that contain a Put[chainKey] site (direct, or through a callee
// that is a pure putter) not guarded by the creation guard, together with a lookup of the
// stored chain key. These are the functions that can move a stored chain key.
func chainKeyUpdaters(w *World) []*ssa.Function {
	ei := w.effects()
	exempt := creationGuarded(w)
	var out []*ssa.Function
	for _, fn := range w.ModFuncs {
		if fnPkg(fn).Path() != pkgSecret {
			continue
		}
		gets := ei.sitesWith(fn, eff("Get", nsChainKey))
		if len(gets) == 0 {
			continue
		}
		isUpd := false
		for _, s := range ei.sitesWith(fn, eff("Put", nsChainKey)) {
			// only sites that perform nothing but the put (direct, or a pure putter callee)
			pure := s.Direct
			if !s.Direct && s.Callee != nil {
				sum := ei.summaryOf(s.Callee)
				pure = len(sum) == 1
			}
			if pure && !exempt(s.Instr.(ssa.Instruction)) {
				isUpd = true
			}
		}
		if isUpd {
			out = append(out, fn)
		}
	}
	return out
}

func checkMonotoneUpdaters(c *Ctx, rule string) {
	w := c.W
	ei := w.effects()
	ups := chainKeyUpdaters(w)
	if len(ups) == 0 {
		c.undecided(rule, "chain-key updater", token.NoPos, "no function that overwrites a stored chain key was found")
		return
	}
	dck := namedType(w, pkgTypes, "DeviceChainKey")
	for _, fn := range ups {
		c.analysed(fn)
		// the candidate chain key is the *DeviceChainKey parameter
		cand := -1
		for i, p := range fn.Params {
			if pt, ok := p.Type().(*types.Pointer); ok && dck != nil && types.Identical(pt.Elem(), dck) {
				cand = i
			}
		}
		if cand < 0 {
			c.undecided(rule, fnName(fn), fn.Pos(), "updater has no *DeviceChainKey parameter: cannot identify the candidate value")
			continue
		}
		for _, sc := range []struct {
			name       string
			newC, oldC int64
			wantPut    string // never | always | any
		}{{"new<stored", 5, 9, "never"}, {"new=stored", 7, 7, "any"}, {"new>stored", 9, 5, "always"}, {"lookup-fails", 9, 5, "error"}} {
			ev := &Evaluator{W: w}
			storedTag := "STORED"
			ev.Cfg = EvalConfig{
				MaxDepth: 2,
				Inline:   func(f *ssa.Function) bool { return false },
				Field: func(path string, t types.Type) (AVal, bool) {
					if strings.HasSuffix(path, ".Counter") {
						if strings.HasPrefix(path, storedTag) {
							return aConst{V: constInt64(sc.oldC), T: t}, true
						}
						if strings.HasPrefix(path, fn.Params[cand].Name()+".") {
							return aConst{V: constInt64(sc.newC), T: t}, true
						}
					}
					return nil, false
				},
				Call: func(e *Evaluator, st *pstate, key string, cc *ssa.CallCommon, args []AVal) ([]AVal, bool) {
					// a lookup of the stored chain key returns the symbolic stored object and no error
					if f := staticCallee(cc); f != nil && inModule(f) && f.Signature.Results().Len() == 2 {
						if pt, ok := f.Signature.Results().At(0).Type().(*types.Pointer); ok && dck != nil && types.Identical(pt.Elem(), dck) {
							for e2 := range ei.summaryOf(f) {
								if eff("Get", nsChainKey)(e2) {
									if sc.wantPut == "error" {
										// the read of the stored chain key fails
										return []AVal{aNil{}, aNonNil{Tag: "error"}}, true
									}
									o := e.newObj(st, storedTag)
									return []AVal{aPtr{ID: o.ID, Sym: true}, aNil{}}, true
								}
							}
						}
					}
					// GetCounter getters
					if f := staticCallee(cc); f != nil && f.Name() == "GetCounter" && len(args) == 1 {
						if p, ok := args[0].(aPtr); ok {
							return []AVal{e.load(st, aPtr{ID: p.ID, Sym: p.Sym, Path: p.Path + ".Counter"}, types.Typ[types.Uint64])}, true
						}
					}
					return nil, false
				},
				Interesting: func(key string, cc *ssa.CallCommon) bool {
					// any call that performs the Put: direct datastore put or the pure putter
					if cc.IsInvoke() {
						return cc.Method.Name() == "Put" && strings.HasPrefix(key, "("+pkgDatastore)
					}
					if f := staticCallee(cc); f != nil && inModule(f) {
						for e2 := range ei.summaryOf(f) {
							if eff("Put", nsChainKey)(e2) {
								return true
							}
						}
					}
					return false
				},
			}
			outs := ev.Eval(fn, ev.SymbolicArgs(fn))
			succ, succWithPut, trunc := 0, 0, 0
			for _, o := range outs {
				if o.Kind == "truncated" {
					trunc++
					continue
				}
				if o.Kind != "return" {
					continue
				}
				// success outcome: error result is nil or unknown
				idx := errResultIndex(fn.Signature)
				if idx >= 0 && idx < len(o.Results) {
					if isDefNonNil(o.Results[idx]) {
						continue
					}
				}
				succ++
				if len(o.Trace) > 0 {
					succWithPut++
				}
			}
			construct := fnName(fn) + "+" + sc.name
			switch {
			case trunc > 0:
				c.undecided(rule, construct, fn.Pos(), "abstract evaluation truncated (loop in the updater): cannot decide monotonicity")
			case sc.wantPut == "error":
				c.check(succ == 0, rule, construct, fn.Pos(), "a failed read of the stored chain key fails the update", fmt.Sprintf("when the stored chain key cannot be read the updater reports success on %d path(s) without having stored the new key: the envelope already sealed is handed out and its counter is reused", succ))
			case sc.wantPut == "never":
				c.check(succWithPut == 0, rule, construct, fn.Pos(), "no write when the candidate counter is lower than the stored one", "the stored chain key can be overwritten by one with a LOWER counter (rewind)")
			case sc.wantPut == "always":
				c.check(succ > 0 && succWithPut == succ, rule, construct, fn.Pos(), "a higher counter is always stored", fmt.Sprintf("a candidate with a HIGHER counter is not stored on %d of %d success paths: the chain does not advance", succ-succWithPut, succ))
			default:
				c.ok(rule, construct, fn.Pos(), "equal counters: either outcome is acceptable (%d/%d paths write)", succWithPut, succ)
			}
		}
	}
}

// ---------------------------------------------------------------------------
// counter increments on the seal side and on the derive side

// isPlusOneOfCounter: v == load(X.Counter) + 1 for some DeviceChainKey X.
func isPlusOneOfCounter(v ssa.Value) bool {
	v = stripConv(v)
	bo, ok := v.(*ssa.BinOp)
	if !ok || bo.Op != token.ADD {
		return false
	}
	one := func(x ssa.Value) bool { n, ok := constInt(x); return ok && n == 1 }
	return (isChainCounterLoad(bo.X) && one(bo.Y)) || (isChainCounterLoad(bo.Y) && one(bo.X))
}

func checkCounterIncrements(c *Ctx, rule string, seal *ssa.Function) {
	w := c.W
	scope := w.reachableFuncs([]*ssa.Function{seal}, 6)
	nHdr, nNonce, nStore := 0, 0, 0
	for _, fn := range sortedFuncs(scope) {
		if fnPkg(fn).Path() != pkgSecret {
			continue
		}
		for _, b := range fn.Blocks {
			for _, in := range b.Instrs {
				switch x := in.(type) {
				case *ssa.Store:
					fa, ok := x.Addr.(*ssa.FieldAddr)
					if !ok {
						continue
					}
					pt, ok := fa.X.Type().Underlying().(*types.Pointer)
					if !ok {
						continue
					}
					fname := pt.Elem().Underlying().(*types.Struct).Field(fa.Field).Name()
					if fname != "Counter" {
						continue
					}
					switch {
					case isNamed(pt.Elem(), pkgTypes, "MessageHeaders"):
						nHdr++
						c.analysed(fn)
						c.check(isPlusOneOfCounter(x.Val), rule, fnName(fn)+"+headers.Counter", x.Pos(), "sealed counter is the stored counter + 1", "the counter written into the message headers is not the stored chain-key counter + 1")
					case isNamed(pt.Elem(), pkgTypes, "DeviceChainKey"):
						// only the derive step (the function that also computes the next message key)
						if len(callsIn(fn, func(k string, _ *ssa.CallCommon) bool { return strings.Contains(k, "hkdf.") })) == 0 && !reachesCalleeDirect(w, fn, "golang.org/x/crypto/hkdf.Expand") {
							continue
						}
						if _, isConst := x.Val.(*ssa.Const); isConst {
							continue // creation of a fresh chain key
						}
						if ph, isPhi := x.Val.(*ssa.Phi); isPhi {
							_ = ph
							continue // loop-carried counter of the window precomputation (C02.D3)
						}
						nStore++
						c.analysed(fn)
						c.check(isPlusOneOfCounter(x.Val), rule, fnName(fn)+"+next.Counter", x.Pos(), "derived chain key carries stored counter + 1", "the derived chain key does not carry the stored counter + 1: counters repeat or skip")
					}
				case *ssa.Call:
					// nonce constructor: module function (uint64) -> *[24]byte
					f := staticCallee(x.Common())
					if f == nil || !inModule(f) || len(x.Common().Args) != 1 || f.Signature.Results().Len() != 1 || f.Signature.Recv() != nil || f.Signature.Params().Len() != 1 {
						continue
					}
					if b, ok := f.Signature.Params().At(0).Type().Underlying().(*types.Basic); !ok || b.Kind() != types.Uint64 {
						continue
					}
					if !isNonceArrayPtr(f.Signature.Results().At(0).Type()) {
						continue
					}
					// only on the sealing side (the function that calls secretbox.Seal)
					if len(callsIn(fn, keyIs(keySBSeal))) == 0 {
						continue
					}
					nNonce++
					c.analysed(fn)
					c.check(isPlusOneOfCounter(x.Common().Args[0]), rule, fnName(fn)+"+nonce", x.Pos(), "payload nonce is the stored counter + 1", "the payload nonce is not derived from the stored counter + 1")
				}
			}
		}
	}
	if nHdr == 0 {
		c.undecided(rule, "headers.Counter", seal.Pos(), "no store to MessageHeaders.Counter found on the seal path")
	}
	if nStore == 0 {
		c.undecided(rule, "next.Counter", seal.Pos(), "no derived DeviceChainKey.Counter store found on the seal path")
	}
	c.count("nonce_sites", nNonce)
}

func reachesCalleeDirect(w *World, fn *ssa.Function, key string) bool {
	for _, e := range w.callGraph().callees[fn] {
		if len(callsIn(e.Callee, keyIs(key))) > 0 {
			return true
		}
	}
	return false
}

func isNonceArrayPtr(t types.Type) bool {
	p, ok := t.Underlying().(*types.Pointer)
	if !ok {
		return false
	}
	a, ok := p.Elem().Underlying().(*types.Array)
	return ok && a.Len() == 24
}
