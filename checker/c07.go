package main

// C07 — contacts follow the documented lifecycle; illegal transitions are refused.
//
// Everything here is decided by finite-domain abstract evaluation (A10) of the type-checked
// SSA: the seven exported contact operations of MetadataStore are evaluated once per contact
// state (the state reader is answered by an oracle), the index handlers registered for the
// seven contact event types are evaluated on an index where the subject is absent and on one
// where it exists, and CheckFormat is evaluated over seed length x key x options. The tables
// so extracted are compared with DESIGN.md appendix A. No weshnet code is executed.
//
// The shared evaluator (absint.go) does not model maps; the index handlers cannot be
// evaluated without them. c07Interp below re-uses the shared evaluator for every instruction
// except map lookup / map update / make-map / []byte->string conversion, for which it keeps
// abstract maps in the path heap.

import (
	"fmt"
	"go/constant"
	"go/token"
	"go/types"
	"sort"
	"strings"

	"golang.org/x/tools/go/ssa"
)

func init() {
	register(&PropertyDef{
		ID:    "C07",
		Title: "Contacts follow the documented lifecycle; illegal transitions are refused",
		Explanation: "Decided by abstract evaluation of the SSA of /repo over finite domains, compared with the reference tables of DESIGN.md appendix A (kept in the checker by exported enum constant names). " +
			"(D1) guard table: each of the seven exported MetadataStore contact operations is evaluated for each of the seven ContactState values (the function that returns the ContactState of a key is answered by an oracle; the account group, a well-formed contact and a foreign key are assumed; delegation enqueue/receive -> mark-sent is evaluated by inlining with the same state). A cell is 'refused' when no path seals an event or reaches the log append (basestore AddOperation) and every return carries a non-nil error; it is 'appends E' when a path reaches the append with the constant event type E, no path seals another type or appends twice, and no path returns a possibly-nil error without having sealed or appended anything. The 7x7 table must equal A.1, and the state must be read for the key of the contact operated on. Guards expressed as data are followed: struct values, and package-level maps of the store package initialised with a literal with constant keys that nothing else writes (no other store to the variable, no map update / delete on a map of that type outside the initialiser), including the miss path of a comma-ok lookup. " +
			"(D2) preconditions: on any other group type; with the account's own key (enqueue, receive, block; state Undefined, the only state an own key can have); with a short, long or missing seed, a missing key or a key that does not parse (enqueue, receive; a missing seed is legal for receive only, which must then follow the same table) nothing is sealed or appended and no nil error is returned, in every state; the seven contact event types are handed to functions taking an event type only inside the seven operations (no unguarded entry point). " +
			"(D3) event->state table: the single handler registered in the index for each contact event type is evaluated with abstract maps (the maps of the index struct, also those promoted from embedded / nested structs). On an index without the subject it stores, under the event's contact key, in the map the state reader reads, a new record whose state is the constant of A.2 and whose key/seed/metadata are the event's (nil where the event carries none), on EVERY returning path of a well-formed event (right message type, sub-messages present, 32-byte key) whether or not a secondary step (group look-up, by-group registration) fails, and does not delete it again; on an index where the subject exists (4 combinations of nil/non-nil Metadata and PublicRendezvousSeed) it inserts nothing never deletes from that map (delete(...) leaves a tombstone in the abstract map; entries are only dropped by the reset at the start of a re-index) and leaves state, key, seed and metadata unchanged, except that the enqueued/received handlers fill Metadata and PublicRendezvousSeed from the event when, and only when, they are nil. " +
			"(D4) ShareableContact.CheckFormat decision table over seed length {0,31,32,33} x key {missing, valid, unparsable} x the four option sets equals A.3. " +
			"(D7) the loop of the index's UpdateIndex that hands the log entries to the event handlers (handlers = dynamic calls of a function whose type has the underlying signature of the handler table's elements, in the loop, in a function called from it, or in a closure handed to an iterator: for a range-over-func / visitor body every return must be `true`, i.e. continue) is left only at the end of the sequence (an exit decided by the loop's own counters/bounds or a range iterator) or towards returns of a non-nil error: a break / return nil / goto out of the per-entry body makes the state depend on a prefix of the scan (this is a necessary condition of C04 too and is phrased on the index type only, so C04 can borrow C07.D7). " +
			"(D8) at every call of one of the seven operations (RPC handlers of the service, the contact-request protocol, delegations inside the store) the caller has an error result and fails whenever the operation fails: the operation's error verdict is tested and its failing side reaches only returns of a non-nil error, or the verdict is returned (also through a named result cell that is only overwritten by non-nil errors); a shadowed variable that is not the one returned does not count. " +
			"(D5) the event appended by each operation carries the contact's key (and for enqueue/receive the contact's seed and metadata, for enqueue the caller's own metadata) in the right fields. " +
			"(D6) the function that reads the current state of a key answers Undefined for a key the index has no record for (and for a nil key) and the stored state otherwise. " +
			"Not decided: that the index visits log entries newest-first and in a replica-independent order and is reset before each replay (C04), hence the 'any replica that replays its log' clause; error codes beyond error/no error; the listing accessors (ListContacts, ListContactsByStatus, GetContactFromGroupPK) and the by-group registration of a contact; the remembered own metadata; absence of panics on nil keys (C19); signature and sealing of the appended event (C03); races between two concurrent operations. The enqueue of a blocked contact re-opens the request (appendix A.1 note 2) and is recorded as the reference behaviour.",
		Trusted:     []string{"golang.org/x/tools go/packages+go/ssa (v0.29.0)", "go/types", "go-orbit-db basestore.AddOperation is the only way to append to the log", "libp2p crypto.PubKey.Equals / Raw / UnmarshalEd25519PublicKey semantics", "slices.Contains, bytes.Equal semantics", "crypto.UnmarshalEd25519PublicKey accepts every 32-byte string (no curve check)"},
		Assumptions: []string{"events about a contact are appended only by the devices of the account through these operations, so the account's own key is never a contact (its state is Undefined)", "the index applies the handlers newest event first (C04)"},
		Floors:      map[string]int{"D1": 49, "D2": 27, "D3": 14, "D4": 48, "D5": 7, "D6": 3, "D7": 1, "D8": 9},
		Run:         runC07,
	})
}

// ---------------------------------------------------------------------------
// reference tables (DESIGN.md appendix A), by exported enum constant names (T3)

var c07States = []string{"Undefined", "ToRequest", "Received", "Added", "Removed", "Discarded", "Blocked"}

const (
	c07Enq  = "OutgoingEnqueued"
	c07Sent = "OutgoingSent"
	c07Recv = "IncomingReceived"
	c07Disc = "IncomingDiscarded"
	c07Acc  = "IncomingAccepted"
	c07Blk  = "Blocked"
	c07Unb  = "Unblocked"
)

// event short name -> EventType constant suffix
var c07EventConst = map[string]string{
	c07Enq: "EventType_EventTypeAccountContactRequestOutgoingEnqueued", c07Sent: "EventType_EventTypeAccountContactRequestOutgoingSent",
	c07Recv: "EventType_EventTypeAccountContactRequestIncomingReceived", c07Disc: "EventType_EventTypeAccountContactRequestIncomingDiscarded",
	c07Acc: "EventType_EventTypeAccountContactRequestIncomingAccepted", c07Blk: "EventType_EventTypeAccountContactBlocked",
	c07Unb: "EventType_EventTypeAccountContactUnblocked",
}

var c07EventOrder = []string{c07Enq, c07Sent, c07Recv, c07Disc, c07Acc, c07Blk, c07Unb}

// A.2: newest event -> state
var c07EventState = map[string]string{c07Enq: "ToRequest", c07Sent: "Added", c07Recv: "Received", c07Disc: "Discarded", c07Acc: "Added", c07Blk: "Blocked", c07Unb: "Removed"}

type c07OpRef struct {
	Short, Method string
	// A.1 row: appended event per state in the order of c07States ("" = refused)
	Row        [7]string
	SelfCheck  bool // refuses the account's own key
	TakesShare bool // takes a shareable contact (format checked)
	SeedOpt    bool // a missing seed is legal
}

var c07Ops = []c07OpRef{
	{Short: "enqueue", Method: "ContactRequestOutgoingEnqueue", Row: [7]string{c07Enq, c07Enq, c07Sent, "", c07Sent, c07Sent, c07Enq}, SelfCheck: true, TakesShare: true},
	{Short: "mark sent", Method: "ContactRequestOutgoingSent", Row: [7]string{"", c07Sent, c07Sent, "", c07Sent, c07Sent, ""}},
	{Short: "incoming received", Method: "ContactRequestIncomingReceived", Row: [7]string{c07Recv, c07Sent, "", "", c07Recv, c07Recv, ""}, SelfCheck: true, TakesShare: true, SeedOpt: true},
	{Short: "discard", Method: "ContactRequestIncomingDiscard", Row: [7]string{"", "", c07Disc, "", "", "", ""}},
	{Short: "accept", Method: "ContactRequestIncomingAccept", Row: [7]string{"", "", c07Acc, "", "", "", ""}},
	{Short: "block", Method: "ContactBlock", Row: [7]string{c07Blk, c07Blk, c07Blk, c07Blk, c07Blk, c07Blk, ""}, SelfCheck: true},
	{Short: "unblock", Method: "ContactUnblock", Row: [7]string{"", "", "", "", "", "", c07Unb}},
}

const (
	c07PkgCrypto = "github.com/libp2p/go-libp2p/core/crypto"
	c07OwnTag    = "own account key"
)

// ---------------------------------------------------------------------------
// small helpers

func c07IsByteSlice(t types.Type) bool {
	s, ok := t.Underlying().(*types.Slice)
	if !ok {
		return false
	}
	b, ok := s.Elem().Underlying().(*types.Basic)
	return ok && b.Kind() == types.Byte
}

func c07DefNonNil(v AVal) bool {
	switch v.(type) {
	case aNonNil, aPtr, aFunc, aIface:
		return true
	}
	return false
}

func c07IsCryptoKey(t types.Type) bool {
	n, ok := types.Unalias(t).(*types.Named)
	if !ok || n.Obj().Pkg() == nil || n.Obj().Pkg().Path() != c07PkgCrypto {
		return false
	}
	switch n.Obj().Name() {
	case "PubKey", "Key", "PrivKey":
		return true
	}
	return false
}

// c07IsKeyParser: library function ([]byte) -> (crypto.PubKey, error).
func c07IsKeyParser(cc *ssa.CallCommon) bool {
	f := staticCallee(cc)
	if f == nil || inModule(f) {
		return false
	}
	sig := cc.Signature()
	if sig.Params().Len() != 1 || sig.Results().Len() != 2 || !c07IsByteSlice(sig.Params().At(0).Type()) || !isErrorType(sig.Results().At(1).Type()) {
		return false
	}
	return c07IsCryptoKey(sig.Results().At(0).Type())
}

func c07Const(w *World, pkg, name string) *types.Const {
	p := w.typesPkg(pkg)
	if p == nil {
		return nil
	}
	k, _ := p.Scope().Lookup(name).(*types.Const)
	return k
}

func c07ConstVal(k *types.Const) int64 {
	v, _ := constant.Int64Val(k.Val())
	return v
}

func c07MkInt(v int64, t types.Type) AVal { return aConst{V: constant.MakeInt64(v), T: t} }
func c07MkBool(b bool) AVal               { return aConst{V: constant.MakeBool(b), T: types.Typ[types.Bool]} }

// c07Ident: the identity string of a symbolic byte string / key ("" when unknown).
func c07Ident(v AVal) string {
	switch x := v.(type) {
	case aSym:
		return x.Path
	case aSlice:
		return x.Path
	case aNonNil:
		return x.Tag
	case aNil:
		return "nil"
	case aConst:
		return x.V.String()
	}
	return ""
}

// abstract keys: a parsed key is tagged pub(<bytes identity>); its raw form is the bytes again.
func c07RawOf(tag string) string {
	if strings.HasPrefix(tag, "pub(") && strings.HasSuffix(tag, ")") {
		return tag[4 : len(tag)-1]
	}
	return "raw(" + tag + ")"
}

func c07ParseOf(id string) string {
	if strings.HasPrefix(id, "raw(") && strings.HasSuffix(id, ")") {
		return id[4 : len(id)-1]
	}
	return "pub(" + id + ")"
}

func c07HasParamOfType(sig *types.Signature, t types.Type) bool {
	for i := 0; i < sig.Params().Len(); i++ {
		if types.Identical(sig.Params().At(i).Type(), t) {
			return true
		}
	}
	return false
}

func c07IsAppendKey(key string) bool {
	return strings.HasSuffix(key, ").AddOperation") && strings.Contains(key, "berty.tech/go-orbit-db/")
}

// ---------------------------------------------------------------------------
// interpreter: the shared evaluator plus abstract maps

// c07Map is an abstract map value; its entries live in heap object ID under slots "k:<key>";
// slot "#default" holds the value every other key maps to (c07Absent = no entry); a missing
// "#default" means unknown content; slot "#weak" marks an update with an unknown key.
type c07Map struct{ ID int }
type c07Absent struct{}

// c07Struct is an (immutable) struct value: field path (".err", ".inner.x") -> value; a field
// that is not listed has its zero value.
type c07Struct struct{ F map[string]AVal }

func c07ZeroOf(t types.Type) AVal {
	if _, ok := t.Underlying().(*types.Struct); ok {
		return c07Struct{F: map[string]AVal{}}
	}
	return zeroOf(t)
}

type c07Interp struct {
	ev *Evaluator
}

func c07MapKey(v AVal) string {
	switch x := v.(type) {
	case aSym:
		return "s:" + x.Path
	case aSlice:
		if x.Path != "" {
			return "s:" + x.Path
		}
	case aConst:
		return "c:" + x.V.ExactString()
	}
	return ""
}

func (x *c07Interp) newMap(st *pstate, def AVal) c07Map {
	o := x.ev.newObj(st, "")
	if def != nil {
		o.Slots["#default"] = def
	}
	return c07Map{ID: o.ID}
}

// Eval evaluates fn on args starting from the prepared initial state (ev.st0).
func (x *c07Interp) Eval(fn *ssa.Function, args []AVal) []Outcome {
	ev := x.ev
	if ev.Cfg.MaxDepth == 0 {
		ev.Cfg.MaxDepth = 12
	}
	if ev.Cfg.MaxPaths == 0 {
		ev.Cfg.MaxPaths = 20000
	}
	if ev.Cfg.MaxVisits == 0 {
		ev.Cfg.MaxVisits = 12
	}
	ev.paths = 0
	var outs []Outcome
	st0 := ev.st0
	if st0 == nil {
		st0 = &pstate{heap: map[int]*aObj{}}
	}
	ev.st0 = nil
	x.call(fn, args, nil, 0, st0, func(res []AVal, st *pstate, kind, why string) {
		outs = append(outs, Outcome{Kind: kind, Results: res, Trace: append([]Event(nil), st.trace...), Why: why, Heap: clonePState(st).heap})
	})
	return outs
}

func (x *c07Interp) call(fn *ssa.Function, args []AVal, bind []AVal, depth int, st *pstate, k contFn) {
	fr := &frame{fn: fn, vals: map[ssa.Value]AVal{}, visits: map[*ssa.BasicBlock]int{}, depth: depth}
	for i, p := range fn.Params {
		if i < len(args) {
			fr.vals[p] = args[i]
		}
	}
	for i, fv := range fn.FreeVars {
		if i < len(bind) {
			fr.vals[fv] = bind[i]
		}
	}
	if len(fn.Blocks) == 0 {
		k(topResults(fn.Signature), st, "return", "")
		return
	}
	x.runBlock(fr, fn.Blocks[0], nil, 0, st, k)
}

func (x *c07Interp) runBlock(fr *frame, b *ssa.BasicBlock, pred *ssa.BasicBlock, start int, st *pstate, k contFn) {
	ev := x.ev
	for {
		if start == 0 {
			fr.visits[b]++
			if fr.visits[b] > ev.Cfg.MaxVisits {
				ev.trunc = true
				k(nil, st, "truncated", "loop budget exceeded in "+fnName(fr.fn))
				return
			}
			ev.paths++
			if ev.paths > ev.Cfg.MaxPaths*50 {
				ev.trunc = true
				k(nil, st, "truncated", "step budget exceeded")
				return
			}
		}
		for i := start; i < len(b.Instrs); i++ {
			in := b.Instrs[i]
			switch v := in.(type) {
			case *ssa.Phi:
				var av AVal
				for pi, p := range b.Preds {
					if p == pred {
						av = ev.val(fr, v.Edges[pi])
						break
					}
				}
				fr.vals[v] = av
			case *ssa.If:
				c := ev.val(fr, v.Cond)
				if cb, ok := c.(aConst); ok && cb.V.Kind() == constant.Bool {
					nb := b.Succs[1]
					if constant.BoolVal(cb.V) {
						nb = b.Succs[0]
					}
					pred, b, start = b, nb, 0
					goto nextBlock
				}
				fr2 := cloneFrame(fr)
				st2 := clonePState(st)
				ev.assume(fr, v.Cond, true)
				x.runBlock(fr, b.Succs[0], b, 0, st, k)
				ev.assume(fr2, v.Cond, false)
				x.runBlock(fr2, b.Succs[1], b, 0, st2, k)
				return
			case *ssa.Jump:
				pred, b, start = b, b.Succs[0], 0
				goto nextBlock
			case *ssa.Return:
				res := make([]AVal, len(v.Results))
				for ri, r := range v.Results {
					res[ri] = ev.val(fr, r)
				}
				k(res, st, "return", "")
				return
			case *ssa.Panic:
				k(nil, st, "panic", "explicit panic in "+fnName(fr.fn))
				return
			case *ssa.Call:
				x.doCall(fr, v, b, i, st, k)
				return
			case *ssa.Go:
				ev.record(fr, v, "go", st)
			case *ssa.Defer:
				ev.record(fr, v, "defer", st)
			case *ssa.Store:
				val := ev.val(fr, v.Val)
				if sv, ok := val.(c07Struct); ok {
					// a struct value written to memory: one slot per field
					if p, ok := ev.val(fr, v.Addr).(aPtr); ok && p.ID != -1 {
						if o := st.heap[p.ID]; o != nil {
							for slot := range o.Slots {
								if strings.HasPrefix(slot, p.Path+".") {
									delete(o.Slots, slot)
								}
							}
							for f, fv := range sv.F {
								o.Slots[p.Path+f] = fv
							}
						}
					}
					break
				}
				ev.store(fr, st, v.Addr, val)
			case *ssa.MapUpdate:
				if mv, ok := ev.val(fr, v.Map).(c07Map); ok {
					if o := st.heap[mv.ID]; o != nil {
						if key := c07MapKey(ev.val(fr, v.Key)); key != "" {
							o.Slots["k:"+key] = ev.val(fr, v.Value)
						} else {
							o.Slots["#weak"] = c07MkBool(true)
						}
					}
				}
			case *ssa.Select:
				fr.vals[v] = nil
			case *ssa.RunDefers, *ssa.DebugRef, *ssa.Send:
			default:
				if val, ok := in.(ssa.Value); ok {
					fr.vals[val] = x.evalInstr(fr, st, val)
				}
			}
		}
		k(nil, st, "truncated", "block without terminator")
		return
	nextBlock:
	}
}

func (x *c07Interp) evalInstr(fr *frame, st *pstate, v ssa.Value) AVal {
	ev := x.ev
	switch in := v.(type) {
	case *ssa.MakeMap:
		return x.newMap(st, c07Absent{})
	case *ssa.UnOp:
		// load of a whole struct from non-symbolic memory
		if in.Op == token.MUL {
			if _, isStruct := in.Type().Underlying().(*types.Struct); isStruct {
				if p, ok := ev.val(fr, in.X).(aPtr); ok && p.ID != -1 {
					if o := st.heap[p.ID]; o != nil && o.Sym == "" {
						sv := c07Struct{F: map[string]AVal{}}
						for slot, fv := range o.Slots {
							if strings.HasPrefix(slot, p.Path+".") {
								sv.F[strings.TrimPrefix(slot, p.Path)] = fv
							}
						}
						return sv
					}
				}
			}
		}
	case *ssa.Field:
		if sv, ok := ev.val(fr, in.X).(c07Struct); ok {
			stt := in.X.Type().Underlying().(*types.Struct)
			name := "." + stt.Field(in.Field).Name()
			if _, nested := in.Type().Underlying().(*types.Struct); nested {
				sub := c07Struct{F: map[string]AVal{}}
				for f, fv := range sv.F {
					if strings.HasPrefix(f, name+".") {
						sub.F[strings.TrimPrefix(f, name)] = fv
					}
				}
				return sub
			}
			if fv, has := sv.F[name]; has {
				return fv
			}
			return zeroOf(in.Type())
		}
	case *ssa.Convert:
		// string(b) / []byte(s) keep the identity of a symbolic byte string
		src := ev.val(fr, in.X)
		if bt, ok := in.Type().Underlying().(*types.Basic); ok && bt.Info()&types.IsString != 0 || c07IsByteSlice(in.Type()) {
			switch s := src.(type) {
			case aSym:
				return s
			case aSlice:
				if s.Path != "" {
					return aSym{Path: s.Path}
				}
			}
		}
	case *ssa.Lookup:
		mt, isMap := in.X.Type().Underlying().(*types.Map)
		if !isMap {
			break
		}
		mv, ok := ev.val(fr, in.X).(c07Map)
		if !ok {
			break
		}
		o := st.heap[mv.ID]
		if o == nil {
			break
		}
		var val, present AVal
		known := false
		if _, weak := o.Slots["#weak"]; !weak {
			if key := c07MapKey(ev.val(fr, in.Index)); key != "" {
				if e, has := o.Slots["k:"+key]; has {
					if _, gone := e.(c07Absent); gone {
						val, present, known = c07ZeroOf(mt.Elem()), c07MkBool(false), true
					} else {
						val, present, known = e, c07MkBool(true), true
					}
				}
			}
			if !known {
				if def, has := o.Slots["#default"]; has {
					known = true
					if _, abs := def.(c07Absent); abs {
						val, present = c07ZeroOf(mt.Elem()), c07MkBool(false)
					} else {
						val, present = def, c07MkBool(true)
					}
				}
			}
		}
		if in.CommaOk {
			return aTuple{Elems: []AVal{val, present}}
		}
		return val
	}
	return ev.evalInstr(fr, st, v)
}

func (x *c07Interp) doCall(fr *frame, c *ssa.Call, b *ssa.BasicBlock, idx int, st *pstate, k contFn) {
	ev := x.ev
	cc := c.Common()
	key := calleeKey(cc)
	args := ev.args(fr, cc)
	ev.record(fr, c, "call", st)
	nres := cc.Signature().Results().Len()
	resume := func(res []AVal, st *pstate) {
		var v AVal
		switch len(res) {
		case 0:
		case 1:
			v = res[0]
		default:
			v = aTuple{Elems: res}
		}
		if nres > 1 {
			if _, ok := v.(aTuple); !ok {
				v = aTuple{Elems: make([]AVal, nres)}
			}
		}
		fr.vals[c] = v
		x.runBlock(fr, b, nil, idx+1, st, k)
	}
	if bi, ok := cc.Value.(*ssa.Builtin); ok {
		if bi.Name() == "delete" && len(args) == 2 {
			// delete(m, k) on an abstract map leaves a tombstone
			if mv, ok := args[0].(c07Map); ok {
				if o := st.heap[mv.ID]; o != nil {
					if key := c07MapKey(args[1]); key != "" {
						o.Slots["k:"+key] = c07Absent{}
					} else {
						o.Slots["#weak"] = c07MkBool(true)
						o.Slots["#deleted"] = c07MkBool(true)
					}
				}
			}
		}
		resume([]AVal{ev.builtin(fr, bi.Name(), cc, args)}, st)
		return
	}
	if ev.Cfg.Call != nil {
		if res, ok := ev.Cfg.Call(ev, st, key, cc, args); ok {
			resume(res, st)
			return
		}
	}
	var callee *ssa.Function
	var bind []AVal
	if f := staticCallee(cc); f != nil {
		callee = f
		if mc, ok := cc.Value.(*ssa.MakeClosure); ok {
			for _, bv := range mc.Bindings {
				bind = append(bind, ev.val(fr, bv))
			}
		}
	} else if !cc.IsInvoke() {
		if fv, ok := ev.val(fr, cc.Value).(aFunc); ok {
			callee, bind = fv.Fn, fv.Bind
		}
	} else if iv, ok := args[0].(aIface); ok && iv.T != nil {
		if m := ev.W.methodOf(iv.T, cc.Method.Name()); m != nil {
			callee = m
			args = append([]AVal{iv.V}, args[1:]...)
		}
	}
	if callee != nil && callee.Blocks == nil {
		if o := callee.Origin(); o != nil && o.Blocks != nil {
			callee = o
		}
	}
	if callee != nil && callee.Blocks != nil && fr.depth < ev.Cfg.MaxDepth && (ev.Cfg.Inline == nil || ev.Cfg.Inline(callee)) {
		base := cloneFrame(fr)
		x.call(callee, args, bind, fr.depth+1, st, func(res []AVal, st2 *pstate, kind, why string) {
			if kind != "return" {
				k(res, st2, kind, why)
				return
			}
			fr = cloneFrame(base)
			resume(res, st2)
		})
		return
	}
	if key == "fmt.Errorf" || key == "errors.New" || strings.HasSuffix(key, "pkg/errcode.ErrCode).Wrap") || strings.HasPrefix(key, "github.com/pkg/errors.") {
		resume([]AVal{aNonNil{Tag: "error"}}, st)
		return
	}
	resume(topResults(cc.Signature()), st)
}

// ---------------------------------------------------------------------------
// environment

type c07Env struct {
	c      *Ctx
	w      *World
	stateT *types.Named
	eventT *types.Named
	groupT *types.Named
	// enum values
	stateVal  map[string]int64 // short name -> value
	stateName map[int64]string
	eventVal  map[string]int64 // short name -> value
	eventName map[int64]string
	accountGT int64
	seedLen   int
	canAppend map[*ssa.Function]bool
	// types of the functions stored in the index's handler table (filled by findHandlers)
	handlerSigs []types.Type
}

func (e *c07Env) evName(v int64) string {
	if n, ok := e.eventName[v]; ok {
		return n
	}
	for _, k := range enumValues(e.eventT) {
		if c07ConstVal(k) == v {
			return strings.TrimPrefix(k.Name(), "EventType_EventType")
		}
	}
	return fmt.Sprintf("EventType(%d)", v)
}

func c07Setup(c *Ctx) *c07Env {
	w := c.W
	e := &c07Env{c: c, w: w, stateVal: map[string]int64{}, stateName: map[int64]string{}, eventVal: map[string]int64{}, eventName: map[int64]string{}}
	e.stateT = namedType(w, pkgTypes, "ContactState")
	e.eventT = namedType(w, pkgTypes, "EventType")
	e.groupT = namedType(w, pkgTypes, "GroupType")
	if e.stateT == nil || e.eventT == nil || e.groupT == nil {
		c.undecided("D1", "enums", token.NoPos, "protocoltypes.ContactState / EventType / GroupType not found")
		return nil
	}
	for _, s := range c07States {
		k := c07Const(w, pkgTypes, "ContactState_ContactState"+s)
		if k == nil {
			c.undecided("D1", "ContactState."+s, token.NoPos, "enum constant ContactState_ContactState%s not found", s)
			return nil
		}
		e.stateVal[s] = c07ConstVal(k)
		e.stateName[c07ConstVal(k)] = s
	}
	if n := len(enumValues(e.stateT)); n != len(c07States) {
		c.fail("D1", "ContactState", token.NoPos, "the ContactState enum has %d values, the documented lifecycle has %d: a state without a row in the reference table", n, len(c07States))
	}
	for short, name := range c07EventConst {
		k := c07Const(w, pkgTypes, name)
		if k == nil {
			c.undecided("D1", "EventType."+short, token.NoPos, "enum constant %s not found", name)
			return nil
		}
		e.eventVal[short] = c07ConstVal(k)
		e.eventName[c07ConstVal(k)] = short
	}
	acc := c07Const(w, pkgTypes, "GroupType_GroupTypeAccount")
	sl := c07Const(w, pkgTypes, "RendezvousSeedLength")
	if acc == nil || sl == nil {
		c.undecided("D1", "constants", token.NoPos, "GroupType_GroupTypeAccount or RendezvousSeedLength not found")
		return nil
	}
	e.accountGT = c07ConstVal(acc)
	e.seedLen = int(c07ConstVal(sl))
	// functions from which the log append is reachable
	e.canAppend = map[*ssa.Function]bool{}
	cg := w.callGraph()
	var work []*ssa.Function
	for _, fn := range w.ModFuncs {
		if len(callsIn(fn, func(k string, _ *ssa.CallCommon) bool { return c07IsAppendKey(k) })) > 0 {
			e.canAppend[fn] = true
			work = append(work, fn)
		}
	}
	for len(work) > 0 {
		f := work[0]
		work = work[1:]
		for _, cs := range cg.callers[f] {
			if !e.canAppend[cs.Caller] {
				e.canAppend[cs.Caller] = true
				work = append(work, cs.Caller)
			}
		}
	}
	return e
}

// inlineOK: the store and message packages are interpreted; of the other module packages
// only error pass-through helpers (single result of type error, e.g. the logging helpers that
// return the error they log) so that a failed step is seen to return a non-nil error.
func (e *c07Env) inlineOK(fn *ssa.Function) bool {
	p := fnPkg(fn)
	if p == nil {
		return false
	}
	if p.Path() == pkgRoot || p.Path() == pkgTypes {
		return true
	}
	res := fn.Signature.Results()
	return inModule(fn) && res.Len() == 1 && isErrorType(res.At(0).Type())
}

// isStateReader: a module function whose only result is the ContactState.
func (e *c07Env) isStateReader(cc *ssa.CallCommon) bool {
	f := staticCallee(cc)
	if f == nil || !inModule(f) {
		return false
	}
	return e.stateResults(cc.Signature()) != nil
}

// stateResults: the signature returns the ContactState, alone or with an error; the answer an
// oracle gives for state s is (s[, nil]).
func (e *c07Env) stateResults(sig *types.Signature) func(s int64) []AVal {
	n := sig.Results().Len()
	if n == 0 || n > 2 || sig.Params().Len() == 0 {
		return nil
	}
	si := -1
	for i := 0; i < n; i++ {
		t := sig.Results().At(i).Type()
		switch {
		case types.Identical(t, e.stateT) && si < 0:
			si = i
		case isErrorType(t):
		default:
			return nil
		}
	}
	if si < 0 {
		return nil
	}
	return func(s int64) []AVal {
		out := make([]AVal, n)
		for i := range out {
			out[i] = aNil{}
		}
		out[si] = c07MkInt(s, e.stateT)
		return out
	}
}

// carriesEventType: a module function with a parameter of type EventType (the append chain).
func (e *c07Env) carriesEventType(cc *ssa.CallCommon) bool {
	f := staticCallee(cc)
	if f == nil || !inModule(f) {
		return false
	}
	return c07HasParamOfType(cc.Signature(), e.eventT)
}

// keyOracle models the libp2p key API on tagged abstract keys; shared by all scenarios.
func (e *c07Env) keyOracle(ev *Evaluator, st *pstate, k string, cc *ssa.CallCommon, args []AVal) ([]AVal, bool) {
	name := ""
	var recvT types.Type
	if cc.IsInvoke() {
		name, recvT = cc.Method.Name(), cc.Value.Type()
	} else if f := staticCallee(cc); f != nil && !inModule(f) {
		name = f.Name()
		if f.Signature.Recv() != nil {
			recvT = f.Signature.Recv().Type()
		} else if fnPkg(f) != nil && fnPkg(f).Path() == c07PkgCrypto && name == "KeyEqual" {
			name, recvT = "Equals", types.Type(nil)
		}
	}
	isKey := recvT == nil && name == "Equals" || recvT != nil && c07IsCryptoKey(recvT)
	switch {
	case name == "Equals" && isKey && len(args) == 2:
		a, aok := args[0].(aNonNil)
		b, bok := args[1].(aNonNil)
		_, an := args[0].(aNil)
		_, bn := args[1].(aNil)
		switch {
		case aok && bok && a.Tag != "" && b.Tag != "":
			return []AVal{c07MkBool(a.Tag == b.Tag)}, true
		case (aok && bn) || (an && bok):
			return []AVal{c07MkBool(false)}, true
		}
	case name == "Raw" && isKey && len(args) == 1:
		if a, ok := args[0].(aNonNil); ok && a.Tag != "" {
			return []AVal{aSym{Path: c07RawOf(a.Tag)}, aNil{}}, true
		}
	case k == "bytes.Equal" && len(args) == 2:
		a, b := c07Ident(args[0]), c07Ident(args[1])
		if a != "" && b != "" && a != "nil" && b != "nil" {
			return []AVal{c07MkBool(a == b)}, true
		}
	case k == "slices.Index" && len(args) == 2:
		elems, ok := ev.sliceElems(st, args[0])
		needle, nok := args[1].(aConst)
		if ok && nok {
			at := int64(-1)
			for i, el := range elems {
				ec, isC := el.(aConst)
				if !isC {
					return nil, false
				}
				if at < 0 && ec.V.Kind() == needle.V.Kind() && constant.Compare(ec.V, token.EQL, needle.V) {
					at = int64(i)
				}
			}
			return []AVal{c07MkInt(at, types.Typ[types.Int])}, true
		}
	case k == "slices.Contains" && len(args) == 2:
		elems, ok := ev.sliceElems(st, args[0])
		needle, nok := args[1].(aConst)
		if ok && nok {
			hit := false
			for _, el := range elems {
				ec, isC := el.(aConst)
				if !isC {
					return nil, false
				}
				if ec.V.Kind() == needle.V.Kind() && constant.Compare(ec.V, token.EQL, needle.V) {
					hit = true
				}
			}
			return []AVal{c07MkBool(hit)}, true
		}
	}
	return nil, false
}

// ---------------------------------------------------------------------------
// package-level map literals (guards expressed as data)

// c07StaticVal: the value of v when it is built from constants only (package initialiser).
func c07StaticVal(v ssa.Value, depth int) AVal {
	if depth > 5 || v == nil {
		return nil
	}
	switch x := v.(type) {
	case *ssa.Const:
		if x.Value == nil {
			if _, isStruct := x.Type().Underlying().(*types.Struct); isStruct {
				return c07Struct{F: map[string]AVal{}}
			}
			return zeroOf(x.Type())
		}
		return aConst{V: x.Value, T: x.Type()}
	case *ssa.MakeInterface:
		return aIface{V: c07StaticVal(x.X, depth+1), T: x.X.Type()}
	case *ssa.ChangeType:
		return c07StaticVal(x.X, depth+1)
	case *ssa.ChangeInterface:
		return c07StaticVal(x.X, depth+1)
	case *ssa.Function:
		return aFunc{Fn: x}
	case *ssa.UnOp:
		al, ok := x.X.(*ssa.Alloc)
		if x.Op != token.MUL || !ok || al.Referrers() == nil {
			return nil
		}
		if _, isStruct := x.Type().Underlying().(*types.Struct); !isStruct {
			return nil
		}
		sv := c07Struct{F: map[string]AVal{}}
		stt := x.Type().Underlying().(*types.Struct)
		for _, r := range *al.Referrers() {
			switch u := r.(type) {
			case *ssa.FieldAddr:
				name := "." + stt.Field(u.Field).Name()
				if u.Referrers() == nil {
					continue
				}
				n := 0
				for _, r2 := range *u.Referrers() {
					switch s2 := r2.(type) {
					case *ssa.Store:
						if s2.Addr != ssa.Value(u) {
							return nil
						}
						n++
						fv := c07StaticVal(s2.Val, depth+1)
						if sub, isSub := fv.(c07Struct); isSub {
							for f, v2 := range sub.F {
								sv.F[name+f] = v2
							}
						} else {
							sv.F[name] = fv
						}
					case *ssa.DebugRef:
					default:
						return nil
					}
				}
				if n > 1 {
					return nil
				}
			case *ssa.UnOp, *ssa.DebugRef:
			default:
				return nil // the address escapes
			}
		}
		return sv
	}
	return nil
}

// staticMaps: package-level maps of the store package that are initialised with a literal
// whose keys are constants and that nothing else can modify (no other store to the variable,
// no map update or delete on a map of that type outside the initialiser). Global name ->
// (map key -> value).
func (e *c07Env) staticMaps() map[string]map[string]AVal {
	if v, ok := e.w.memo["c07.staticmaps"]; ok {
		return v.(map[string]map[string]AVal)
	}
	out := map[string]map[string]AVal{}
	e.w.memo["c07.staticmaps"] = out
	sp := e.w.pkg(pkgRoot)
	if sp == nil {
		return out
	}
	initFn := sp.Func("init")
	if initFn == nil {
		return out
	}
	type cand struct {
		g  *ssa.Global
		mm *ssa.MakeMap
		st *ssa.Store
	}
	var cands []cand
	for _, b := range initFn.Blocks {
		for _, in := range b.Instrs {
			st, ok := in.(*ssa.Store)
			if !ok {
				continue
			}
			g, ok1 := st.Addr.(*ssa.Global)
			mm, ok2 := st.Val.(*ssa.MakeMap)
			if ok1 && ok2 {
				cands = append(cands, cand{g, mm, st})
			}
		}
	}
	for _, cd := range cands {
		entries := map[string]AVal{}
		okAll := cd.mm.Referrers() != nil
		if okAll {
			for _, r := range *cd.mm.Referrers() {
				switch u := r.(type) {
				case *ssa.MapUpdate:
					k, isC := u.Key.(*ssa.Const)
					if !isC || k.Value == nil || u.Map != ssa.Value(cd.mm) {
						okAll = false
						break
					}
					entries["c:"+k.Value.ExactString()] = c07StaticVal(u.Value, 0)
				case *ssa.Store:
					if u != cd.st {
						okAll = false
					}
				case *ssa.DebugRef:
				default:
					okAll = false
				}
			}
		}
		if !okAll {
			continue
		}
		// nothing else writes the variable or a map of that type
		mt := cd.mm.Type()
		for _, fn := range e.w.ModFuncs {
			if !okAll {
				break
			}
			for _, b := range fn.Blocks {
				for _, in := range b.Instrs {
					switch u := in.(type) {
					case *ssa.Store:
						if u.Addr == ssa.Value(cd.g) && u != cd.st {
							okAll = false
						}
					case *ssa.MapUpdate:
						if fn != initFn && types.Identical(u.Map.Type(), mt) {
							okAll = false
						}
					case *ssa.Call:
						if bi, isB := u.Common().Value.(*ssa.Builtin); isB && (bi.Name() == "delete" || bi.Name() == "clear") && len(u.Common().Args) > 0 && types.Identical(u.Common().Args[0].Type(), mt) {
							okAll = false
						}
					}
				}
			}
		}
		if okAll {
			out[cd.g.String()] = entries
		}
	}
	return out
}

// ---------------------------------------------------------------------------
// D1 / D2 / D5: the operations

type c07OpScenario struct {
	State     int64
	GroupType int64
	Own       bool // the contact key is the account's own key
	SeedLen   int
	PkLen     int
	PkParses  bool
}

type c07OpPath struct {
	Kind      string
	Why       string
	ErrNonNil bool
	Attempts  []int64 // event type constants handed to the append chain (-1: not constant)
	Appends   []int64 // event types that reached the log append
	Async     bool    // append chain started by go/defer
	Payload   map[string]string
	Pos       token.Pos
}

type c07OpResult struct {
	Paths    []c07OpPath
	WrongKey string // the state was read for another key
	Reads    int    // state reads
}

type c07Op struct {
	Ref      c07OpRef
	Fn       *ssa.Function
	Contact  string // name of the *ShareableContact parameter
	KeyParam string // name of the crypto.PubKey parameter
	Subject  string // tag of the subject key for a foreign contact
}

func (e *c07Env) findOps() []*c07Op {
	var out []*c07Op
	for _, ref := range c07Ops {
		fn := e.w.lookupMethod(pkgRoot, "MetadataStore", ref.Method)
		if fn == nil || fn.Blocks == nil {
			e.c.undecided("D1", "MetadataStore."+ref.Method, token.NoPos, "exported operation MetadataStore.%s not found", ref.Method)
			continue
		}
		op := &c07Op{Ref: ref, Fn: fn}
		for _, p := range fn.Params[1:] {
			switch {
			case isNamed(p.Type(), pkgTypes, "ShareableContact"):
				op.Contact = p.Name()
			case c07IsCryptoKey(p.Type()):
				op.KeyParam = p.Name()
			}
		}
		if ref.TakesShare != (op.Contact != "") || !ref.TakesShare && op.KeyParam == "" {
			e.c.undecided("D1", fnName(fn), fn.Pos(), "operation %s no longer takes the documented subject (a shareable contact / a public key)", ref.Method)
			continue
		}
		if op.Contact != "" {
			op.Subject = "pub(" + op.Contact + ".Pk)"
		} else {
			op.Subject = "param:" + op.KeyParam
		}
		e.c.analysed(fn)
		out = append(out, op)
	}
	return out
}

func (e *c07Env) evalOp(op *c07Op, sc c07OpScenario) c07OpResult {
	var res c07OpResult
	subject := op.Subject
	if sc.Own {
		subject = c07OwnTag
	}
	globals := map[string]c07Map{}
	cfg := EvalConfig{
		MaxDepth:  12,
		MaxVisits: 12,
		Field: func(path string, t types.Type) (AVal, bool) {
			if m, ok := globals[path]; ok {
				return m, true
			}
			switch {
			case types.Identical(t, e.groupT):
				return c07MkInt(sc.GroupType, t), true
			case op.Contact != "" && path == op.Contact+".PublicRendezvousSeed":
				return aSlice{Path: path, Len: sc.SeedLen}, true
			case op.Contact != "" && path == op.Contact+".Pk":
				return aSlice{Path: c07RawOf(subject), Len: sc.PkLen}, true
			case c07IsByteSlice(t):
				return aSym{Path: path}, true
			case op.KeyParam != "" && path == op.KeyParam && c07IsCryptoKey(t):
				return aNonNil{Tag: subject}, true
			}
			return nil, false
		},
		Inline: e.inlineOK,
		Interesting: func(k string, cc *ssa.CallCommon) bool {
			return c07IsAppendKey(k) || e.carriesEventType(cc)
		},
		Call: func(ev *Evaluator, st *pstate, k string, cc *ssa.CallCommon, args []AVal) ([]AVal, bool) {
			switch {
			case e.isStateReader(cc):
				res.Reads++
				for _, a := range args {
					id := ""
					switch x := a.(type) {
					case aNonNil:
						id = x.Tag
					case aSym:
						id = x.Path
					}
					if id == "" || !(strings.HasPrefix(id, "pub(") || strings.HasPrefix(id, "raw(") || strings.HasPrefix(id, "param:") || id == c07OwnTag || op.Contact != "" && id == op.Contact+".Pk") {
						continue
					}
					if id != subject && id != c07RawOf(subject) {
						res.WrongKey = id
					}
				}
				return e.stateResults(cc.Signature())(sc.State), true
			case c07IsKeyParser(cc) && len(args) == 1:
				if !sc.PkParses {
					return []AVal{aNil{}, aNonNil{Tag: "key parse error"}}, true
				}
				return []AVal{aNonNil{Tag: c07ParseOf(c07Ident(args[0]))}, aNil{}}, true
			case cc.IsInvoke() && cc.Method.Name() == "Member" && cc.Signature().Results().Len() == 1 && c07IsCryptoKey(cc.Signature().Results().At(0).Type()):
				return []AVal{aNonNil{Tag: c07OwnTag}}, true
			case e.carriesEventType(cc) && !e.canAppend[staticCallee(cc)]:
				// sealing helpers: not part of the guard logic
				return topResults(cc.Signature()), true
			}
			return e.keyOracle(ev, st, k, cc, args)
		},
	}
	x := &c07Interp{ev: &Evaluator{W: e.w, Cfg: cfg}}
	// package-level map literals the guards may be expressed with
	x.ev.st0 = &pstate{heap: map[int]*aObj{}}
	for name, entries := range e.staticMaps() {
		m := x.newMap(x.ev.st0, c07Absent{})
		for k, v := range entries {
			x.ev.st0.heap[m.ID].Slots["k:"+k] = v
		}
		globals[name] = m
	}
	args := x.ev.SymbolicArgs(op.Fn)
	errIdx := errResultIndex(op.Fn.Signature)
	for _, o := range x.Eval(op.Fn, args) {
		p := c07OpPath{Kind: o.Kind, Why: o.Why, Pos: op.Fn.Pos()}
		if o.Kind == "return" && errIdx >= 0 && errIdx < len(o.Results) {
			p.ErrNonNil = c07DefNonNil(o.Results[errIdx])
		}
		cur := int64(-1)
		var evObj AVal
		for _, te := range o.Trace {
			if c07IsAppendKey(te.Key) {
				if te.Kind != "call" {
					p.Async = true
				}
				p.Appends = append(p.Appends, cur)
				p.Pos = te.Pos
				continue
			}
			// a call carrying an event type
			cur = -1
			for _, a := range te.Args {
				if k, ok := a.(aConst); ok && types.Identical(k.T, e.eventT) {
					cur, _ = constant.Int64Val(k.V)
				}
			}
			if te.Kind != "call" {
				p.Async = true
			}
			// the point of no return of the guard logic: the event is handed to a sealing step
			// (a function that takes the event type and does not itself reach the append)
			if f := staticCallee(te.Site.Common()); f == nil || !e.canAppend[f] {
				p.Attempts = append(p.Attempts, cur)
			}
			if evObj == nil {
				for _, a := range te.Args {
					if iv, ok := a.(aIface); ok {
						a = iv.V
					}
					if ptr, ok := a.(aPtr); ok && !ptr.Sym && ptr.Path == "" {
						if obj := o.Heap[ptr.ID]; obj != nil && obj.Sym == "" {
							evObj = ptr
						}
					}
				}
			}
		}
		if len(p.Appends) > 0 && evObj != nil {
			p.Payload = map[string]string{}
			c07Flatten(o.Heap, evObj.(aPtr), "", p.Payload, 0)
		}
		res.Paths = append(res.Paths, p)
	}
	return res
}

// c07Flatten lists the slots of an object and of the objects it points to: ".Contact.Pk" -> identity.
func c07Flatten(heap map[int]*aObj, p aPtr, prefix string, out map[string]string, depth int) {
	obj := heap[p.ID]
	if obj == nil || depth > 3 {
		return
	}
	for slot, v := range obj.Slots {
		if !strings.HasPrefix(slot, p.Path) {
			continue
		}
		name := prefix + strings.TrimPrefix(slot, p.Path)
		if q, ok := v.(aPtr); ok {
			if qo := heap[q.ID]; q.Sym && qo != nil {
				// a pointer into symbolic input memory: its fields are the input's fields
				out[name+"#sym"] = qo.Sym + q.Path
			}
			c07Flatten(heap, q, name, out, depth+1)
			continue
		}
		out[name] = c07Ident(v)
	}
}

func (e *c07Env) evList(vs []int64) string {
	if len(vs) == 0 {
		return "nothing"
	}
	var s []string
	for _, v := range vs {
		if v < 0 {
			s = append(s, "<non-constant event type>")
		} else {
			s = append(s, e.evName(v))
		}
	}
	return strings.Join(s, "+")
}

// summarise one cell: the distinct append lists, whether every return refuses, whether a
// possibly-nil error is returned without the append chain having been started.
type c07Cell struct {
	Trunc        string
	AppendLists  []string
	Attempted    map[int64]bool
	AllRefuse    bool
	QuietSuccess bool
	Async        bool
	Returns      int
	Pos          token.Pos
	Payloads     []map[string]string
}

func (e *c07Env) cellOf(r c07OpResult) c07Cell {
	cell := c07Cell{AllRefuse: true, Attempted: map[int64]bool{}}
	seen := map[string]bool{}
	for _, p := range r.Paths {
		switch p.Kind {
		case "truncated":
			cell.Trunc = p.Why
			continue
		case "panic":
			continue
		}
		cell.Returns++
		if p.Async {
			cell.Async = true
		}
		for _, a := range p.Attempts {
			cell.Attempted[a] = true
		}
		if len(p.Appends) > 0 {
			l := e.evList(p.Appends)
			if !seen[l] {
				seen[l] = true
				cell.AppendLists = append(cell.AppendLists, l)
			}
			cell.Pos = p.Pos
			if p.Payload != nil {
				cell.Payloads = append(cell.Payloads, p.Payload)
			}
		}
		if !p.ErrNonNil {
			cell.AllRefuse = false
			if len(p.Attempts) == 0 && len(p.Appends) == 0 {
				cell.QuietSuccess = true
			}
		}
	}
	sort.Strings(cell.AppendLists)
	return cell
}

func (c *c07Cell) reachesAppendChain() bool { return len(c.AppendLists) > 0 || len(c.Attempted) > 0 }

func (e *c07Env) baseScenario(state int64) c07OpScenario {
	return c07OpScenario{State: state, GroupType: e.accountGT, SeedLen: e.seedLen, PkLen: 32, PkParses: true}
}

func (e *c07Env) runD1(ops []*c07Op) {
	c := e.c
	for _, op := range ops {
		on := fnName(op.Fn)
		payloadBad := []string{}
		payloadSeen := 0
		for si, sname := range c07States {
			construct := fmt.Sprintf("%s[%s]", on, sname)
			r := e.evalOp(op, e.baseScenario(e.stateVal[sname]))
			cell := e.cellOf(r)
			want := op.Ref.Row[si]
			pos := op.Fn.Pos()
			if cell.Pos.IsValid() {
				pos = cell.Pos
			}
			switch {
			case cell.Trunc != "":
				c.undecided("D1", construct, pos, "abstract evaluation truncated: %s", cell.Trunc)
				continue
			case cell.Returns == 0:
				c.undecided("D1", construct, pos, "abstract evaluation produced no returning path")
				continue
			case r.WrongKey != "":
				c.fail("D1", construct, pos, "%s reads the state of %s instead of the contact it operates on (%s): the guard decides on another contact's state", op.Ref.Short, r.WrongKey, op.Subject)
				continue
			case cell.Async:
				c.fail("D1", construct, pos, "%s starts the append through go/defer: its outcome is not reported to the caller", op.Ref.Short)
				continue
			}
			got := "refused"
			if len(cell.AppendLists) > 0 {
				got = "appends " + strings.Join(cell.AppendLists, " or ")
			}
			if r.Reads == 0 {
				got += " (the operation never reads the contact's state: no call to a function returning protocoltypes.ContactState)"
			}
			if want == "" {
				switch {
				case cell.reachesAppendChain():
					att := []string{}
					for a := range cell.Attempted {
						att = append(att, e.evList([]int64{a}))
					}
					sort.Strings(att)
					c.fail("D1", construct, pos, "%s of a contact in state %s must be refused, but the state guard lets it through: %s (event sealed as %s)", op.Ref.Short, sname, got, strings.Join(att, ","))
				case !cell.AllRefuse:
					c.fail("D1", construct, pos, "%s of a contact in state %s must fail, but a path returns a possibly-nil error (nothing appended, success reported)", op.Ref.Short, sname)
				default:
					c.ok("D1", construct, pos, "state %s: refused, nothing appended", sname)
				}
				continue
			}
			wantList := want
			switch {
			case len(cell.AppendLists) == 0:
				c.fail("D1", construct, pos, "%s of a contact in state %s must append %s (-> %s), but no path reaches the log append: %s", op.Ref.Short, sname, want, c07EventState[want], got)
			case len(cell.AppendLists) != 1 || cell.AppendLists[0] != wantList:
				c.fail("D1", construct, pos, "%s of a contact in state %s must append exactly %s (-> %s), but it %s", op.Ref.Short, sname, want, c07EventState[want], got)
			case len(cell.Attempted) != 1 || !cell.Attempted[e.eventVal[want]]:
				c.fail("D1", construct, pos, "%s of a contact in state %s seals another event type than %s on some path", op.Ref.Short, sname, want)
			case cell.QuietSuccess:
				c.fail("D1", construct, pos, "%s of a contact in state %s must append %s, but a path returns a possibly-nil error without sealing or appending anything (silent no-op)", op.Ref.Short, sname, want)
			default:
				c.ok("D1", construct, pos, "state %s: appends %s (-> %s)", sname, want, c07EventState[want])
			}
			// D5 payload, on the cells that append the operation's own event
			if len(cell.AppendLists) == 1 && cell.AppendLists[0] == wantList {
				for _, pl := range cell.Payloads {
					payloadSeen++
					for _, bad := range e.payloadMismatch(op, want, pl) {
						payloadBad = append(payloadBad, fmt.Sprintf("state %s: %s", sname, bad))
					}
				}
			}
		}
		switch {
		case payloadSeen == 0:
			c.undecided("D5", on, op.Fn.Pos(), "no appended event object could be followed from %s to the log append", op.Ref.Short)
		case len(payloadBad) > 0:
			sort.Strings(payloadBad)
			payloadBad = c07Uniq(payloadBad)
			c.fail("D5", on, op.Fn.Pos(), "the event appended by %s does not carry the contact's data: %s", op.Ref.Short, strings.Join(payloadBad, "; "))
		default:
			c.ok("D5", on, op.Fn.Pos(), "every event appended by %s carries the key%s of the contact operated on (%d appending paths)", op.Ref.Short, map[bool]string{true: ", seed and metadata", false: ""}[op.Ref.TakesShare], payloadSeen)
		}
	}
}

func c07Uniq(s []string) []string {
	var out []string
	for i, x := range s {
		if i == 0 || x != s[i-1] {
			out = append(out, x)
		}
	}
	return out
}

// payloadMismatch compares the fields of the appended event with the reference (A.2 carried data).
func (e *c07Env) payloadMismatch(op *c07Op, event string, pl map[string]string) []string {
	subjectRaw := []string{c07RawOf(op.Subject)}
	want := map[string][]string{}
	switch event {
	case c07Enq:
		want[".Contact.Pk"] = subjectRaw
		want[".Contact.PublicRendezvousSeed"] = []string{op.Contact + ".PublicRendezvousSeed"}
		want[".Contact.Metadata"] = []string{op.Contact + ".Metadata"}
		for _, p := range op.Fn.Params {
			if c07IsByteSlice(p.Type()) {
				want[".OwnMetadata"] = []string{p.Name()}
			}
		}
	case c07Recv:
		want[".ContactPk"] = subjectRaw
		want[".ContactRendezvousSeed"] = []string{op.Contact + ".PublicRendezvousSeed"}
		want[".ContactMetadata"] = []string{op.Contact + ".Metadata"}
	default:
		want[".ContactPk"] = subjectRaw
	}
	var bad []string
	fields := make([]string, 0, len(want))
	for f := range want {
		fields = append(fields, f)
	}
	sort.Strings(fields)
	for _, f := range fields {
		got, ok := pl[f]
		if !ok {
			bad = append(bad, fmt.Sprintf("field %s of %s is never set", strings.TrimPrefix(f, "."), event))
			continue
		}
		if !has(want[f], got) {
			if got == "" {
				got = "an unknown value"
			}
			bad = append(bad, fmt.Sprintf("field %s of %s is set from %s, reference: %s", strings.TrimPrefix(f, "."), event, got, want[f][0]))
		}
	}
	return bad
}

func (e *c07Env) runD2(ops []*c07Op) {
	c := e.c
	// every scenario must be refused in every state
	refusedEverywhere := func(op *c07Op, mk func(state int64) c07OpScenario) (bad []string, trunc string, pos token.Pos) {
		pos = op.Fn.Pos()
		for _, sname := range c07States {
			cell := e.cellOf(e.evalOp(op, mk(e.stateVal[sname])))
			if cell.Trunc != "" {
				trunc = cell.Trunc
				continue
			}
			switch {
			case len(cell.AppendLists) > 0:
				bad = append(bad, fmt.Sprintf("state %s: appends %s", sname, strings.Join(cell.AppendLists, " or ")))
				pos = cell.Pos
			case len(cell.Attempted) > 0:
				bad = append(bad, fmt.Sprintf("state %s: seals an event for the log", sname))
			case !cell.AllRefuse:
				bad = append(bad, fmt.Sprintf("state %s: returns a possibly-nil error", sname))
			}
		}
		return
	}
	report := func(op *c07Op, suffix, what string, bad []string, trunc string, pos token.Pos) {
		construct := fnName(op.Fn) + suffix
		switch {
		case trunc != "":
			c.undecided("D2", construct, pos, "abstract evaluation truncated: %s", trunc)
		case len(bad) > 0:
			c.fail("D2", construct, pos, "%s %s is not refused — %s", op.Ref.Short, what, strings.Join(bad, "; "))
		default:
			c.ok("D2", construct, pos, "%s %s is refused in every state, nothing appended", op.Ref.Short, what)
		}
	}
	var otherTypes []*types.Const
	maxV := int64(0)
	for _, k := range enumValues(e.groupT) {
		if v := c07ConstVal(k); v != e.accountGT {
			otherTypes = append(otherTypes, k)
			if v > maxV {
				maxV = v
			}
		}
	}
	for _, op := range ops {
		// (a) group type
		var bad []string
		trunc := ""
		pos := op.Fn.Pos()
		for _, k := range otherTypes {
			b, t, p := refusedEverywhere(op, func(s int64) c07OpScenario {
				sc := e.baseScenario(s)
				sc.GroupType = c07ConstVal(k)
				return sc
			})
			for _, x := range b {
				bad = append(bad, strings.TrimPrefix(k.Name(), "GroupType_")+", "+x)
				pos = p
			}
			if t != "" {
				trunc = t
			}
		}
		report(op, "+account-group", "on a group that is not the account group", bad, trunc, pos)
		// (b) own key
		if op.Ref.SelfCheck {
			// the account's own key is never a contact: its state is Undefined
			cell := e.cellOf(e.evalOp(op, func() c07OpScenario {
				sc := e.baseScenario(e.stateVal["Undefined"])
				sc.Own = true
				return sc
			}()))
			bad, pos := []string(nil), op.Fn.Pos()
			switch {
			case len(cell.AppendLists) > 0:
				bad = append(bad, "appends "+strings.Join(cell.AppendLists, " or "))
				pos = cell.Pos
			case len(cell.Attempted) > 0:
				bad = append(bad, "seals an event for the log")
			case !cell.AllRefuse:
				bad = append(bad, "returns a possibly-nil error")
			}
			report(op, "+own-key", "with the account's own key (an account requesting, receiving or blocking itself)", bad, cell.Trunc, pos)
		}
		// (c) malformed contacts
		if op.Ref.TakesShare {
			type mal struct {
				name, what string
				mod        func(*c07OpScenario)
				legal      bool
			}
			cases := []mal{
				{"+short-seed", "of a contact whose rendezvous seed is one byte short", func(s *c07OpScenario) { s.SeedLen = e.seedLen - 1 }, false},
				{"+long-seed", "of a contact whose rendezvous seed is one byte long", func(s *c07OpScenario) { s.SeedLen = e.seedLen + 1 }, false},
				{"+missing-seed", "of a contact without rendezvous seed", func(s *c07OpScenario) { s.SeedLen = 0 }, op.Ref.SeedOpt},
				{"+missing-key", "of a contact without public key", func(s *c07OpScenario) { s.PkLen = 0; s.PkParses = false }, false},
				{"+bad-key", "of a contact whose public key does not parse", func(s *c07OpScenario) { s.PkParses = false }, false},
			}
			for _, m := range cases {
				if m.legal {
					// the seed-optional operation must treat a missing seed like a present one
					var bad []string
					trunc := ""
					for si, sname := range c07States {
						sc := e.baseScenario(e.stateVal[sname])
						m.mod(&sc)
						cell := e.cellOf(e.evalOp(op, sc))
						if cell.Trunc != "" {
							trunc = cell.Trunc
							continue
						}
						want := op.Ref.Row[si]
						got := ""
						if len(cell.AppendLists) == 1 {
							got = cell.AppendLists[0]
						} else if len(cell.AppendLists) > 1 {
							got = strings.Join(cell.AppendLists, " or ")
						}
						if got != want {
							bad = append(bad, fmt.Sprintf("state %s: %s instead of %s", sname, map[bool]string{true: "refused", false: "appends " + got}[got == ""], map[bool]string{true: "refused", false: "appending " + want}[want == ""]))
						}
					}
					construct := fnName(op.Fn) + m.name
					switch {
					case trunc != "":
						c.undecided("D2", construct, op.Fn.Pos(), "abstract evaluation truncated: %s", trunc)
					case len(bad) > 0:
						c.fail("D2", construct, op.Fn.Pos(), "%s %s (legal for this operation) does not follow the lifecycle table — %s", op.Ref.Short, m.what, strings.Join(bad, "; "))
					default:
						c.ok("D2", construct, op.Fn.Pos(), "%s %s follows the same table as with a seed", op.Ref.Short, m.what)
					}
					continue
				}
				b, t, p := refusedEverywhere(op, func(s int64) c07OpScenario {
					sc := e.baseScenario(s)
					m.mod(&sc)
					return sc
				})
				report(op, m.name, m.what, b, t, p)
			}
		}
	}
	// (d) the contact event types enter the append chain only inside the seven operations
	opSet := map[*ssa.Function]bool{}
	for _, op := range ops {
		opSet[op.Fn] = true
	}
	cg := e.w.callGraph()
	for _, short := range c07EventOrder {
		val := e.eventVal[short]
		var bad []string
		sites := 0
		pos := token.NoPos
		for _, fn := range e.w.ModFuncs {
			for _, b := range fn.Blocks {
				for _, in := range b.Instrs {
					ci, ok := in.(ssa.CallInstruction)
					if !ok {
						continue
					}
					hit := false
					for _, a := range ci.Common().Args {
						if k, ok := a.(*ssa.Const); ok && k.Value != nil && types.Identical(k.Type(), e.eventT) && k.Int64() == val {
							hit = true
						}
					}
					if !hit {
						continue
					}
					if f := staticCallee(ci.Common()); f != nil && (!inModule(f) || !c07HasParamOfType(f.Signature, e.eventT)) {
						continue // logging, String(): the constant is not handed on as an event type
					}
					sites++
					pos = posOf(ci)
					// every entry point that reaches fn must be one of the operations
					seen := map[*ssa.Function]bool{fn: true}
					q := []*ssa.Function{fn}
					for len(q) > 0 {
						f := q[0]
						q = q[1:]
						if opSet[f] {
							continue
						}
						callers := cg.callers[f]
						if f.Parent() != nil {
							if !seen[f.Parent()] {
								seen[f.Parent()] = true
								q = append(q, f.Parent())
							}
							continue
						}
						exported := f.Object() != nil && f.Object().Exported()
						if len(callers) == 0 || exported {
							bad = append(bad, fmt.Sprintf("%s (reached from %s)", c.pos(posOf(ci)), fnName(f)))
							continue
						}
						for _, cs := range callers {
							if !seen[cs.Caller] {
								seen[cs.Caller] = true
								q = append(q, cs.Caller)
							}
						}
					}
				}
			}
		}
		construct := "append(" + short + ")"
		switch {
		case sites == 0:
			c.undecided("D2", construct, token.NoPos, "no call passes the constant %s to the append chain", c07EventConst[short])
		case len(bad) > 0:
			sort.Strings(bad)
			c.fail("D2", construct, pos, "%s is handed to the append chain outside the guarded contact operations: %s", short, strings.Join(c07Uniq(bad), ", "))
		default:
			c.ok("D2", construct, pos, "%s is appended only from inside the seven guarded operations (%d call sites)", short, sites)
		}
	}
}

// ---------------------------------------------------------------------------
// D3: the index handlers

type c07Handler struct {
	Event string
	Fn    *ssa.Function
	Pos   token.Pos
}

// findHandlers reads the map[EventType][]func(proto.Message) error filled by the index
// constructor: bound methods of a type that implements the store index (UpdateIndex).
func (e *c07Env) findHandlers() map[string][]c07Handler {
	out := map[string][]c07Handler{}
	for _, fn := range e.w.ModFuncs {
		if p := fnPkg(fn); p == nil || p.Path() != pkgRoot {
			continue
		}
		for _, b := range fn.Blocks {
			for _, in := range b.Instrs {
				mu, ok := in.(*ssa.MapUpdate)
				if !ok {
					continue
				}
				mt, ok := mu.Map.Type().Underlying().(*types.Map)
				if !ok || !types.Identical(mt.Key(), e.eventT) {
					continue
				}
				k, ok := mu.Key.(*ssa.Const)
				if !ok || k.Value == nil {
					continue
				}
				short, isContact := e.eventName[k.Int64()]
				if !isContact {
					continue
				}
				var ht types.Type = mt.Elem()
				if sl, ok := ht.Underlying().(*types.Slice); ok {
					ht = sl.Elem()
				}
				if _, isSig := ht.Underlying().(*types.Signature); isSig {
					known := false
					for _, x := range e.handlerSigs {
						known = known || types.Identical(x, ht)
					}
					if !known {
						e.handlerSigs = append(e.handlerSigs, ht)
					}
				}
				for _, h := range c07FuncsIn(mu.Value, 0) {
					if h.Signature.Recv() == nil {
						continue
					}
					if e.w.methodOf(h.Signature.Recv().Type(), "UpdateIndex") == nil {
						continue
					}
					out[short] = append(out[short], c07Handler{Event: short, Fn: h, Pos: mu.Pos()})
				}
			}
		}
	}
	return out
}

// c07FuncsIn: the declared functions a value (closure, bound method, slice literal of them) holds.
func c07FuncsIn(v ssa.Value, depth int) []*ssa.Function {
	if depth > 4 || v == nil {
		return nil
	}
	switch x := v.(type) {
	case *ssa.Function:
		return []*ssa.Function{x}
	case *ssa.MakeClosure:
		f, _ := x.Fn.(*ssa.Function)
		if f == nil {
			return nil
		}
		// bound method wrapper: resolve to the declared method
		if f.Synthetic != "" {
			if fo, ok := f.Object().(*types.Func); ok {
				if d := f.Prog.FuncValue(fo); d != nil {
					return []*ssa.Function{d}
				}
			}
		}
		return []*ssa.Function{f}
	case *ssa.Slice:
		return c07FuncsIn(x.X, depth+1)
	case *ssa.Alloc:
		var out []*ssa.Function
		if x.Referrers() == nil {
			return nil
		}
		for _, r := range *x.Referrers() {
			ia, ok := r.(*ssa.IndexAddr)
			if !ok || ia.Referrers() == nil {
				continue
			}
			for _, r2 := range *ia.Referrers() {
				if st, ok := r2.(*ssa.Store); ok && st.Addr == ssa.Value(ia) {
					out = append(out, c07FuncsIn(st.Val, depth+1)...)
				}
			}
		}
		return out
	case *ssa.ChangeType:
		return c07FuncsIn(x.X, depth+1)
	case *ssa.MakeInterface:
		return c07FuncsIn(x.X, depth+1)
	}
	return nil
}

// c07MapField is a map-typed field of the index struct, possibly inside embedded / nested
// structs; Path is the dotted access path from the index object ("rescan.contacts").
type c07MapField struct {
	Path string
	Type types.Type
}

func c07MapFieldsOf(st *types.Struct, prefix string, depth int, out *[]c07MapField) {
	if depth > 3 {
		return
	}
	for i := 0; i < st.NumFields(); i++ {
		f := st.Field(i)
		switch u := f.Type().Underlying().(type) {
		case *types.Map:
			*out = append(*out, c07MapField{Path: prefix + f.Name(), Type: f.Type()})
		case *types.Struct:
			c07MapFieldsOf(u, prefix+f.Name()+".", depth+1, out)
		case *types.Pointer:
			if f.Embedded() {
				if ps, ok := u.Elem().Underlying().(*types.Struct); ok {
					c07MapFieldsOf(ps, prefix+f.Name()+".", depth+1, out)
				}
			}
		}
	}
}

// c07FieldPathFrom: v is the address of a (possibly promoted) field reached from a pointer to
// the struct idx through a chain of field addresses (and loads of embedded pointers); returns
// the dotted path.
func c07FieldPathFrom(v ssa.Value, idx *types.Struct) (string, bool) {
	path := ""
	for i := 0; i < 6; i++ {
		switch x := v.(type) {
		case *ssa.FieldAddr:
			st, ok := x.X.Type().Underlying().(*types.Pointer).Elem().Underlying().(*types.Struct)
			if !ok {
				return "", false
			}
			if path == "" {
				path = st.Field(x.Field).Name()
			} else {
				path = st.Field(x.Field).Name() + "." + path
			}
			if types.Identical(st, idx) {
				return path, true
			}
			v = x.X
		case *ssa.UnOp:
			if x.Op != token.MUL {
				return "", false
			}
			v = x.X
		default:
			return "", false
		}
	}
	return "", false
}

// stateMapFields: the fields of the index struct holding the map the state reader looks the
// contact up in (the map the reported state comes from).
func (e *c07Env) stateMapFields(idx *types.Struct) map[string]bool {
	out := map[string]bool{}
	var readers []*ssa.Function
	for _, fn := range e.w.ModFuncs {
		sig := fn.Signature
		if fnPkg(fn) != nil && fnPkg(fn).Path() == pkgRoot && e.stateResults(sig) != nil && fn.Parent() == nil {
			readers = append(readers, fn)
		}
	}
	for fn := range e.w.reachableFuncs(readers, 4) {
		for _, b := range fn.Blocks {
			for _, in := range b.Instrs {
				l, ok := in.(*ssa.Lookup)
				if !ok {
					continue
				}
				ld, ok := l.X.(*ssa.UnOp)
				if !ok || ld.Op != token.MUL {
					continue
				}
				if c07RecordOf(l.X.Type(), e.stateT) == nil {
					continue
				}
				if path, ok := c07FieldPathFrom(ld.X, idx); ok {
					out[path] = true
				}
			}
		}
	}
	return out
}

// c07RecordOf: t is map[string]*R where struct R has a field of the state type; returns R.
func c07RecordOf(t types.Type, stateT types.Type) *types.Struct {
	mt, ok := t.Underlying().(*types.Map)
	if !ok {
		return nil
	}
	pt, ok := mt.Elem().Underlying().(*types.Pointer)
	if !ok {
		return nil
	}
	st, ok := pt.Elem().Underlying().(*types.Struct)
	if !ok {
		return nil
	}
	for i := 0; i < st.NumFields(); i++ {
		if types.Identical(st.Field(i).Type(), stateT) {
			return st
		}
	}
	return nil
}

type c07IdxScenario struct {
	Present bool // the subject already has a record (a newer event was applied)
	MetaNil bool // ... whose Metadata is nil
	SeedNil bool // ... whose PublicRendezvousSeed is nil
}

type c07IdxPath struct {
	Kind, Why string
	ErrNonNil bool
	// state map after the handler: key -> flattened record
	Inserted map[string]map[string]string
	Deleted  []string // keys deleted from the state map
	Weak     bool
	// the pre-existing record after the handler (present scenario)
	Existing map[string]string
}

const (
	c07PrevState = "previous state"
	c07PrevPk    = "previous key"
	c07PrevMeta  = "previous metadata"
	c07PrevSeed  = "previous seed"
)

func (e *c07Env) evalHandler(h c07Handler, idxStruct *types.Struct, stateFields map[string]bool, msgT types.Type, sc c07IdxScenario) (out []c07IdxPath, stateField, contactField, why string) {
	recvName := h.Fn.Params[0].Name()
	maps := map[string]c07Map{}
	var recObj, conObj *aObj
	cfg := EvalConfig{
		MaxDepth:  10,
		MaxVisits: 12,
		Inline:    e.inlineOK,
		Field: func(path string, t types.Type) (AVal, bool) {
			if m, ok := maps[path]; ok {
				return m, true
			}
			switch {
			case types.Identical(t, e.groupT):
				return c07MkInt(e.accountGT, t), true
			case c07IsByteSlice(t) && (path == "event.ContactPk" || path == "event.Contact.Pk"):
				// the contact key of a well-formed event: 32 bytes (the operations only append such keys)
				return aSlice{Path: path, Len: 32}, true
			case c07IsByteSlice(t):
				return aSym{Path: path}, true
			}
			return nil, false
		},
		Call: func(ev *Evaluator, st *pstate, k string, cc *ssa.CallCommon, args []AVal) ([]AVal, bool) {
			if c07IsKeyParser(cc) && len(args) == 1 {
				return []AVal{aNonNil{Tag: c07ParseOf(c07Ident(args[0]))}, aNil{}}, true
			}
			return e.keyOracle(ev, st, k, cc, args)
		},
	}
	x := &c07Interp{ev: &Evaluator{W: e.w, Cfg: cfg}}
	ev := x.ev
	ev.st0 = &pstate{heap: map[int]*aObj{}}
	st0 := ev.st0
	// the pre-existing record
	var recT *types.Struct
	var mapFields []c07MapField
	c07MapFieldsOf(idxStruct, "", 0, &mapFields)
	for _, f := range mapFields {
		if stateFields[f.Path] {
			recT = c07RecordOf(f.Type, e.stateT)
		}
	}
	if recT == nil {
		return nil, "", "", "the record type of the contacts map was not found"
	}
	for i := 0; i < recT.NumFields(); i++ {
		f := recT.Field(i)
		if types.Identical(f.Type(), e.stateT) {
			stateField = f.Name()
		} else if isNamed(f.Type(), pkgTypes, "ShareableContact") {
			contactField = f.Name()
		}
	}
	if stateField == "" || contactField == "" {
		return nil, "", "", "the contact record no longer holds a ContactState and a *ShareableContact"
	}
	if sc.Present {
		conObj = ev.newObj(st0, "")
		conObj.Slots[".Pk"] = aNonNil{Tag: c07PrevPk}
		conObj.Slots[".Metadata"] = aNil{}
		if !sc.MetaNil {
			conObj.Slots[".Metadata"] = aNonNil{Tag: c07PrevMeta}
		}
		conObj.Slots[".PublicRendezvousSeed"] = aNil{}
		if !sc.SeedNil {
			conObj.Slots[".PublicRendezvousSeed"] = aNonNil{Tag: c07PrevSeed}
		}
		recObj = ev.newObj(st0, "")
		recObj.Slots["."+stateField] = aNonNil{Tag: c07PrevState}
		recObj.Slots["."+contactField] = aPtr{ID: conObj.ID}
	}
	stateMapIDs := map[int]string{}
	for _, f := range mapFields {
		var def AVal = c07Absent{}
		if sc.Present {
			def = nil // other maps: unknown content
			if stateFields[f.Path] {
				def = aPtr{ID: recObj.ID}
			}
		}
		m := x.newMap(st0, def)
		maps[recvName+"."+f.Path] = m
		if stateFields[f.Path] {
			stateMapIDs[m.ID] = f.Path
		}
	}
	recv := aPtr{ID: ev.newObj(st0, recvName).ID, Sym: true}
	evObj := ev.newObj(st0, "event")
	event := aIface{V: aPtr{ID: evObj.ID, Sym: true}, T: msgT}
	errIdx := errResultIndex(h.Fn.Signature)
	for _, o := range x.Eval(h.Fn, []AVal{recv, event}) {
		p := c07IdxPath{Kind: o.Kind, Why: o.Why, Inserted: map[string]map[string]string{}}
		if o.Kind == "return" && errIdx >= 0 && errIdx < len(o.Results) {
			p.ErrNonNil = c07DefNonNil(o.Results[errIdx])
		}
		for id := range stateMapIDs {
			mo := o.Heap[id]
			if mo == nil {
				continue
			}
			for slot, v := range mo.Slots {
				switch {
				case slot == "#weak":
					p.Weak = true
				case slot == "#deleted":
					p.Deleted = append(p.Deleted, "an unknown key")
				case strings.HasPrefix(slot, "k:"):
					if _, gone := v.(c07Absent); gone {
						p.Deleted = append(p.Deleted, strings.TrimPrefix(slot, "k:s:"))
						continue
					}
					rec := map[string]string{}
					if ptr, ok := v.(aPtr); ok {
						if recObj != nil && ptr.ID == recObj.ID {
							rec["#same"] = "1"
						}
						c07Flatten(o.Heap, ptr, "", rec, 0)
					} else {
						rec["#value"] = c07Ident(v)
					}
					p.Inserted[strings.TrimPrefix(slot, "k:s:")] = rec
				}
			}
		}
		if recObj != nil {
			p.Existing = map[string]string{}
			c07Flatten(o.Heap, aPtr{ID: recObj.ID}, "", p.Existing, 0)
		}
		out = append(out, p)
	}
	return out, stateField, contactField, ""
}

func (e *c07Env) runD3() (idxPtrT types.Type) {
	c := e.c
	handlers := e.findHandlers()
	_, entries, _ := findEventTable(c)
	protoOf := map[int64]types.Type{}
	for _, te := range entries {
		protoOf[te.KeyVal] = te.Proto
	}
	for _, short := range c07EventOrder {
		hs := handlers[short]
		construct := "index[" + short + "]"
		if len(hs) == 0 {
			for _, sfx := range []string{"+new", "+existing"} {
				c.fail("D3", construct+sfx, token.NoPos, "no index handler is registered for %s: the event never reaches the contact's state when the log is replayed (reference A.2: -> %s)", c07EventConst[short], c07EventState[short])
			}
			continue
		}
		if len(hs) > 1 {
			for _, sfx := range []string{"+new", "+existing"} {
				c.undecided("D3", construct+sfx, hs[0].Pos, "%d handlers are registered for %s; their composition is not modelled", len(hs), short)
			}
			continue
		}
		h := hs[0]
		c.analysed(h.Fn)
		msgT := protoOf[e.eventVal[short]]
		if msgT == nil {
			c.undecided("D3", construct, h.Pos, "no message prototype for %s in the event table", short)
			continue
		}
		if len(h.Fn.Params) != 2 {
			c.undecided("D3", construct, h.Pos, "handler %s does not take (receiver, message)", fnName(h.Fn))
			continue
		}
		idxStruct, ok := h.Fn.Params[0].Type().Underlying().(*types.Pointer)
		if !ok {
			c.undecided("D3", construct, h.Pos, "handler receiver is not a pointer")
			continue
		}
		ist, ok := idxStruct.Elem().Underlying().(*types.Struct)
		if !ok {
			c.undecided("D3", construct, h.Pos, "handler receiver is not a struct")
			continue
		}
		idxPtrT = h.Fn.Params[0].Type()
		stateFields := e.stateMapFields(ist)
		if len(stateFields) != 1 {
			c.undecided("D3", construct, h.Pos, "the map the contact state is read from was not identified (%d candidates)", len(stateFields))
			continue
		}
		hn := fnName(h.Fn)
		// reference: event fields
		pkField, metaField, seedField := "event.ContactPk", "", ""
		switch short {
		case c07Enq:
			pkField, metaField, seedField = "event.Contact.Pk", "event.Contact.Metadata", "event.Contact.PublicRendezvousSeed"
		case c07Recv:
			metaField, seedField = "event.ContactMetadata", "event.ContactRendezvousSeed"
		}
		wantState := fmt.Sprint(e.stateVal[c07EventState[short]])

		// ---- subject absent
		paths, stateF, contactF, why := e.evalHandler(h, ist, stateFields, msgT, c07IdxScenario{})
		stateName := func(v string) string {
			var sv int64
			if n, _ := fmt.Sscan(v, &sv); n == 1 {
				if s, ok := e.stateName[sv]; ok {
					return s
				}
				return "undeclared state " + v
			}
			return c07Or(v, "a non-constant value")
		}
		var bad, unstored []string
		partial := false
		stored, rets, rejects := 0, 0, 0
		trunc := why
		for _, p := range paths {
			if p.Kind == "truncated" {
				trunc = p.Why
			}
			if p.Kind != "return" {
				continue
			}
			rets++
			if p.ErrNonNil && len(p.Inserted) == 0 {
				rejects++
			}
			if p.Weak {
				bad = append(bad, "the contacts map is updated under a key that does not derive from the event")
			}
			how := "returns an error"
			if !p.ErrNonNil {
				how = "reports success"
			}
			for _, k := range p.Deleted {
				partial = true
				bad = append(bad, fmt.Sprintf("the record stored for the event is deleted again from the contacts table (key %s) on a path that %s: entries of that table are only dropped by the reset at the start of a re-index, the newest event about a contact decides its state whatever a secondary step does", k, how))
			}
			if len(p.Inserted) == 0 {
				if len(p.Deleted) == 0 {
					unstored = append(unstored, how)
				}
				continue
			}
			for key, rec := range p.Inserted {
				stored++
				if key != pkField {
					bad = append(bad, fmt.Sprintf("the record is stored under %s instead of the event's contact key (%s)", c07Or(key, "an unknown key"), pkField))
				}
				if got := rec["."+stateF]; got != wantState {
					bad = append(bad, fmt.Sprintf("a new contact gets state %s, reference (A.2): %s", stateName(got), c07EventState[short]))
				}
				chk := func(field, want string) {
					got, set := rec["."+contactF+"."+field]
					if base, shared := rec["."+contactF+"#sym"]; !set && shared {
						got = base + "." + field // the record shares the event's own contact message
					}
					switch {
					case want == "" && (got == "" || got == "nil"):
					case want == "":
						bad = append(bad, fmt.Sprintf("%s of the new contact is set from %s although %s carries none", field, got, short))
					case got != want:
						bad = append(bad, fmt.Sprintf("%s of the new contact is set from %s, reference: %s", field, c07Or(got, "nothing"), want))
					}
				}
				chk("Pk", pkField)
				chk("Metadata", metaField)
				chk("PublicRendezvousSeed", seedField)
			}
		}
		if stored > 0 || partial {
			// the handler does store the contact on some path: then it must on every path of a
			// well-formed event (right message type, sub-messages present, 32-byte key)
			sort.Strings(unstored)
			for _, how := range c07Uniq(unstored) {
				bad = append(bad, fmt.Sprintf("a path %s without the contact being in the contacts table although the event is well formed: the state write depends on a secondary step", how))
			}
		}
		sort.Strings(bad)
		bad = c07Uniq(bad)
		switch {
		case trunc != "":
			c.undecided("D3", construct+"+new", h.Pos, "abstract evaluation of %s truncated: %s", hn, trunc)
		case stored == 0 && len(bad) == 0 && rets > 0 && rejects == rets:
			c.fail("D3", construct+"+new", h.Pos, "%s, registered for %s, rejects the message type of that event (%s) on every path: the event never reaches the contact's state (reference A.2: -> %s)", hn, short, types.TypeString(msgT, func(p *types.Package) string { return p.Name() }), c07EventState[short])
		case stored == 0 && len(bad) == 0:
			c.fail("D3", construct+"+new", h.Pos, "%s never stores a record in the contacts map for a contact it sees for the first time", hn)
		case len(bad) > 0:
			c.fail("D3", construct+"+new", h.Pos, "%s on a contact seen for the first time: %s", hn, strings.Join(bad, "; "))
		default:
			c.ok("D3", construct+"+new", h.Pos, "%s: newest %s about a contact stores state %s with the event's key%s", hn, short, c07EventState[short], map[bool]string{true: ", seed and metadata", false: ""}[metaField != ""])
		}

		// ---- subject exists (a newer event was already applied)
		bad = nil
		trunc = ""
		returns := 0
		for _, metaNil := range []bool{true, false} {
			for _, seedNil := range []bool{true, false} {
				paths, _, _, why := e.evalHandler(h, ist, stateFields, msgT, c07IdxScenario{Present: true, MetaNil: metaNil, SeedNil: seedNil})
				if why != "" {
					trunc = why
				}
				for _, p := range paths {
					if p.Kind == "truncated" {
						trunc = p.Why
					}
					if p.Kind != "return" {
						continue
					}
					returns++
					for _, k := range p.Deleted {
						bad = append(bad, fmt.Sprintf("the record of an existing contact is deleted from the contacts table (key %s): entries of that table are only dropped by the reset at the start of a re-index", k))
					}
					replaced := p.Weak && len(p.Deleted) == 0
					for _, rec := range p.Inserted {
						if rec["#same"] == "" {
							replaced = true
						}
					}
					if replaced {
						bad = append(bad, "the record of an existing contact is replaced (an older event overrides the newer state)")
					}
					wantMeta, wantSeed := c07PrevMeta, c07PrevSeed
					if metaNil {
						wantMeta = c07Or(metaField, "nil")
					}
					if seedNil {
						wantSeed = c07Or(seedField, "nil")
					}
					if v := p.Existing["."+stateF]; v != c07PrevState {
						bad = append(bad, fmt.Sprintf("the state of an existing contact is overwritten with %s: an older event overrides the state decided by the newest one", stateName(v)))
					}
					if v := p.Existing["."+contactF+".Pk"]; v != c07PrevPk {
						bad = append(bad, "the key of an existing contact is overwritten")
					}
					if v := p.Existing["."+contactF+".Metadata"]; v != wantMeta {
						if metaNil {
							bad = append(bad, fmt.Sprintf("missing Metadata of an existing contact becomes %s, reference: %s", c07Or(v, "an unknown value"), c07Or(metaField, "stays nil")))
						} else {
							bad = append(bad, "Metadata already known from a newer event is overwritten by an older event")
						}
					}
					if v := p.Existing["."+contactF+".PublicRendezvousSeed"]; v != wantSeed {
						if seedNil {
							bad = append(bad, fmt.Sprintf("missing PublicRendezvousSeed of an existing contact becomes %s, reference: %s", c07Or(v, "an unknown value"), c07Or(seedField, "stays nil")))
						} else {
							bad = append(bad, "PublicRendezvousSeed already known from a newer event is overwritten by an older event")
						}
					}
				}
			}
		}
		sort.Strings(bad)
		bad = c07Uniq(bad)
		switch {
		case trunc != "":
			c.undecided("D3", construct+"+existing", h.Pos, "abstract evaluation of %s truncated: %s", hn, trunc)
		case returns == 0:
			c.undecided("D3", construct+"+existing", h.Pos, "abstract evaluation of %s produced no returning path", hn)
		case len(bad) > 0:
			c.fail("D3", construct+"+existing", h.Pos, "%s on a contact that already has a newer event: %s", hn, strings.Join(bad, "; "))
		default:
			msg := "leaves the record untouched"
			if metaField != "" {
				msg = "only fills Metadata and PublicRendezvousSeed when they are nil"
			}
			c.ok("D3", construct+"+existing", h.Pos, "%s: an older %s %s", hn, short, msg)
		}
	}
	return idxPtrT
}

func c07Or(s, alt string) string {
	if s == "" {
		return alt
	}
	return s
}

// ---------------------------------------------------------------------------
// D6: the state reader

// runD6 evaluates every function of the store package that returns the ContactState of a key:
// for a key the index does not know the answer is Undefined, for a known key it is the state
// stored in the record, for a nil key it is Undefined.
func (e *c07Env) runD6(idxPtr types.Type) {
	c := e.c
	ist, _ := idxPtr.Underlying().(*types.Pointer).Elem().Underlying().(*types.Struct)
	stateFields := e.stateMapFields(ist)
	var readers []*ssa.Function
	for _, fn := range e.w.ModFuncs {
		if fnPkg(fn) != nil && fnPkg(fn).Path() == pkgRoot && fn.Parent() == nil && e.stateResults(fn.Signature) != nil {
			readers = append(readers, fn)
		}
	}
	if len(readers) == 0 || len(stateFields) != 1 {
		c.undecided("D6", "state reader", token.NoPos, "no function of %s returns the protocoltypes.ContactState of a key, or the contacts map was not identified", pkgRoot)
		return
	}
	var recT *types.Struct
	stateMapName := ""
	var mapFields []c07MapField
	c07MapFieldsOf(ist, "", 0, &mapFields)
	for _, f := range mapFields {
		if stateFields[f.Path] {
			recT = c07RecordOf(f.Type, e.stateT)
			stateMapName = f.Path
		}
	}
	stateField := ""
	for i := 0; recT != nil && i < recT.NumFields(); i++ {
		if types.Identical(recT.Field(i).Type(), e.stateT) {
			stateField = recT.Field(i).Name()
		}
	}
	if stateField == "" {
		c.undecided("D6", "state reader", token.NoPos, "the contact record type was not identified")
		return
	}
	evaluated := 0
	defer func() {
		if evaluated == 0 {
			c.undecided("D6", "state reader", token.NoPos, "no function of %s returns the protocoltypes.ContactState of a key", pkgRoot)
		}
	}()
	for _, fn := range readers {
		c.analysed(fn)
		rn := fnName(fn)
		si := 0
		for i := 0; i < fn.Signature.Results().Len(); i++ {
			if types.Identical(fn.Signature.Results().At(i).Type(), e.stateT) {
				si = i
			}
		}
		keyParam := ""
		nilable := false
		for _, p := range fn.Params {
			if c07IsCryptoKey(p.Type()) {
				keyParam, nilable = p.Name(), true
			} else if c07IsByteSlice(p.Type()) && keyParam == "" {
				keyParam = p.Name()
			}
		}
		if keyParam == "" {
			c.note("%s returns a ContactState but takes no key; not a state reader", rn)
			continue
		}
		evaluated++
		run := func(present, nilKey bool) (vals []string, trunc string) {
			maps := map[string]c07Map{}
			cfg := EvalConfig{
				MaxDepth: 8, MaxVisits: 12,
				Inline: e.inlineOK,
				Field: func(path string, t types.Type) (AVal, bool) {
					if m, ok := maps[path]; ok {
						return m, true
					}
					switch {
					case path == keyParam && c07IsCryptoKey(t):
						if nilKey {
							return aNil{}, true
						}
						return aNonNil{Tag: "param:" + keyParam}, true
					case path == keyParam && c07IsByteSlice(t):
						return aSym{Path: "param:" + keyParam}, true
					case types.Identical(t, e.groupT):
						return c07MkInt(e.accountGT, t), true
					case c07IsByteSlice(t):
						return aSym{Path: path}, true
					}
					return nil, false
				},
			}
			x := &c07Interp{ev: &Evaluator{W: e.w}}
			ev := x.ev
			ev.st0 = &pstate{heap: map[int]*aObj{}}
			idxObj := ev.newObj(ev.st0, "index")
			var def AVal = c07Absent{}
			if present {
				rec := ev.newObj(ev.st0, "")
				rec.Slots["."+stateField] = aNonNil{Tag: c07PrevState}
				def = aPtr{ID: rec.ID}
			}
			maps["index."+stateMapName] = x.newMap(ev.st0, def)
			cfg.Call = func(ev *Evaluator, st *pstate, k string, cc *ssa.CallCommon, args []AVal) ([]AVal, bool) {
				// the store hands out its index as an interface value
				sig := cc.Signature()
				if sig.Results().Len() == 1 && (cc.IsInvoke() || staticCallee(cc) != nil && !inModule(staticCallee(cc))) {
					if it, ok := sig.Results().At(0).Type().Underlying().(*types.Interface); ok && it.NumMethods() > 0 && types.Implements(idxPtr, it) && e.w.methodOf(idxPtr, "UpdateIndex") != nil {
						for i := 0; i < it.NumMethods(); i++ {
							if it.Method(i).Name() == "UpdateIndex" {
								return []AVal{aIface{V: aPtr{ID: idxObj.ID, Sym: true}, T: idxPtr}}, true
							}
						}
					}
				}
				return e.keyOracle(ev, st, k, cc, args)
			}
			ev.Cfg = cfg
			args := ev.SymbolicArgs(fn)
			for _, o := range x.Eval(fn, args) {
				switch o.Kind {
				case "truncated":
					trunc = o.Why
				case "return":
					if si < len(o.Results) {
						vals = append(vals, c07Ident(o.Results[si]))
					}
				}
			}
			return
		}
		undef := fmt.Sprint(e.stateVal["Undefined"])
		name := func(v string) string {
			var sv int64
			if n, _ := fmt.Sscan(v, &sv); n == 1 {
				if s, ok := e.stateName[sv]; ok {
					return s
				}
			}
			if v == c07PrevState {
				return "the stored state"
			}
			return c07Or(v, "an unknown value")
		}
		check := func(suffix, what, want string, present, nilKey bool) {
			vals, trunc := run(present, nilKey)
			var bad []string
			for _, v := range vals {
				if v != want {
					bad = append(bad, name(v))
				}
			}
			sort.Strings(bad)
			bad = c07Uniq(bad)
			switch {
			case trunc != "":
				c.undecided("D6", rn+suffix, fn.Pos(), "abstract evaluation truncated: %s", trunc)
			case len(vals) == 0:
				c.undecided("D6", rn+suffix, fn.Pos(), "abstract evaluation produced no returning path")
			case len(bad) > 0:
				c.fail("D6", rn+suffix, fn.Pos(), "%s reports %s for %s; reference: %s", rn, strings.Join(bad, " or "), what, name(want))
			default:
				c.ok("D6", rn+suffix, fn.Pos(), "%s: %s", what, name(want))
			}
		}
		check("+unknown", "a key the index has no record for", undef, false, false)
		check("+known", "a contact that has a record in the index", c07PrevState, true, false)
		if nilable {
			check("+nil", "a nil key", undef, false, true)
		}
	}
}

// ---------------------------------------------------------------------------
// D7: the index scan visits every entry

type c07Loop struct {
	Head *ssa.BasicBlock
	Body map[*ssa.BasicBlock]bool
}

// c07Loops: natural loops of fn (back edge t->h with h dominating t), merged per header.
func c07Loops(fn *ssa.Function) []*c07Loop {
	byHead := map[*ssa.BasicBlock]*c07Loop{}
	var order []*ssa.BasicBlock
	for _, t := range fn.Blocks {
		for _, h := range t.Succs {
			if !h.Dominates(t) {
				continue
			}
			l := byHead[h]
			if l == nil {
				l = &c07Loop{Head: h, Body: map[*ssa.BasicBlock]bool{h: true}}
				byHead[h] = l
				order = append(order, h)
			}
			stack := []*ssa.BasicBlock{t}
			for len(stack) > 0 {
				b := stack[len(stack)-1]
				stack = stack[:len(stack)-1]
				if l.Body[b] {
					continue
				}
				l.Body[b] = true
				stack = append(stack, b.Preds...)
			}
		}
	}
	var out []*c07Loop
	for _, h := range order {
		out = append(out, byHead[h])
	}
	return out
}

// c07BoundOnly: v is computed from the loop's own counters and bounds only (constants, phis of
// the loop header, len/cap, arithmetic and comparisons on those, the ok of a range iterator):
// an exit decided by v is the end of the sequence, not a decision about an entry.
func c07BoundOnly(v ssa.Value, l *c07Loop, depth int, seen map[ssa.Value]bool) bool {
	if depth > 8 {
		return false
	}
	if seen[v] {
		return true
	}
	seen[v] = true
	switch x := v.(type) {
	case *ssa.Const:
		return true
	case *ssa.Phi:
		if x.Block() != l.Head {
			return false
		}
		for _, e := range x.Edges {
			if !c07BoundOnly(e, l, depth+1, seen) {
				return false
			}
		}
		return true
	case *ssa.BinOp:
		return c07BoundOnly(x.X, l, depth+1, seen) && c07BoundOnly(x.Y, l, depth+1, seen)
	case *ssa.UnOp:
		return x.Op != token.MUL && x.Op != token.ARROW && c07BoundOnly(x.X, l, depth+1, seen)
	case *ssa.Convert:
		return c07BoundOnly(x.X, l, depth+1, seen)
	case *ssa.Call:
		if b, ok := x.Common().Value.(*ssa.Builtin); ok && (b.Name() == "len" || b.Name() == "cap") {
			// the length of the walked sequence: anything defined outside the loop
			if in, ok := x.Common().Args[0].(ssa.Instruction); ok && in.Block() != nil && l.Body[in.Block()] {
				return false
			}
			return true
		}
	case *ssa.Extract:
		if nx, ok := x.Tuple.(*ssa.Next); ok && x.Index == 0 {
			_ = nx
			return true
		}
	}
	return false
}

// runD7: in the UpdateIndex of the index type, the loop that hands log entries to the event
// handlers is left only at the end of the sequence or towards a returned error. Any other exit
// (break, return nil, goto) makes the state depend on a prefix of the scan: with the
// newest-first scan every older event is lost, contacts vanish and guards decide on Undefined.
// This is also a necessary condition of C04 (state is a function of the whole entry set).
func (e *c07Env) runD7(idxPtr types.Type) {
	c := e.c
	upd := e.w.methodOf(idxPtr, "UpdateIndex")
	if upd == nil || upd.Blocks == nil {
		c.undecided("D7", "UpdateIndex", token.NoPos, "the index type has no UpdateIndex method with a body")
		return
	}
	c.analysed(upd)
	un := fnName(upd)
	// dispatch calls: dynamic calls of a func(message) error taken from a map keyed by EventType
	isDispatch := func(call *ssa.Call) bool {
		cc := call.Common()
		if cc.IsInvoke() || staticCallee(cc) != nil {
			return false
		}
		if _, isB := cc.Value.(*ssa.Builtin); isB {
			return false
		}
		sig := cc.Signature()
		if sig.Params().Len() != 1 || sig.Results().Len() != 1 || !isErrorType(sig.Results().At(0).Type()) {
			return false
		}
		// the type of the functions stored in the handler table
		for _, ht := range e.handlerSigs {
			if types.Identical(cc.Value.Type().Underlying(), ht.Underlying()) {
				return true
			}
		}
		return false
	}
	hasDispatch := map[*ssa.Function]bool{}
	reach := e.w.reachableFuncs([]*ssa.Function{upd}, 3)
	for fn := range reach {
		for _, b := range fn.Blocks {
			for _, in := range b.Instrs {
				if call, ok := in.(*ssa.Call); ok && isDispatch(call) {
					hasDispatch[fn] = true
				}
			}
		}
	}
	// functions from which a dispatch is reachable
	leads := map[*ssa.Function]bool{}
	for fn := range reach {
		for g := range e.w.reachableFuncs([]*ssa.Function{fn}, 3) {
			if hasDispatch[g] {
				leads[fn] = true
			}
		}
	}
	var sites []ssa.Instruction
	// yield: closures of UpdateIndex that are handed to an iterator / visitor and contain the
	// dispatch (range-over-func: the loop body is such a closure, `continue` = return true,
	// `break` / leaving the loop = return false)
	var yields []*ssa.Function
	for _, b := range upd.Blocks {
		for _, in := range b.Instrs {
			call, ok := in.(*ssa.Call)
			if !ok {
				continue
			}
			if isDispatch(call) {
				sites = append(sites, call)
				continue
			}
			if f := staticCallee(call.Common()); f != nil && f != upd && leads[f] {
				sites = append(sites, call)
				continue
			}
			for _, a := range call.Common().Args {
				if mc, ok := a.(*ssa.MakeClosure); ok {
					if f, ok := mc.Fn.(*ssa.Function); ok && f.Parent() == upd && leads[f] {
						sites = append(sites, call)
						yields = append(yields, f)
					}
				}
			}
		}
	}
	if len(sites) == 0 {
		c.undecided("D7", un+"+entry-loop", upd.Pos(), "no dynamic call of a function of the handler table's element type was found in or below %s", un)
		return
	}
	loops := c07Loops(upd)
	var outer *c07Loop
	for _, l := range loops {
		for _, sIn := range sites {
			if l.Body[sIn.Block()] && (outer == nil || len(l.Body) > len(outer.Body)) {
				outer = l
			}
		}
	}
	if outer == nil && len(yields) == 0 {
		c.undecided("D7", un+"+entry-loop", upd.Pos(), "%s calls the event handlers outside any loop: the walk over the log entries was not found", un)
		return
	}
	var bad []string
	exits := 0
	pos := posOf(sites[0])
	// per-entry body given as a function to an iterator: every return asks for the next entry
	for _, y := range yields {
		res := y.Signature.Results()
		if res.Len() != 1 || !isBoolType(res.At(0).Type()) {
			continue // a visitor without stop signal: returning is `continue`
		}
		for _, r := range returnsOf(y) {
			exits++
			var goesOn func(v ssa.Value, d int) bool
			goesOn = func(v ssa.Value, d int) bool {
				if b, ok := constBool(v); ok {
					return b
				}
				if ph, ok := v.(*ssa.Phi); ok && d < 4 {
					for _, ed := range ph.Edges {
						if !goesOn(ed, d+1) {
							return false
						}
					}
					return len(ph.Edges) > 0
				}
				return false
			}
			if goesOn(r.Results[0], 0) {
				continue
			}
			// stopping is fine when a non-nil error is handed to the enclosing function's result
			errOut := false
			for _, in := range r.Block().Instrs {
				if st, ok := in.(*ssa.Store); ok {
					if _, isFV := st.Addr.(*ssa.FreeVar); isFV && isErrorType(st.Val.Type()) && definitelyNonNilErr(st.Val, r.Block(), 0) {
						errOut = true
					}
				}
			}
			if errOut {
				continue
			}
			pos = posOf(r)
			bad = append(bad, c.pos(posOf(r)))
		}
	}
	for _, u := range upd.Blocks {
		if outer == nil || !outer.Body[u] {
			continue
		}
		for _, v := range u.Succs {
			if outer.Body[v] {
				continue
			}
			exits++
			// (a) the end of the sequence
			if ifi, ok := u.Instrs[len(u.Instrs)-1].(*ssa.If); ok && c07BoundOnly(ifi.Cond, outer, 0, map[ssa.Value]bool{}) {
				continue
			}
			// (b) towards returned errors only
			okErr := true
			nret := 0
			for blk := range reachFromEdges([]edge{{u, v}}, nil) {
				if len(blk.Instrs) == 0 || blk == upd.Recover {
					continue
				}
				if r, ok := blk.Instrs[len(blk.Instrs)-1].(*ssa.Return); ok {
					nret++
					if isSuccessReturn(r) {
						okErr = false
					}
				}
			}
			if okErr && nret > 0 {
				continue
			}
			where := posOf(u.Instrs[len(u.Instrs)-1])
			if !where.IsValid() {
				where = posOf(v.Instrs[0])
			}
			pos = where
			bad = append(bad, c.pos(where))
		}
	}
	sort.Strings(bad)
	bad = c07Uniq(bad)
	if len(bad) > 0 {
		c.fail("D7", un+"+entry-loop", pos, "the loop of %s that hands the log entries to the event handlers can be left before the last entry without an error being returned (exit at %s): every entry after that point of the scan is ignored, so the state depends on a prefix of the log (newest-first scan: all older events about every contact are lost once such an entry exists)", un, strings.Join(bad, ", "))
		return
	}
	c.ok("D7", un+"+entry-loop", pos, "the entry loop of %s is left only at the end of the sequence or towards a returned error (%d exit edges)", un, exits)
}

// ---------------------------------------------------------------------------
// D8: callers of the operations fail when the operation fails

// runD8: at every call of one of the seven operations, in a function that has an error
// result, the operation's error is returned (possibly wrapped) on its failing side: a refusal
// by the guards must reach the caller of the RPC / of the contact-request protocol.
func (e *c07Env) runD8(ops []*c07Op) {
	c := e.c
	opSet := map[*ssa.Function]*c07Op{}
	for _, op := range ops {
		opSet[op.Fn] = op
	}
	n := 0
	for _, fn := range e.w.ModFuncs {
		for _, b := range fn.Blocks {
			for _, in := range b.Instrs {
				ci, ok := in.(ssa.CallInstruction)
				if !ok {
					continue
				}
				f := staticCallee(ci.Common())
				op := opSet[f]
				if f == nil || op == nil {
					continue
				}
				construct := fnName(fn) + "->" + op.Ref.Method
				c.analysed(fn)
				n++
				call, isCall := in.(*ssa.Call)
				if !isCall {
					c.fail("D8", construct, posOf(in), "%s is started with go/defer: its refusal cannot reach the caller", op.Ref.Method)
					continue
				}
				if errResultIndex(fn.Signature) < 0 {
					c.fail("D8", construct, posOf(in), "%s calls %s but cannot report its refusal (no error result)", fnName(fn), op.Ref.Method)
					continue
				}
				v := errVerdict(call)
				r := rejectOnFailure(fn, v)
				if !r.OK && len(r.Returns) > 0 && len(r.Escapes) == 0 {
					// the error may travel in a named result cell: `_, err = op(); if err != nil
					// { err = wrap(err) }; return reply, err` fails as well
					kept := true
					for _, ret := range r.Returns {
						if !c07CellKeepsError(fn, v, ret) {
							kept = false
						}
					}
					if kept {
						r.OK, r.Why = true, "the error stays in the result variable on the failing side"
					}
				}
				if r.OK {
					c.ok("D8", construct, posOf(in), "a refusal of %s makes %s fail (%s)", op.Ref.Short, fnName(fn), r.Why)
				} else {
					where := describeReturns(c, r.Returns)
					if where != "" {
						where = " (return at " + where + ")"
					}
					c.fail("D8", construct, posOf(in), "%s can report success although %s refused the operation: %s%s; an illegal transition then looks accepted although nothing was appended", fnName(fn), op.Ref.Method, r.Why, where)
				}
			}
		}
	}
	if n == 0 {
		c.undecided("D8", "callers", token.NoPos, "no call of a contact operation found")
	}
}

// c07CellKeepsError: ret returns the content of a result cell (named error result) that holds
// the verdict v when v is tested, and on every path from the failing side of that test to ret
// the cell is only overwritten with definitely non-nil errors (or with itself).
func c07CellKeepsError(fn *ssa.Function, v ssa.Value, ret *ssa.Return) bool {
	idx := errResultIndex(fn.Signature)
	if idx < 0 || idx >= len(ret.Results) {
		return false
	}
	ld, ok := ret.Results[idx].(*ssa.UnOp)
	if !ok || ld.Op != token.MUL {
		return false
	}
	cell, ok := ld.X.(*ssa.Alloc)
	if !ok || (cell.Heap && closureWrites(cell)) {
		return false
	}
	// the verdict is stored into the cell in the block that tests it (reload pattern)
	var st *ssa.Store
	if v.Referrers() != nil {
		for _, r := range *v.Referrers() {
			if s, ok := r.(*ssa.Store); ok && s.Addr == ssa.Value(cell) && s.Val == v {
				st = s
			}
		}
	}
	if st == nil {
		return false
	}
	ve := edgesOfVerdict(v)
	if len(ve.Reject) == 0 {
		return false
	}
	for _, e := range ve.Reject {
		if e.From != st.Block() {
			return false
		}
		// no other store to the cell after st in that block
		after := false
		for _, in := range e.From.Instrs {
			if in == ssa.Instruction(st) {
				after = true
				continue
			}
			if s2, ok := in.(*ssa.Store); ok && after && s2.Addr == ssa.Value(cell) {
				return false
			}
		}
	}
	isSelfLoad := func(x ssa.Value) bool {
		u, ok := x.(*ssa.UnOp)
		return ok && u.Op == token.MUL && u.X == ssa.Value(cell)
	}
	// forward: state = the cell is definitely non-nil; merge = and
	in := map[*ssa.BasicBlock]bool{}
	var work []*ssa.BasicBlock
	for _, e := range ve.Reject {
		if _, seen := in[e.To]; !seen {
			in[e.To] = true
			work = append(work, e.To)
		}
	}
	out := func(b *ssa.BasicBlock, state bool) bool {
		for _, ins := range b.Instrs {
			if s2, ok := ins.(*ssa.Store); ok && s2.Addr == ssa.Value(cell) {
				switch {
				case isSelfLoad(s2.Val):
				case s2.Val == v:
					state = true
				default:
					state = definitelyNonNilErr(s2.Val, b, 0)
				}
			}
		}
		return state
	}
	for steps := 0; len(work) > 0 && steps < 10000; steps++ {
		b := work[0]
		work = work[1:]
		o := out(b, in[b])
		for _, s := range b.Succs {
			cur, seen := in[s]
			nv := o
			if seen {
				nv = cur && o
			}
			if !seen || nv != cur {
				in[s] = nv
				work = append(work, s)
			}
		}
	}
	state, reached := in[ret.Block()]
	if !reached {
		return true
	}
	// stores in the return block before the final load
	for _, ins := range ret.Block().Instrs {
		if ins == ssa.Instruction(ld) {
			break
		}
		if s2, ok := ins.(*ssa.Store); ok && s2.Addr == ssa.Value(cell) {
			switch {
			case isSelfLoad(s2.Val):
			case s2.Val == v:
				state = true
			default:
				state = definitelyNonNilErr(s2.Val, ret.Block(), 0)
			}
		}
	}
	return state
}

// ---------------------------------------------------------------------------
// D4: CheckFormat

func (e *c07Env) runD4() {
	c := e.c
	fn := e.w.lookupMethod(pkgTypes, "ShareableContact", "CheckFormat")
	optT := namedType(e.w, pkgTypes, "ShareableContactOptions")
	optSeed := c07Const(e.w, pkgTypes, "ShareableContactOptionsAllowMissingRDVSeed")
	optPK := c07Const(e.w, pkgTypes, "ShareableContactOptionsAllowMissingPK")
	if fn == nil || fn.Blocks == nil || optT == nil || optSeed == nil || optPK == nil || len(fn.Params) != 2 {
		c.undecided("D4", "ShareableContact.CheckFormat", token.NoPos, "CheckFormat(options ...ShareableContactOptions) or its option constants not found")
		return
	}
	c.analysed(fn)
	recvName := fn.Params[0].Name()
	type pkCase struct {
		name   string
		length int
		parses bool
	}
	pks := []pkCase{{"missing", 0, false}, {"valid", 32, true}, {"unparsable", 32, false}}
	seeds := []int{0, e.seedLen - 1, e.seedLen, e.seedLen + 1}
	type optCase struct {
		name string
		vals []*types.Const
	}
	opts := []optCase{{"none", nil}, {"AllowMissingRDVSeed", []*types.Const{optSeed}}, {"AllowMissingPK", []*types.Const{optPK}}, {"AllowMissingPK+AllowMissingRDVSeed", []*types.Const{optPK, optSeed}}}
	for _, oc := range opts {
		for _, seed := range seeds {
			for _, pk := range pks {
				construct := fmt.Sprintf("CheckFormat[seed=%d,key=%s,options=%s]", seed, pk.name, oc.name)
				hasSeedOpt, hasPKOpt := false, false
				for _, k := range oc.vals {
					hasSeedOpt = hasSeedOpt || k == optSeed
					hasPKOpt = hasPKOpt || k == optPK
				}
				wantOK := (seed == e.seedLen || seed == 0 && hasSeedOpt) && (pk.length > 0 && pk.parses || pk.length == 0 && hasPKOpt)
				cfg := EvalConfig{
					MaxDepth: 6, MaxVisits: 12,
					Inline: e.inlineOK,
					Field: func(path string, t types.Type) (AVal, bool) {
						switch path {
						case recvName + ".PublicRendezvousSeed":
							return aSlice{Path: path, Len: seed}, true
						case recvName + ".Pk":
							return aSlice{Path: path, Len: pk.length}, true
						}
						return nil, false
					},
					Call: func(ev *Evaluator, st *pstate, k string, cc *ssa.CallCommon, args []AVal) ([]AVal, bool) {
						if c07IsKeyParser(cc) {
							if pk.parses && pk.length > 0 {
								return []AVal{aNonNil{Tag: "key"}, aNil{}}, true
							}
							return []AVal{aNil{}, aNonNil{Tag: "key parse error"}}, true
						}
						// membership of an option in the (fully known) variadic option list
						return e.keyOracle(ev, st, k, cc, args)
					},
				}
				x := &c07Interp{ev: &Evaluator{W: e.w, Cfg: cfg}}
				ev := x.ev
				ev.st0 = &pstate{heap: map[int]*aObj{}}
				recv := aPtr{ID: ev.newObj(ev.st0, recvName).ID, Sym: true}
				var optArg AVal = aNil{}
				if len(oc.vals) > 0 {
					arr := ev.newObj(ev.st0, "")
					for i, k := range oc.vals {
						arr.Slots[fmt.Sprintf("[%d]", i)] = aConst{V: k.Val(), T: optT}
					}
					optArg = aSlice{ID: arr.ID, Len: len(oc.vals)}
				}
				accepted, refused, unknown, trunc := 0, 0, 0, ""
				for _, o := range x.Eval(fn, []AVal{recv, optArg}) {
					switch o.Kind {
					case "truncated":
						trunc = o.Why
					case "return":
						switch {
						case len(o.Results) != 1:
							unknown++
						case c07DefNonNil(o.Results[0]):
							refused++
						default:
							if _, isNil := o.Results[0].(aNil); isNil {
								accepted++
							} else {
								unknown++
							}
						}
					}
				}
				desc := fmt.Sprintf("seed of %d bytes, key %s, options %s", seed, pk.name, oc.name)
				switch {
				case trunc != "":
					c.undecided("D4", construct, fn.Pos(), "abstract evaluation truncated: %s", trunc)
				case unknown > 0 || accepted+refused == 0 || accepted > 0 && refused > 0:
					c.undecided("D4", construct, fn.Pos(), "CheckFormat's verdict for a %s depends on something outside the modelled domain (%d accept, %d refuse, %d unknown paths)", desc, accepted, refused, unknown)
				case wantOK && refused > 0:
					c.fail("D4", construct, fn.Pos(), "CheckFormat refuses a well-formed contact (%s); reference A.3 accepts it", desc)
				case !wantOK && accepted > 0:
					c.fail("D4", construct, fn.Pos(), "CheckFormat accepts a malformed contact (%s); reference A.3 refuses it", desc)
				default:
					c.ok("D4", construct, fn.Pos(), "%s: %s", desc, map[bool]string{true: "accepted", false: "refused"}[wantOK])
				}
			}
		}
	}
}

// ---------------------------------------------------------------------------

func runC07(c *Ctx) {
	e := c07Setup(c)
	if e == nil {
		return
	}
	ops := e.findOps()
	e.runD1(ops)
	e.runD2(ops)
	if idxT := e.runD3(); idxT != nil {
		e.runD6(idxT)
		e.runD7(idxT)
	} else {
		c.undecided("D6", "state reader", token.NoPos, "the index type was not found (no contact handler)")
		c.undecided("D7", "UpdateIndex", token.NoPos, "the index type was not found (no contact handler)")
	}
	e.runD8(ops)
	e.runD4()
	c.note("reference A.1 note 2: enqueue of a Blocked contact appends OutgoingEnqueued (the contact leaves the blocked state); recorded as the reference behaviour")
}
