package main

// SSA toolkit: function lookup by role, callee resolution, module call graph, CFG queries.

import (
	"fmt"
	"go/constant"
	"go/token"
	"go/types"
	"sort"
	"strings"

	"golang.org/x/tools/go/ssa"
)

// ---------- naming ----------

// fnName: short stable name "pkg.(Recv).Name" used in constructs.
func fnName(fn *ssa.Function) string {
	if fn == nil {
		return "<nil>"
	}
	s := fn.String()
	s = strings.ReplaceAll(s, modulePath+"/", "")
	s = strings.ReplaceAll(s, modulePath, "weshnet")
	return s
}

// calleeKey returns a canonical name of the called function/method:
//
//	static function:  "path/pkg.Func" or "(path/pkg.T).M" / "(*path/pkg.T).M"
//	interface invoke: "(path/pkg.I).M"
//	builtin:          "builtin.panic"
func calleeKey(cc *ssa.CallCommon) string {
	if cc.IsInvoke() {
		recv := cc.Value.Type()
		return "(" + types.TypeString(recv, nil) + ")." + cc.Method.Name()
	}
	switch v := cc.Value.(type) {
	case *ssa.Function:
		return funcKey(v)
	case *ssa.Builtin:
		return "builtin." + v.Name()
	case *ssa.MakeClosure:
		if f, ok := v.Fn.(*ssa.Function); ok {
			return funcKey(f)
		}
	}
	return ""
}

func funcKey(f *ssa.Function) string {
	if o := f.Origin(); o != nil {
		f = o
	}
	if obj := f.Object(); obj != nil {
		if fo, ok := obj.(*types.Func); ok {
			return fo.FullName()
		}
	}
	return f.String()
}

// staticCallee returns the statically known callee (function, closure) or nil.
func staticCallee(cc *ssa.CallCommon) *ssa.Function {
	if cc.IsInvoke() {
		return nil
	}
	switch v := cc.Value.(type) {
	case *ssa.Function:
		return v
	case *ssa.MakeClosure:
		if f, ok := v.Fn.(*ssa.Function); ok {
			return f
		}
	}
	return nil
}

// ---------- lookup ----------

// lookupFunc finds a package-level function.
func (w *World) lookupFunc(pkgPath, name string) *ssa.Function {
	p := w.pkg(pkgPath)
	if p == nil {
		return nil
	}
	return p.Func(name)
}

// lookupMethod finds method name on named type (pointer or value receiver) of pkg.
func (w *World) lookupMethod(pkgPath, typeName, method string) *ssa.Function {
	p := w.pkg(pkgPath)
	if p == nil {
		return nil
	}
	m := p.Members[typeName]
	t, ok := m.(*ssa.Type)
	if !ok {
		return nil
	}
	named := t.Type()
	for _, typ := range []types.Type{named, types.NewPointer(named)} {
		ms := w.Prog.MethodSets.MethodSet(typ)
		for i := 0; i < ms.Len(); i++ {
			sel := ms.At(i)
			if sel.Obj().Name() == method {
				if fn := w.Prog.MethodValue(sel); fn != nil {
					if fn.Synthetic != "" && fn.Blocks != nil {
						// wrapper for promoted/embedded method: resolve to declared function
						if fo, ok := sel.Obj().(*types.Func); ok {
							if d := w.Prog.FuncValue(fo); d != nil {
								return d
							}
						}
					}
					return fn
				}
			}
		}
	}
	// generic types: methods are reachable through the object
	if nt, ok := named.(*types.Named); ok {
		for i := 0; i < nt.NumMethods(); i++ {
			if nt.Method(i).Name() == method {
				return w.Prog.FuncValue(nt.Method(i))
			}
		}
	}
	return nil
}

// implementersOf returns the module named types (as T or *T) that implement iface.
func (w *World) implementersOf(iface *types.Interface) []types.Type {
	var out []types.Type
	for _, sp := range w.SPkgs {
		if sp == nil {
			continue
		}
		names := make([]string, 0, len(sp.Members))
		for n := range sp.Members {
			names = append(names, n)
		}
		sort.Strings(names)
		for _, n := range names {
			t, ok := sp.Members[n].(*ssa.Type)
			if !ok {
				continue
			}
			if _, isIface := t.Type().Underlying().(*types.Interface); isIface {
				continue
			}
			if nt, ok := t.Type().(*types.Named); ok && nt.TypeParams().Len() > 0 {
				continue
			}
			if types.Implements(t.Type(), iface) {
				out = append(out, t.Type())
			} else if pt := types.NewPointer(t.Type()); types.Implements(pt, iface) {
				out = append(out, pt)
			}
		}
	}
	return out
}

// methodOf returns the declared function for method name on typ.
func (w *World) methodOf(typ types.Type, name string) *ssa.Function {
	ms := w.Prog.MethodSets.MethodSet(typ)
	for i := 0; i < ms.Len(); i++ {
		sel := ms.At(i)
		if sel.Obj().Name() == name {
			if fo, ok := sel.Obj().(*types.Func); ok {
				if d := w.Prog.FuncValue(fo); d != nil && d.Blocks != nil {
					return d
				}
			}
			return w.Prog.MethodValue(sel)
		}
	}
	return nil
}

// ---------- module call graph (static + CHA restricted to module types) ----------

type callSite struct {
	Caller *ssa.Function
	Instr  ssa.CallInstruction
}

type modCallGraph struct {
	callees map[*ssa.Function][]callEdge
	callers map[*ssa.Function][]callSite
}
type callEdge struct {
	Site   ssa.CallInstruction
	Callee *ssa.Function
}

func (w *World) callGraph() *modCallGraph {
	if w.cg != nil {
		return w.cg
	}
	cg := &modCallGraph{callees: map[*ssa.Function][]callEdge{}, callers: map[*ssa.Function][]callSite{}}
	ifaceCache := map[string][]*ssa.Function{}
	for _, fn := range w.ModFuncs {
		for _, b := range fn.Blocks {
			for _, in := range b.Instrs {
				ci, ok := in.(ssa.CallInstruction)
				if !ok {
					continue
				}
				for _, callee := range w.resolve(ci.Common(), ifaceCache) {
					cg.callees[fn] = append(cg.callees[fn], callEdge{ci, callee})
					cg.callers[callee] = append(cg.callers[callee], callSite{fn, ci})
				}
			}
		}
	}
	w.cg = cg
	return cg
}

// resolve returns the possible module callees of a call: the static callee, or for an
// interface invoke the methods of module types implementing the interface.
func (w *World) resolve(cc *ssa.CallCommon, cache map[string][]*ssa.Function) []*ssa.Function {
	if f := staticCallee(cc); f != nil {
		if o := f.Origin(); o != nil && o.Blocks != nil && f.Blocks == nil {
			f = o
		}
		return []*ssa.Function{f}
	}
	if !cc.IsInvoke() {
		return nil
	}
	it, ok := cc.Value.Type().Underlying().(*types.Interface)
	if !ok {
		return nil
	}
	key := types.TypeString(cc.Value.Type(), nil) + "." + cc.Method.Name()
	if cache != nil {
		if v, ok := cache[key]; ok {
			return v
		}
	}
	var out []*ssa.Function
	for _, t := range w.implementersOf(it) {
		if m := w.methodOf(t, cc.Method.Name()); m != nil && m.Blocks != nil {
			out = append(out, m)
		}
	}
	if cache != nil {
		cache[key] = out
	}
	return out
}

// reachableFuncs returns the module functions reachable from roots (including roots and
// anonymous functions defined inside reachable functions) up to depth.
func (w *World) reachableFuncs(roots []*ssa.Function, depth int) map[*ssa.Function]int {
	cg := w.callGraph()
	dist := map[*ssa.Function]int{}
	var q []*ssa.Function
	for _, r := range roots {
		if r != nil {
			dist[r] = 0
			q = append(q, r)
		}
	}
	for len(q) > 0 {
		f := q[0]
		q = q[1:]
		d := dist[f]
		if depth >= 0 && d >= depth {
			continue
		}
		next := []*ssa.Function{}
		for _, e := range cg.callees[f] {
			next = append(next, e.Callee)
		}
		next = append(next, f.AnonFuncs...)
		for _, n := range next {
			if _, ok := dist[n]; !ok && n.Blocks != nil {
				dist[n] = d + 1
				q = append(q, n)
			}
		}
	}
	return dist
}

// ---------- call-site search ----------

// callsIn returns the call instructions in fn whose calleeKey satisfies match.
func callsIn(fn *ssa.Function, match func(key string, cc *ssa.CallCommon) bool) []ssa.CallInstruction {
	var out []ssa.CallInstruction
	for _, b := range fn.Blocks {
		for _, in := range b.Instrs {
			if ci, ok := in.(ssa.CallInstruction); ok {
				if match(calleeKey(ci.Common()), ci.Common()) {
					out = append(out, ci)
				}
			}
		}
	}
	return out
}

func keyIs(keys ...string) func(string, *ssa.CallCommon) bool {
	return func(k string, _ *ssa.CallCommon) bool {
		for _, x := range keys {
			if k == x {
				return true
			}
		}
		return false
	}
}

// ---------- values ----------

func isNilConst(v ssa.Value) bool {
	c, ok := v.(*ssa.Const)
	return ok && c.Value == nil
}

func constBool(v ssa.Value) (val, ok bool) {
	c, isC := v.(*ssa.Const)
	if !isC || c.Value == nil || c.Value.Kind() != constant.Bool {
		return false, false
	}
	return constant.BoolVal(c.Value), true
}

func constString(v ssa.Value) (string, bool) {
	c, isC := v.(*ssa.Const)
	if !isC || c.Value == nil || c.Value.Kind() != constant.String {
		return "", false
	}
	return constant.StringVal(c.Value), true
}

func constInt(v ssa.Value) (int64, bool) {
	c, isC := v.(*ssa.Const)
	if !isC || c.Value == nil || c.Value.Kind() != constant.Int {
		return 0, false
	}
	return c.Int64(), true
}

// extractOf returns the Extract instructions of tuple value t at index i (all uses).
func extractsOf(t ssa.Value, idx int) []*ssa.Extract {
	var out []*ssa.Extract
	if t.Referrers() == nil {
		return nil
	}
	for _, r := range *t.Referrers() {
		if e, ok := r.(*ssa.Extract); ok && e.Index == idx {
			out = append(out, e)
		}
	}
	return out
}

// resultValue returns the SSA value for result idx of a call (the call itself when it has a
// single result, an Extract otherwise). nil if the result is never extracted.
func resultValue(ci ssa.CallInstruction, idx int) ssa.Value {
	v := ci.Value()
	if v == nil {
		return nil
	}
	if tup, ok := v.Type().(*types.Tuple); ok {
		ex := extractsOf(v, idx)
		if len(ex) == 0 {
			return nil
		}
		_ = tup
		return ex[0]
	}
	if idx == 0 {
		return v
	}
	return nil
}

func nResults(ci ssa.CallInstruction) int {
	sig := ci.Common().Signature()
	return sig.Results().Len()
}

var errorType = types.Universe.Lookup("error").Type()

func isErrorType(t types.Type) bool { return types.Identical(t, errorType) }

// errResultIndex returns the index of the (last) error-typed result of sig, or -1.
func errResultIndex(sig *types.Signature) int {
	for i := sig.Results().Len() - 1; i >= 0; i-- {
		if isErrorType(sig.Results().At(i).Type()) {
			return i
		}
	}
	return -1
}

// ---------- CFG ----------

type edge struct{ From, To *ssa.BasicBlock }

// reach computes the blocks reachable from start without traversing edges in cut.
func reach(start *ssa.BasicBlock, cut map[edge]bool) map[*ssa.BasicBlock]bool {
	seen := map[*ssa.BasicBlock]bool{start: true}
	stack := []*ssa.BasicBlock{start}
	for len(stack) > 0 {
		b := stack[len(stack)-1]
		stack = stack[:len(stack)-1]
		for _, s := range b.Succs {
			if cut[edge{b, s}] || seen[s] {
				continue
			}
			seen[s] = true
			stack = append(stack, s)
		}
	}
	return seen
}

// reachFromEdges computes blocks reachable starting by traversing exactly the given edges.
func reachFromEdges(starts []edge, cut map[edge]bool) map[*ssa.BasicBlock]bool {
	seen := map[*ssa.BasicBlock]bool{}
	var stack []*ssa.BasicBlock
	for _, e := range starts {
		if !seen[e.To] {
			seen[e.To] = true
			stack = append(stack, e.To)
		}
	}
	for len(stack) > 0 {
		b := stack[len(stack)-1]
		stack = stack[:len(stack)-1]
		for _, s := range b.Succs {
			if cut[edge{b, s}] || seen[s] {
				continue
			}
			seen[s] = true
			stack = append(stack, s)
		}
	}
	return seen
}

// retResults returns the values returned by r, looking through the result spill that go/ssa
// introduces in functions with defer (results are stored to locals, deferred calls run, then
// the locals are loaded and returned).
func retResults(r *ssa.Return) []ssa.Value {
	out := make([]ssa.Value, len(r.Results))
	for i, v := range r.Results {
		out[i] = v
		ld, ok := v.(*ssa.UnOp)
		if !ok || ld.Op != token.MUL {
			continue
		}
		al, ok := ld.X.(*ssa.Alloc)
		if !ok || (al.Heap && closureWrites(al)) {
			continue
		}
		// last store to the alloc in this block before the load
		var last ssa.Value
		for _, in := range r.Block().Instrs {
			if in == ssa.Instruction(ld) {
				break
			}
			if st, ok := in.(*ssa.Store); ok && st.Addr == ssa.Value(al) {
				last = st.Val
			}
		}
		if last != nil {
			out[i] = last
		}
	}
	return out
}

// closureWrites: a heap cell (named result captured by a closure, typically a deferred one)
// is written by one of the closures that capture it, or escapes in another way; then the
// value stored before the return is not necessarily the value returned.
func closureWrites(al *ssa.Alloc) bool {
	if al.Referrers() == nil {
		return false
	}
	for _, r := range *al.Referrers() {
		switch u := r.(type) {
		case *ssa.Store:
			if u.Val == ssa.Value(al) {
				return true // address stored somewhere
			}
		case *ssa.UnOp, *ssa.DebugRef:
		case *ssa.MakeClosure:
			f, ok := u.Fn.(*ssa.Function)
			if !ok {
				return true
			}
			for i, b := range u.Bindings {
				if b != ssa.Value(al) || i >= len(f.FreeVars) {
					continue
				}
				fv := f.FreeVars[i]
				if fv.Referrers() == nil {
					continue
				}
				for _, fr := range *fv.Referrers() {
					switch x := fr.(type) {
					case *ssa.Store:
						if x.Addr == ssa.Value(fv) {
							return true
						}
					case *ssa.UnOp, *ssa.DebugRef:
					default:
						return true // passed on: unknown
					}
				}
			}
		default:
			return true
		}
	}
	return false
}

// returnsOf lists the return instructions of fn, excluding the synthetic recover block.
func returnsOf(fn *ssa.Function) []*ssa.Return {
	var out []*ssa.Return
	for _, b := range fn.Blocks {
		if len(b.Instrs) == 0 || b == fn.Recover {
			continue
		}
		if r, ok := b.Instrs[len(b.Instrs)-1].(*ssa.Return); ok {
			out = append(out, r)
		}
	}
	return out
}

// instrDominates reports whether instruction a is executed before b on every path to b.
func instrDominates(a, b ssa.Instruction) bool {
	ba, bb := a.Block(), b.Block()
	if ba == bb {
		for _, in := range ba.Instrs {
			if in == a {
				return true
			}
			if in == b {
				return false
			}
		}
		return false
	}
	return ba.Dominates(bb)
}

// polarEdges: for a verdict value v, returns the CFG edges taken when v is "accepting"
// (bool true / error nil / pointer non-nil per wantNonNil) and when it is "rejecting".
// ifs lists the If instructions that test v.
type verdictEdges struct {
	Accept, Reject []edge
	Ifs            []*ssa.If
}

// condPolarity analyses cond as a test of v. It returns (truth of cond => v accepting?, ok).
// accepting means: for bool v: v==true; for error/pointer v: v==nil.
func condPolarity(cond ssa.Value, v ssa.Value, depth int) (acceptOnTrue bool, ok bool) {
	if depth > 4 {
		return false, false
	}
	if cond == v {
		return true, true
	}
	switch c := cond.(type) {
	case *ssa.UnOp:
		if c.Op == token.NOT {
			a, ok := condPolarity(c.X, v, depth+1)
			return !a, ok
		}
	case *ssa.BinOp:
		if c.Op == token.EQL || c.Op == token.NEQ {
			var other ssa.Value
			if c.X == v {
				other = c.Y
			} else if c.Y == v {
				other = c.X
			} else {
				return false, false
			}
			if isNilConst(other) {
				// v == nil accepting-on-true ; v != nil accepting-on-false
				return c.Op == token.EQL, true
			}
			if bv, isB := constBool(other); isB {
				// v == true => accept on true
				return (c.Op == token.EQL) == bv, true
			}
		}
	}
	return false, false
}

func edgesOfVerdict(v ssa.Value) verdictEdges {
	var out verdictEdges
	seen := map[ssa.Value]bool{}
	aliases := []ssa.Value{v}
	isAlias := map[ssa.Value]bool{v: true}
	var visit func(x ssa.Value, neg bool)
	visit = func(x ssa.Value, neg bool) {
		if x == nil || seen[x] || x.Referrers() == nil {
			return
		}
		seen[x] = true
		for _, r := range *x.Referrers() {
			switch u := r.(type) {
			case *ssa.Store:
				// verdict spilled into a cell (named result) and reloaded in the same block
				al, isAl := u.Addr.(*ssa.Alloc)
				if !isAl || u.Val != x || !isAlias[x] {
					continue
				}
				after := false
				for _, in := range u.Block().Instrs {
					if in == ssa.Instruction(u) {
						after = true
						continue
					}
					if !after {
						continue
					}
					if st2, ok := in.(*ssa.Store); ok && st2.Addr == ssa.Value(al) {
						break
					}
					if _, isCall := in.(ssa.CallInstruction); isCall && al.Heap && closureWrites(al) {
						break
					}
					if ld, ok := in.(*ssa.UnOp); ok && ld.Op == token.MUL && ld.X == ssa.Value(al) {
						isAlias[ld] = true
						aliases = append(aliases, ld)
						visit(ld, neg)
					}
				}
			case *ssa.If:
				acc, ok := false, false
				for _, a := range aliases {
					if acc, ok = condPolarity(u.Cond, a, 0); ok {
						break
					}
				}
				if !ok {
					continue
				}
				out.Ifs = append(out.Ifs, u)
				b := u.Block()
				if acc {
					out.Accept = append(out.Accept, edge{b, b.Succs[0]})
					out.Reject = append(out.Reject, edge{b, b.Succs[1]})
				} else {
					out.Accept = append(out.Accept, edge{b, b.Succs[1]})
					out.Reject = append(out.Reject, edge{b, b.Succs[0]})
				}
			case *ssa.UnOp:
				if u.Op == token.NOT {
					visit(u, !neg)
				}
			case *ssa.BinOp:
				if u.Op == token.EQL || u.Op == token.NEQ {
					visit(u, neg)
				}
			}
		}
	}
	visit(v, false)
	return out
}

// ---------- error-return classification ----------

// definitelyNonNilErr: v (an error-typed value) can be shown non-nil at block at.
func definitelyNonNilErr(v ssa.Value, at *ssa.BasicBlock, depth int) bool {
	if depth > 6 || v == nil {
		return false
	}
	switch x := v.(type) {
	case *ssa.Const:
		return false
	case *ssa.MakeInterface:
		// interface holding a non-pointer, non-interface concrete value is non-nil
		switch x.X.Type().Underlying().(type) {
		case *types.Pointer, *types.Interface, *types.Map, *types.Slice, *types.Chan, *types.Signature:
			if _, isAlloc := x.X.(*ssa.Alloc); isAlloc {
				return true
			}
			return false
		}
		return true
	case *ssa.ChangeInterface:
		return definitelyNonNilErr(x.X, at, depth+1)
	case *ssa.UnOp:
		// package-level error sentinels (io.EOF, io.ErrShortBuffer, ...) are never nil
		if x.Op == token.MUL {
			if g, ok := x.X.(*ssa.Global); ok {
				if p, ok := g.Type().(*types.Pointer); ok && isErrorType(p.Elem()) {
					return true
				}
			}
		}
	case *ssa.Call:
		k := calleeKey(x.Common())
		switch {
		case k == "fmt.Errorf", k == "errors.New",
			strings.HasSuffix(k, "pkg/errcode.ErrCode).Wrap"),
			strings.HasPrefix(k, "github.com/pkg/errors."):
			return true
		}
	case *ssa.Phi:
		for _, e := range x.Edges {
			if !definitelyNonNilErr(e, at, depth+1) {
				return false
			}
		}
		return len(x.Edges) > 0
	}
	// dominated by the non-nil side of a test of v
	if at != nil {
		ve := edgesOfVerdict(v)
		for _, e := range ve.Reject {
			if edgeDominates(e, at) {
				return true
			}
		}
	}
	return false
}

// edgeDominates: every path to blk goes through edge e.
func edgeDominates(e edge, blk *ssa.BasicBlock) bool {
	// true when e.To has e.From as single predecessor and e.To dominates blk, or generally
	// when removing e makes blk unreachable from entry.
	if len(e.To.Preds) == 1 && e.To.Dominates(blk) {
		return true
	}
	fn := e.From.Parent()
	r := reach(fn.Blocks[0], map[edge]bool{e: true})
	return !r[blk]
}

// isSuccessReturn: the return may be taken with a nil error (or the function has no error result).
func isSuccessReturn(r *ssa.Return) bool {
	fn := r.Parent()
	idx := errResultIndex(fn.Signature)
	if idx < 0 {
		return true
	}
	res := retResults(r)
	if idx >= len(res) {
		return true
	}
	return !definitelyNonNilErr(res[idx], r.Block(), 0)
}

// ---------- misc ----------

func posOf(in ssa.Instruction) token.Pos {
	if in == nil {
		return token.NoPos
	}
	if p := in.Pos(); p.IsValid() {
		return p
	}
	if ci, ok := in.(ssa.CallInstruction); ok {
		if p := ci.Common().Pos(); p.IsValid() {
			return p
		}
	}
	// fall back to any positioned instruction in the block, then the function
	for _, x := range in.Block().Instrs {
		if x.Pos().IsValid() {
			return x.Pos()
		}
	}
	return in.Parent().Pos()
}

func must[T any](v T, err error) T {
	if err != nil {
		panic(err)
	}
	return v
}

var _ = fmt.Sprintf
