package main

import (
	"fmt"
	"go/ast"
	"go/parser"
	"go/token"
	"go/types"
	"os"
	"sort"
	"strings"
	"sync"

	"golang.org/x/tools/go/packages"
	"golang.org/x/tools/go/ssa"
	"golang.org/x/tools/go/ssa/ssautil"
)

// loadWorld loads ./... of repoDir (default build context, no tests), type-checks it and
// builds SSA with bodies for the module packages. overlay maps absolute file names to
// replacement contents (used only by the self-test).
func loadWorld(repoDir string, overlay map[string][]byte) (*World, error) {
	os.Unsetenv("GOWORK")
	env := append(os.Environ(), "GOFLAGS=-mod=mod", "GOPROXY=off", "GOWORK=off")
	fset := token.NewFileSet()
	cfg := &packages.Config{
		Mode:    packages.LoadSyntax,
		Dir:     repoDir,
		Tests:   false,
		Fset:    fset,
		Env:     env,
		Overlay: overlay,
	}
	pkgs, err := packages.Load(cfg, "./...")
	if err != nil {
		return nil, fmt.Errorf("load: %w", err)
	}
	if len(pkgs) == 0 {
		return nil, fmt.Errorf("load: zero packages matched ./... in %s", repoDir)
	}
	var errs []string
	packages.Visit(pkgs, nil, func(p *packages.Package) {
		for _, e := range p.Errors {
			errs = append(errs, p.PkgPath+": "+e.Error())
		}
	})
	if len(errs) > 0 {
		if len(errs) > 8 {
			errs = errs[:8]
		}
		return nil, fmt.Errorf("load: type errors in /repo:\n  %s", strings.Join(errs, "\n  "))
	}
	sort.Slice(pkgs, func(i, j int) bool { return pkgs[i].PkgPath < pkgs[j].PkgPath })
	return worldFromPackages(repoDir, fset, pkgs)
}

func worldFromPackages(repoDir string, fset *token.FileSet, pkgs []*packages.Package) (*World, error) {
	prog, spkgs := ssautil.Packages(pkgs, ssa.InstantiateGenerics)
	prog.Build()
	w := &World{RepoDir: repoDir, Fset: fset, Pkgs: pkgs, Prog: prog, SPkgs: spkgs, PkgCount: len(pkgs), byPkg: map[string]*ssa.Package{}, memo: map[string]any{}}
	for _, sp := range spkgs {
		if sp != nil {
			w.byPkg[sp.Pkg.Path()] = sp
		}
	}
	all := ssautil.AllFunctions(prog)
	for fn := range all {
		if fn.Blocks == nil {
			continue
		}
		if p := fnPkg(fn); p != nil && w.byPkg[p.Path()] != nil && strings.HasPrefix(p.Path(), modulePath) {
			w.ModFuncs = append(w.ModFuncs, fn)
		}
	}
	// generic types: AllFunctions reaches their methods only as instantiations; add the
	// generic origin bodies (and their anonymous functions) so that rules see them
	have := map[*ssa.Function]bool{}
	for _, fn := range w.ModFuncs {
		have[fn] = true
	}
	var addFn func(fn *ssa.Function)
	addFn = func(fn *ssa.Function) {
		if fn == nil || fn.Blocks == nil || have[fn] {
			return
		}
		have[fn] = true
		w.ModFuncs = append(w.ModFuncs, fn)
		for _, a := range fn.AnonFuncs {
			addFn(a)
		}
	}
	for _, sp := range spkgs {
		if sp == nil || !strings.HasPrefix(sp.Pkg.Path(), modulePath) {
			continue
		}
		for _, m := range sp.Members {
			t, ok := m.(*ssa.Type)
			if !ok {
				continue
			}
			nt, ok := t.Type().(*types.Named)
			if !ok || nt.TypeParams().Len() == 0 {
				continue
			}
			for i := 0; i < nt.NumMethods(); i++ {
				addFn(prog.FuncValue(nt.Method(i)))
			}
		}
	}
	sort.Slice(w.ModFuncs, func(i, j int) bool {
		a, b := w.ModFuncs[i], w.ModFuncs[j]
		if a.String() != b.String() {
			return a.String() < b.String()
		}
		return a.Pos() < b.Pos()
	})
	if len(w.ModFuncs) == 0 {
		return nil, fmt.Errorf("load: no module functions with bodies")
	}
	return w, nil
}

// fnPkg returns the types.Package a function belongs to (following parents for closures and
// origins for instantiations).
func fnPkg(fn *ssa.Function) *types.Package {
	for f := fn; f != nil; f = f.Parent() {
		if f.Pkg != nil {
			return f.Pkg.Pkg
		}
		if o := f.Origin(); o != nil && o.Pkg != nil {
			return o.Pkg.Pkg
		}
		if f.Object() != nil && f.Object().Pkg() != nil {
			return f.Object().Pkg()
		}
	}
	return nil
}

func (w *World) pkg(path string) *ssa.Package { return w.byPkg[path] }

func (w *World) typesPkg(path string) *types.Package {
	if p := w.byPkg[path]; p != nil {
		return p.Pkg
	}
	return nil
}

// ---------------------------------------------------------------------------
// Fast reload for overlay variants (self-test only): the module packages are re-parsed and
// re-type-checked in-process against the dependency type information of a baseline load, so
// that no `go list` run is needed per variant.

var baseWorldCache = struct {
	sync.Mutex
	w map[string]*World
}{w: map[string]*World{}}

func baselineWorld(repoDir string) (*World, error) {
	baseWorldCache.Lock()
	defer baseWorldCache.Unlock()
	if w, ok := baseWorldCache.w[repoDir]; ok {
		return w, nil
	}
	w, err := loadWorld(repoDir, nil)
	if err != nil {
		return nil, err
	}
	baseWorldCache.w[repoDir] = w
	return w, nil
}

type fastImporter struct {
	base    *World
	fset    *token.FileSet
	overlay map[string][]byte
	done    map[string]*packages.Package
	basePkg map[string]*packages.Package
	errs    []string
}

func (fi *fastImporter) Import(path string) (*types.Package, error) {
	if bp, ok := fi.basePkg[path]; ok && strings.HasPrefix(path, modulePath) && len(bp.Syntax) > 0 {
		p, err := fi.check(bp)
		if err != nil {
			return nil, err
		}
		return p.Types, nil
	}
	if bp, ok := fi.basePkg[path]; ok {
		// a dependency that no module package imported in the baseline load has only a stub
		// (*types.Package without name/scope): let the caller fall back to a full load
		if bp.Types == nil || !bp.Types.Complete() || bp.Types.Name() == "" {
			return nil, fmt.Errorf("fast reload: unknown import %q", path)
		}
		return bp.Types, nil
	}
	if path == "unsafe" {
		return types.Unsafe, nil
	}
	return nil, fmt.Errorf("fast reload: unknown import %q", path)
}

func (fi *fastImporter) check(bp *packages.Package) (*packages.Package, error) {
	if p, ok := fi.done[bp.PkgPath]; ok {
		if p == nil {
			return nil, fmt.Errorf("import cycle through %s", bp.PkgPath)
		}
		return p, nil
	}
	fi.done[bp.PkgPath] = nil
	var files []*ast.File
	for _, name := range bp.CompiledGoFiles {
		var src any
		if b, ok := fi.overlay[name]; ok {
			src = b
		}
		f, err := parser.ParseFile(fi.fset, name, src, parser.ParseComments|parser.SkipObjectResolution)
		if err != nil {
			return nil, err
		}
		files = append(files, f)
	}
	info := &types.Info{
		Types:        map[ast.Expr]types.TypeAndValue{},
		Defs:         map[*ast.Ident]types.Object{},
		Uses:         map[*ast.Ident]types.Object{},
		Implicits:    map[ast.Node]types.Object{},
		Instances:    map[*ast.Ident]types.Instance{},
		Scopes:       map[ast.Node]*types.Scope{},
		Selections:   map[*ast.SelectorExpr]*types.Selection{},
		FileVersions: map[*ast.File]string{},
	}
	var firstErr error
	conf := types.Config{Importer: fi, Sizes: bp.TypesSizes, GoVersion: "", Error: func(err error) {
		if firstErr == nil {
			firstErr = err
		}
	}}
	if bp.Module != nil && bp.Module.GoVersion != "" {
		conf.GoVersion = "go" + bp.Module.GoVersion
	}
	tp, _ := conf.Check(bp.PkgPath, fi.fset, files, info)
	if firstErr != nil {
		return nil, firstErr
	}
	np := &packages.Package{ID: bp.ID, Name: bp.Name, PkgPath: bp.PkgPath, GoFiles: bp.GoFiles, CompiledGoFiles: bp.CompiledGoFiles,
		Fset: fi.fset, Syntax: files, Types: tp, TypesInfo: info, TypesSizes: bp.TypesSizes, Module: bp.Module, Imports: map[string]*packages.Package{}}
	for ip, dep := range bp.Imports {
		if d, ok := fi.done[dep.PkgPath]; ok && d != nil {
			np.Imports[ip] = d
		} else {
			np.Imports[ip] = dep
		}
	}
	fi.done[bp.PkgPath] = np
	return np, nil
}

func loadWorldFast(repoDir string, overlay map[string][]byte) (*World, error) {
	base, err := baselineWorld(repoDir)
	if err != nil {
		return nil, err
	}
	fi := &fastImporter{base: base, fset: token.NewFileSet(), overlay: overlay, done: map[string]*packages.Package{}, basePkg: map[string]*packages.Package{}}
	packages.Visit(base.Pkgs, nil, func(p *packages.Package) { fi.basePkg[p.PkgPath] = p })
	var pkgs []*packages.Package
	for _, bp := range base.Pkgs {
		np, err := fi.check(bp)
		if err != nil {
			if strings.Contains(err.Error(), "fast reload: unknown import") {
				// the variant imports a package nothing imported before: a full load resolves it
				return loadWorld(repoDir, overlay)
			}
			return nil, fmt.Errorf("load: type errors in variant:\n  %v", err)
		}
		pkgs = append(pkgs, np)
	}
	return worldFromPackages(repoDir, fi.fset, pkgs)
}
