package main

// C14: push (out-of-store) payloads open offline to the right message without disturbing
// the log path. All subjects are found by role: the exported SecretStore methods, the
// datastore namespace constants reaching a key, resolved library callees (secretbox, Verify,
// hkdf/hmac), and the generated protocol types. Unexported names appear in messages only.

import (
	"fmt"
	"go/token"
	"go/types"
	"sort"
	"strings"

	"golang.org/x/tools/go/ssa"
)

const (
	keyCidFromBytes  = "github.com/ipfs/go-cid.CidFromBytes"
	keyHKDFNew       = "golang.org/x/crypto/hkdf.New"
	keyHMACNew       = "crypto/hmac.New"
	keyNonceToArray  = modulePath + "/pkg/cryptoutil.NonceSliceToArray"
	keyKeyToArray    = modulePath + "/pkg/cryptoutil.KeySliceToArray"
	keyOpenOOSIface  = "(" + pkgSecret + ".SecretStore).OpenOutOfStoreMessage"
	keyOpenPayIface  = "(" + pkgSecret + ".SecretStore).OpenEnvelopePayload"
	keyUpdRefsIface  = "(" + pkgSecret + ".SecretStore).UpdateOutOfStoreGroupReferences"
	c14LabelKDFConst = "push_secret_ref" // KDF label constant of the package, not a namespace
)

func init() {
	register(&PropertyDef{
		ID:    "C14",
		Title: "Push payloads open offline to the right message without disturbing the log path",
		Explanation: "Decides, from the type-checked SSA of /repo, structural necessary conditions of the push (out-of-store) path behind SecretStore.OpenOutOfStoreMessage / SealOutOfStoreMessageEnvelope / UpdateOutOfStoreGroupReferences. " +
			"(D1) consumes nothing: the transitive datastore effect summary of the push open entry point contains no Delete on the precomputed-key namespace, no write to the by-CID or chain-key namespaces and no Delete of a group record; every other Put/Delete it contains carries a known namespace label (an unlabelled write is an analysis failure, not a pass); expected are Put/Commit[precomputedMessageKeys] (re-derivation of the next key) and the two push-hint namespaces. " +
			"(D2) signature always checked: every success return of the push open entry point passes the accepting side of a Verify (through callee summaries), with no 'already decrypted' shortcut; that Verify is over the bytes produced by the payload secretbox.Open (and those bytes are the ones returned), with the signature field of the push message and the key decoded from its DevicePk; both verdicts reject. " +
			"(D3) truthful flag: the boolean returned by the entry point is, on every success return, the negation of the 'newly decrypted' flag (traced through callee returns, negations and constant returns dominated by a test of the flag); on the push path that flag is created true and cleared only on the accepting side of the by-CID key lookup, whose CID is decoded from the push message's own Cid field; both OutOfStoreReceive handlers copy the boolean un-negated into AlreadyReceived. " +
			"(D4) reject paths: every success return of the entry point passes the accepting side of the group-reference lookup, the group record lookup, the envelope box, the message-key lookup (by CID or precomputed) and the payload box; every decoder error (protobuf, CID, Ed25519 key, nonce/key array) in the push scope rejects. " +
			"(D5) reference agreement: sealer and reference store compute the reference with the same function, the sealer from (group, headers.DevicePk, headers.Counter), the store from (group, sender parameter, a counter derived from the 'first' parameter and the window size); the stored value is the group public key; Put, Delete and Get of a reference build the datastore key with the same constructor; the reference digest depends on the group secret, the sender and the counter; the window is two-sided; every caller that opens a message through the log or through a push slides the window with the (DevicePk, Counter) pair of that same message. " +
			"(D6) message-field agreement: the sealer fills Cid/DevicePk/Counter/Sig/EncryptedPayload of the push message from id/headers.DevicePk/headers.Counter/headers.Sig/env.Message, seals the marshalled push message with the group secret (the opener opens with the group's shared secret, the envelope's own Nonce and Box) and stores in the envelope the nonce and box of that very Seal call; the headers rebuilt on the push path map field to same-named field; helpers shared by the log path and the push path receive device key, group key and counter in the same argument positions on both. " +
			"(D7) atomic window update: behind UpdateOutOfStoreGroupReferences the read of the recorded first/last counters, every Put/Delete of a reference and the write of the new first/last record run with the store's message mutex write-locked on every call path, and the mutex is not released between two of them (read-modify-write of the window in one critical section). " +
			"(D8) the window follows authenticated messages only: every call of UpdateOutOfStoreGroupReferences with a message's Counter is dominated on every call path by the accepting side of the call that opened and authenticated that message (OpenEnvelopePayload on the log path, a function whose success returns all pass an accepted Verify on the push path). " +
			"(D9) registration window: a call of UpdateOutOfStoreGroupReferences whose counter is not a message's Counter must read it from the very DeviceChainKey value that is written to the chain-key namespace before the call (or from a chain key read from the store); the written value is tracked through module helpers (a helper that stores its parameter: the argument; a helper that stores a key it computed: the value it returns on every success return, nil meaning nothing written, whatever other results accompany it), to depth 3, looking through local cells such as named results spilled by a defer: the window is centred on the persisted, window-advanced counter, which is what puts every precomputed key of a newly registered sender inside it; a counter of any other origin is an analysis failure. " +
			"Sources (D3 cid-source, D5 store side, D6) are stated in terms of the entry point: a helper entered through a single static call site inside the push-open scope (or the reference-store scope) has its non-message parameters (keys, CIDs, counters, counter lists) substituted by the arguments of that call, results of module decode/compute helpers looked into; protocol messages are terminal (roles are written Type.Field on them); the sender device key is a key decoded from a DevicePk field. " +
			"D2's Verify clauses are judged per push-path call site: parameters of a (shared) helper are mapped to the arguments of the call chain that starts at the push entry point, never to the union of all callers. " +
			"(D10) key separation: every datastore-key constructor of the secret store (function of the package returning a datastore.Key built under one of its namespace constants) lets each of its parameters reach the key, so that the window record, the references, the precomputed keys and the chain keys of different groups, devices and counters never share a key. " +
			"(D11) configured datastore: wherever a secret store is built by default from a field of a configuration or service object (NewSecretStore(obj.F, ...), both API routes), every assignment of obj.F that can run before it - in the function, in functions the object is handed to, and in option functions reached through package-level function variables and option tables - is confined to the nil side of a test of obj.F (written directly or as a predicate function of the object); an unresolvable function value is an analysis failure. " +
			"Not decided: the window statement for all histories (loop arithmetic over runtime data), absence of network access, that NaCl/Ed25519 reject every altered bit, equality of payload bytes for all sizes.",
		Trusted:     []string{"nacl/secretbox, Ed25519 (libp2p crypto), HKDF/SHA3", "go/packages+go/ssa (x/tools v0.29.0)", "go-datastore Get/Put/Delete semantics", "effects identified by the namespace constants of pkg/secretstore"},
		Assumptions: []string{"the 'newly decrypted' flag is only stored where C01.D2 says (checked there for the whole module, here again for the push scope)", "interface calls on SecretStore resolve to the module implementation"},
		Floors:      map[string]int{"D1": 8, "D2": 5, "D3": 7, "D4": 14, "D5": 14, "D6": 15, "D7": 5, "D8": 2, "D9": 1, "D10": 10, "D11": 2},
		Run:         runC14,
	})
}

// ---------------------------------------------------------------------------
// helpers

// c14TypeName: short name of a (pointer to a) named type, else the type string.
func c14TypeName(t types.Type) string {
	t = types.Unalias(t)
	if p, ok := t.(*types.Pointer); ok {
		t = types.Unalias(p.Elem())
	}
	if n, ok := t.(*types.Named); ok {
		return n.Obj().Name()
	}
	return types.TypeString(t, nil)
}

// c14Chains: for the helpers of an entry point (push open, reference store, push seal) that are
// entered through exactly one static call site inside that entry point's own scope, the call
// chain from the entry point. Sources of a value are then stated in terms of the entry point:
// a helper parameter stands for the argument of that call, never for the union of all callers.
type c14Chains map[*ssa.Function][]c14Frame

func c14ChainsOf(w *World) c14Chains {
	ch, _ := w.memo["c14chains"].(c14Chains)
	return ch
}

// c14AddChains records the chains below root over the functions accepted by inScope.
func c14AddChains(w *World, root *ssa.Function, inScope func(*ssa.Function) bool) {
	ch := c14ChainsOf(w)
	if ch == nil {
		ch = c14Chains{}
		w.memo["c14chains"] = ch
	}
	// call sites per callee among the in-scope functions reachable from root
	sites := map[*ssa.Function][]*ssa.Call{}
	seen := map[*ssa.Function]bool{root: true}
	q := []*ssa.Function{root}
	for len(q) > 0 {
		f := q[0]
		q = q[1:]
		for _, b := range f.Blocks {
			for _, in := range b.Instrs {
				call, ok := in.(*ssa.Call)
				if !ok {
					continue
				}
				g := staticCallee(call.Common())
				if g == nil || g == root || g.Blocks == nil || !inScope(g) {
					continue
				}
				sites[g] = append(sites[g], call)
				if !seen[g] {
					seen[g] = true
					q = append(q, g)
				}
			}
		}
	}
	if _, has := ch[root]; !has {
		ch[root] = []c14Frame{{root, nil}}
	}
	for changed := true; changed; {
		changed = false
		for g, cs := range sites {
			if len(cs) != 1 {
				continue
			}
			if _, done := ch[g]; done {
				continue
			}
			if up, ok := ch[cs[0].Parent()]; ok && len(up) < 6 {
				ch[g] = append(append([]c14Frame(nil), up...), c14Frame{g, cs[0]})
				changed = true
			}
		}
	}
}

// c14Up: v of fn as the value it denotes along fn's chain (bare parameters replaced by the
// call-site arguments), with the function that value lives in and the chain up to it.
func c14Up(w *World, fn *ssa.Function, v ssa.Value) (ssa.Value, *ssa.Function, []c14Frame) {
	frames := c14ChainsOf(w)[fn]
	if len(frames) == 0 {
		return c14Resolve(v, 0), fn, nil
	}
	v2, f2 := c14ResolveUp(v, frames)
	for i := len(frames) - 1; i >= 0; i-- {
		if frames[i].fn == f2 {
			return v2, f2, frames[:i+1]
		}
	}
	return v2, f2, nil
}

// c14Roles: the parameter-rooted sources of v in fn as "Type" / "Type.Field.Sub" (parameter
// names do not matter), sorted; plus the root set. When fn is a helper on a recorded chain the
// sources are those of the chain's entry point: parameters are substituted by the arguments
// of the call that entered the helper (results of module helpers are looked into).
func c14Roles(w *World, fn *ssa.Function, v ssa.Value, inline bool) ([]string, RootSet) {
	v2, f2, frames := c14Up(w, fn, v)
	seen := map[string]bool{}
	rs := c14RolesOn(w, f2, v2, inline, frames, seen, 0)
	var out []string
	for k := range seen {
		out = append(out, k)
	}
	sort.Strings(out)
	return out, rs
}

// c14IsAnchorType: protocol messages (and the store itself) are what roles are expressed in:
// "OutOfStoreMessage.Sig" is a terminal role whichever function holds the message, so a
// parameter of such a type is never substituted by the caller's (usually local) object.
func c14IsAnchorType(t types.Type) bool {
	t = types.Unalias(t)
	if p, ok := t.(*types.Pointer); ok {
		t = types.Unalias(p.Elem())
	}
	n, ok := t.(*types.Named)
	if !ok || n.Obj().Pkg() == nil {
		return false
	}
	pp := n.Obj().Pkg().Path()
	return pp == pkgTypes || pp == pkgSecret
}

// c14RolesLocal: sources of v in fn's own terms (no chain substitution).
func c14RolesLocal(w *World, fn *ssa.Function, v ssa.Value, inline bool) ([]string, RootSet) {
	seen := map[string]bool{}
	rs := c14RolesOn(w, fn, c14Resolve(v, 0), inline, nil, seen, 0)
	var out []string
	for k := range seen {
		out = append(out, k)
	}
	sort.Strings(out)
	return out, rs
}

func c14RolesOn(w *World, fn *ssa.Function, v ssa.Value, inline bool, frames []c14Frame, seen map[string]bool, depth int) RootSet {
	v = c14Resolve(v, 0)
	rs := rootsOf(provCfg{W: w, InlineResults: inline}, v)
	out := RootSet{}
	var call *ssa.Call
	if n := len(frames); n > 0 && frames[n-1].fn == fn && depth < 6 {
		call = frames[n-1].call
	}
	for k := range rs {
		if !strings.HasPrefix(k, "param:") {
			out.add(k)
			continue
		}
		name := strings.TrimPrefix(k, "param:")
		base, rest := name, ""
		if i := strings.Index(name, "."); i >= 0 {
			base, rest = name[:i], name[i:]
		}
		found := false
		for f := fn; f != nil && !found; f = f.Parent() {
			for pi, p := range f.Params {
				if p.Name() != base {
					continue
				}
				found = true
				if f == fn && call != nil && pi < len(call.Common().Args) && !c14IsAnchorType(p.Type()) {
					// substitute by the argument of the entering call, in the caller's terms
					sub := map[string]bool{}
					srs := c14RolesOn(w, call.Parent(), call.Common().Args[pi], true, frames[:len(frames)-1], sub, depth+1)
					for r := range sub {
						seen[r+rest] = true
					}
					for r := range srs {
						if !strings.HasPrefix(r, "param:") && !strings.HasPrefix(r, "base:") {
							out.add(r)
						}
					}
				} else {
					seen[c14TypeName(p.Type())+rest] = true
					out.add(k)
				}
			}
			for _, p := range f.FreeVars {
				if p.Name() == base && !found {
					// a captured variable is a cell: its type is a pointer to the variable's type. The
					// content of the cell is followed to the enclosing function's values by the
					// provenance walk; the variable itself is a source only when it holds a protocol
					// message (roles are written on those) or when a field of it is read.
					vt := p.Type()
					if pt, isPtr := vt.Underlying().(*types.Pointer); isPtr {
						vt = pt.Elem()
					}
					if rest != "" || (c14IsAnchorType(vt) && !rs.hasPrefix("param:"+base+".")) {
						seen[c14TypeName(vt)+rest] = true
					}
					out.add(k)
					found = true
				}
			}
		}
		if !found {
			seen["?"+name] = true
			out.add(k)
		}
	}
	return out
}

// c14Resolve: a read of field f of a struct allocated in the same function, where f is stored
// exactly once, is replaced by the stored value (provenance is otherwise field-insensitive for
// local objects, so reading back a freshly built message would mix all its fields).
func c14Resolve(v ssa.Value, depth int) ssa.Value {
	if depth > 4 || v == nil {
		return v
	}
	ld, ok := v.(*ssa.UnOp)
	if !ok || ld.Op != token.MUL {
		return v
	}
	fa, ok := ld.X.(*ssa.FieldAddr)
	if !ok {
		return v
	}
	al, ok := fa.X.(*ssa.Alloc)
	if !ok || al.Referrers() == nil {
		return v
	}
	var stored ssa.Value
	n := 0
	for _, r := range *al.Referrers() {
		switch u := r.(type) {
		case *ssa.FieldAddr:
			if u.Field != fa.Field || u.Referrers() == nil {
				continue
			}
			for _, rr := range *u.Referrers() {
				if st, ok := rr.(*ssa.Store); ok && st.Addr == ssa.Value(u) {
					stored = st.Val
					n++
				}
			}
		case *ssa.Store:
			if u.Val == ssa.Value(al) {
				return v // escapes
			}
		case ssa.CallInstruction:
			if _, isMI := r.(*ssa.Call); isMI {
				// handed to a callee (e.g. proto.Marshal): reads only in practice, but be conservative
				// only when the callee is a module function that could write fields
				if f := staticCallee(u.Common()); f != nil && inModule(f) {
					return v
				}
			}
		}
	}
	if n == 1 {
		return c14Resolve(stored, depth+1)
	}
	return v
}

// c14IsPlainField: v is a plain field read chain from a parameter (no arithmetic on it).
func c14IsPlainField(v ssa.Value) bool {
	_, ok := accessPath(c14Resolve(v, 0))
	return ok
}

func c14Only(roles []string, want string) bool { return len(roles) == 1 && roles[0] == want }

type c14FieldStore struct {
	Fn    *ssa.Function
	Store *ssa.Store
	Field string
	Base  ssa.Value
}

// c14FieldStores: stores to fields of (pointer to) pkg.typ in fns.
func c14FieldStores(fns []*ssa.Function, pkg, typ string) []c14FieldStore {
	var out []c14FieldStore
	for _, fn := range fns {
		for _, b := range fn.Blocks {
			for _, in := range b.Instrs {
				st, ok := in.(*ssa.Store)
				if !ok {
					continue
				}
				fa, ok := st.Addr.(*ssa.FieldAddr)
				if !ok {
					continue
				}
				pt, ok := fa.X.Type().Underlying().(*types.Pointer)
				if !ok || !isNamed(pt.Elem(), pkg, typ) {
					continue
				}
				s, ok := pt.Elem().Underlying().(*types.Struct)
				if !ok {
					continue
				}
				out = append(out, c14FieldStore{fn, st, s.Field(fa.Field).Name(), fa.X})
			}
		}
	}
	return out
}

// c14Sites caches effect sites per function and instruction.
type c14Sites struct {
	ei   *effectInfo
	memo map[*ssa.Function]map[ssa.CallInstruction]effectSite
}

func (cs *c14Sites) of(fn *ssa.Function) map[ssa.CallInstruction]effectSite {
	if m, ok := cs.memo[fn]; ok {
		return m
	}
	m := map[ssa.CallInstruction]effectSite{}
	for _, s := range cs.ei.sitesIn(fn) {
		m[s.Instr] = s
	}
	cs.memo[fn] = m
	return m
}

// c14LookupRole: a must-pass role whose primitive is a DIRECT datastore Get carrying one of the
// given effects, with its error as the verdict. A function that merely reads is not trusted:
// a caller's call of a lookup function counts only when that function is itself a verifier for
// the role (verifierCache's callee summary: every success return of the callee lies on the
// accepting side of the lookup's own verdict) and the caller enforces the callee's error.
// A lookup run in a closure handed to a run-under-lock helper is judged at the helper call:
// through the helper's returned error when closure and helper hand the error on, or through the
// captured variable the closure stores the error in. The returned cache must be used for info().
func c14LookupCache(w *World, cs *c14Sites, name string, preds ...EffPred) *verifierCache {
	var vc *verifierCache
	matches := func(s effectSite) bool {
		if !s.pureLookup() {
			return false
		}
		for _, p := range preds {
			if s.has(p) {
				return true
			}
		}
		return false
	}
	// lookupVerdict: the error verdict of call `in` of fn when it is a lookup of the role: a direct
	// Get, or a call of a module function that is a verifier for the role.
	lookupVerdict := func(fn *ssa.Function, in ssa.CallInstruction) ssa.Value {
		s, ok := cs.of(fn)[in]
		if !ok || !matches(s) {
			return nil
		}
		if s.Direct {
			return errVerdict(in)
		}
		if cal := staticCallee(in.Common()); cal != nil && cal.Blocks != nil && inModule(cal) && errResultIndex(cal.Signature) >= 0 && vc.info(cal).IsVerifier {
			return errVerdict(in)
		}
		return nil
	}
	role := checkRole{Name: name, Match: func(fn *ssa.Function, ci ssa.CallInstruction) []ssa.Value {
		if _, callsParam := ci.Common().Value.(*ssa.Parameter); callsParam && !ci.Common().IsInvoke() {
			return nil // `fn()` inside a run-under-lock helper: judged at the helper's call sites, with the closure
		}
		if call, isCall := ci.(*ssa.Call); isCall {
			for _, cc := range c14ClosureCalls(fn) {
				if cc.call != call {
					continue
				}
				var out []ssa.Value
				h := staticCallee(call.Common())
				for inner := range cs.of(cc.closure) {
					ev := lookupVerdict(cc.closure, inner)
					if ev == nil {
						continue
					}
					// (a) through the helper's returned error
					if rejectOnFailure(cc.closure, ev).OK && h != nil {
						for _, hb := range h.Blocks {
							for _, hin := range hb.Instrs {
								if hc, ok := hin.(*ssa.Call); ok && !hc.Common().IsInvoke() && staticCallee(hc.Common()) == nil {
									if _, isPrm := hc.Common().Value.(*ssa.Parameter); isPrm && rejectOnFailure(h, errVerdict(hc)).OK {
										if v := errVerdict(ci); v != nil {
											out = append(out, v)
										}
									}
								}
							}
						}
					}
					// (b) through a captured variable the closure stores the error in
					if ev.Referrers() == nil {
						continue
					}
					for _, r := range *ev.Referrers() {
						st, ok := r.(*ssa.Store)
						if !ok || st.Val != ev {
							continue
						}
						cell := c14CellAddr(st.Addr, 0)
						if cell == nil || cell.Parent() != fn {
							continue
						}
						stores, ok := c14CellStores(cell)
						if !ok {
							continue
						}
						var own []*ssa.Store
						for _, b := range fn.Blocks {
							for _, in := range b.Instrs {
								if st2, isSt := in.(*ssa.Store); isSt && st2.Addr == ssa.Value(cell) {
									own = append(own, st2)
								}
							}
						}
						clean := true
						for _, sv := range stores {
							if sv == ev || isNilConst(sv) {
								continue
							}
							mine := false
							for _, o := range own {
								if o.Val == sv {
									mine = true
								}
							}
							if !mine {
								clean = false
							}
						}
						if !clean {
							continue
						}
						for _, b := range fn.Blocks {
							for _, in := range b.Instrs {
								ld, ok := in.(*ssa.UnOp)
								if !ok || ld.Op != token.MUL || ld.X != ssa.Value(cell) || !instrReaches(call, in) {
									continue
								}
								overwritten := false
								for _, o := range own {
									if instrReaches(call, o) && instrReaches(o, in) {
										overwritten = true
									}
								}
								if !overwritten {
									out = append(out, ld)
								}
							}
						}
					}
				}
				return out
			}
		}
		// only the primitive is matched here; calls of lookup functions are summarised by the cache
		if s, ok := cs.of(fn)[ci]; ok && s.Direct && matches(s) {
			if v := errVerdict(ci); v != nil {
				return []ssa.Value{v}
			}
		}
		return nil
	}}
	vc = newVerifierCache(w, role)
	// a lookup whose error is only compared with a "not found" sentinel (package-level error
	// variable) and never with nil: the side on which it differs from the sentinel is the
	// accepting one
	vc.Extra = func(fn *ssa.Function) []edge {
		var out []edge
		for in, s := range cs.of(fn) {
			if !s.Direct || !matches(s) {
				continue
			}
			ev := errVerdict(in)
			if ev == nil || ev.Referrers() == nil || len(edgesOfVerdict(ev).Ifs) > 0 {
				continue
			}
			for _, r := range *ev.Referrers() {
				bo, ok := r.(*ssa.BinOp)
				if !ok || (bo.Op != token.EQL && bo.Op != token.NEQ) || bo.Referrers() == nil {
					continue
				}
				other := bo.Y
				if bo.Y == ev {
					other = bo.X
				}
				ld, ok := other.(*ssa.UnOp)
				if !ok || ld.Op != token.MUL {
					continue
				}
				if g, isG := ld.X.(*ssa.Global); !isG || !isErrorType(g.Type().(*types.Pointer).Elem()) {
					continue
				}
				for _, br := range *bo.Referrers() {
					if ifi, ok := br.(*ssa.If); ok {
						b := ifi.Block()
						if bo.Op == token.EQL {
							out = append(out, edge{b, b.Succs[1]})
						} else {
							out = append(out, edge{b, b.Succs[0]})
						}
					}
				}
			}
		}
		return out
	}
	return vc
}

// c14BoxRole: secretbox.Open with (payload=true) or without a counter-derived nonce.
func c14BoxRole(payload bool) checkRole {
	return checkRole{Name: "secretbox.Open", Match: func(fn *ssa.Function, ci ssa.CallInstruction) []ssa.Value {
		cc := ci.Common()
		if calleeKey(cc) != keySBOpen || len(cc.Args) != 4 {
			return nil
		}
		_, isPayload := nonceFromCounter(cc.Args[2])
		if isPayload != payload {
			return nil
		}
		if v := boolVerdict(ci); v != nil {
			return []ssa.Value{v}
		}
		return nil
	}}
}

// c14WhyNot explains why fn is not a verifier for vc's role: the innermost function that has
// check sites but lets a success return bypass them, or the absence of any site.
func c14WhyNot(c *Ctx, vc *verifierCache, fn *ssa.Function) string {
	seen := map[*ssa.Function]bool{}
	q := []*ssa.Function{fn}
	var withSites *ssa.Function
	for len(q) > 0 {
		f := q[0]
		q = q[1:]
		if seen[f] || len(seen) > 400 {
			continue
		}
		seen[f] = true
		vi := vc.info(f)
		if len(vi.Sites) > 0 && !vi.IsVerifier && withSites == nil {
			withSites = f // breadth-first: the outermost function that has the check but lets a return bypass it
		}
		for _, b := range f.Blocks {
			for _, in := range b.Instrs {
				if call, ok := in.(*ssa.Call); ok {
					if cal := staticCallee(call.Common()); cal != nil && cal.Blocks != nil && inModule(cal) {
						q = append(q, cal)
					}
				}
			}
		}
	}
	if withSites == nil {
		return "no such check is performed behind " + fnName(fn)
	}
	vi := vc.info(withSites)
	return fmt.Sprintf("%s has a success return (%s) that does not pass the accepting side of the check", fnName(withSites), describeReturns(c, vi.Bypass))
}

// c14EffectPath: a call chain from fn to a direct site performing pred.
func c14EffectPath(c *Ctx, ei *effectInfo, fn *ssa.Function, pred EffPred, seen map[*ssa.Function]bool) (string, token.Pos) {
	if seen[fn] {
		return "", token.NoPos
	}
	seen[fn] = true
	for _, s := range ei.sitesWith(fn, pred) {
		if s.Direct {
			return fmt.Sprintf("%s (%s)", fnName(fn), c.pos(posOf(s.Instr))), posOf(s.Instr)
		}
	}
	for _, s := range ei.sitesWith(fn, pred) {
		cg := c.W.callGraph()
		for _, e := range cg.callees[fn] {
			if e.Site != s.Instr || !inModule(e.Callee) {
				continue
			}
			if p, pos := c14EffectPath(c, ei, e.Callee, pred, seen); p != "" {
				return fnName(fn) + " -> " + p, pos
			}
		}
	}
	return "", token.NoPos
}

// flag edges ---------------------------------------------------------------

// c14BoolTest: an If on a plain boolean value (a flag load, a call result, a parameter; not a
// comparison), with the edges taken when the value is true / false.
type c14BoolTest struct {
	V           ssa.Value
	True, False edge
}

func c14BoolTests(fn *ssa.Function) []c14BoolTest {
	var out []c14BoolTest
	for _, b := range fn.Blocks {
		if len(b.Instrs) == 0 {
			continue
		}
		ifi, ok := b.Instrs[len(b.Instrs)-1].(*ssa.If)
		if !ok {
			continue
		}
		cond, neg := ifi.Cond, false
		for {
			u, ok := cond.(*ssa.UnOp)
			if !ok || u.Op != token.NOT {
				break
			}
			cond, neg = u.X, !neg
		}
		switch cond.(type) {
		case *ssa.BinOp, *ssa.Const, *ssa.Phi:
			continue
		}
		t, f := edge{b, b.Succs[0]}, edge{b, b.Succs[1]}
		if neg {
			t, f = f, t
		}
		out = append(out, c14BoolTest{cond, t, f})
	}
	return out
}

func c14DomDepth(b *ssa.BasicBlock) int {
	n := 0
	for x := b.Idom(); x != nil; x = x.Idom() {
		n++
	}
	return n
}

type c14Known struct {
	V     ssa.Value
	Truth bool
	depth int
}

// c14UnderTests: the tests of plain boolean values whose outcome is known at block blk (or on
// the CFG edge e when e.From != nil), innermost first.
func c14UnderTests(fn *ssa.Function, blk *ssa.BasicBlock, e edge) []c14Known {
	if blk == nil && e.From == nil {
		return nil
	}
	var out []c14Known
	for _, bt := range c14BoolTests(fn) {
		truth, ok := false, false
		switch {
		case e.From != nil && e == bt.True:
			truth, ok = true, true
		case e.From != nil && e == bt.False:
			truth, ok = false, true
		case blk != nil && edgeDominates(bt.True, blk) && !edgeDominates(bt.False, blk):
			truth, ok = true, true
		case blk != nil && edgeDominates(bt.False, blk) && !edgeDominates(bt.True, blk):
			truth, ok = false, true
		}
		if ok {
			out = append(out, c14Known{bt.V, truth, c14DomDepth(bt.True.From)})
		}
	}
	sort.SliceStable(out, func(i, j int) bool { return out[i].depth > out[j].depth })
	return out
}

// c14Trace: what a boolean value is, as a function of the 'newly decrypted' flag.
type c14Trace struct {
	Kind string // flag | api | const | unknown | mixed
	FF   flagField
	Neg  bool // value == !flag (Kind flag) ; value == !api result (Kind api)
	Why  string
}

type c14Tracer struct {
	w      *World
	apiKey string
	apiIdx int
	depth  int
}

func (t *c14Tracer) merge(a, b c14Trace) c14Trace {
	if a.Kind == "" {
		return b
	}
	if a.Kind != b.Kind || a.Neg != b.Neg || a.FF != b.FF {
		if a.Kind == "unknown" {
			return a
		}
		if b.Kind == "unknown" {
			return b
		}
		return c14Trace{Kind: "mixed", Why: "different return paths disagree: " + a.describe() + " vs " + b.describe()}
	}
	return a
}

func (x c14Trace) describe() string {
	switch x.Kind {
	case "flag":
		if x.Neg {
			return "the negation of the 'newly decrypted' flag"
		}
		return "the 'newly decrypted' flag itself"
	case "api":
		if x.Neg {
			return "the negation of the store's 'already decrypted' result"
		}
		return "the store's 'already decrypted' result"
	case "const":
		return "a constant (" + x.Why + ")"
	case "mixed":
		return x.Why
	}
	return "not traceable (" + x.Why + ")"
}

// at: v evaluated in function fn; blk/e give the control context for constants.
func (t *c14Tracer) at(fn *ssa.Function, v ssa.Value, neg bool, blk *ssa.BasicBlock, e edge, depth int) c14Trace {
	if depth > 8 {
		return c14Trace{Kind: "unknown", Why: "too deep"}
	}
	switch x := v.(type) {
	case *ssa.Const:
		val, ok := constBool(x)
		if !ok {
			return c14Trace{Kind: "unknown", Why: "non-boolean constant"}
		}
		for _, k := range c14UnderTests(fn, blk, e) {
			// the constant is produced on a path where the tested boolean k.V == k.Truth: as a
			// function of k.V the value is k.V itself (val == truth) or its negation
			var tb *ssa.BasicBlock
			if in, ok := k.V.(ssa.Instruction); ok {
				tb = in.Block()
			}
			if r := t.at(fn, k.V, (val != k.Truth) != neg, tb, edge{}, depth+1); r.Kind == "flag" || r.Kind == "api" {
				return r
			}
		}
		return c14Trace{Kind: "const", Why: fmt.Sprintf("%v", val != neg)}
	case *ssa.UnOp:
		if x.Op == token.NOT {
			return t.at(fn, x.X, !neg, blk, e, depth+1)
		}
		if ff, ok := flagLoad(x); ok {
			return c14Trace{Kind: "flag", FF: ff, Neg: neg}
		}
		return c14Trace{Kind: "unknown", Why: "load of " + x.X.Name()}
	case *ssa.Phi:
		var acc c14Trace
		for i, ev := range x.Edges {
			pred := x.Block().Preds[i]
			acc = t.merge(acc, t.at(fn, ev, neg, pred, edge{pred, x.Block()}, depth+1))
		}
		return acc
	case *ssa.Extract:
		call, ok := x.Tuple.(*ssa.Call)
		if !ok {
			return c14Trace{Kind: "unknown", Why: "extract of non-call"}
		}
		return t.call(call, x.Index, neg, depth)
	case *ssa.Call:
		return t.call(x, 0, neg, depth)
	}
	return c14Trace{Kind: "unknown", Why: fmt.Sprintf("%T", v)}
}

func (t *c14Tracer) call(call *ssa.Call, idx int, neg bool, depth int) c14Trace {
	cc := call.Common()
	if t.apiKey != "" && calleeKey(cc) == t.apiKey && idx == t.apiIdx {
		return c14Trace{Kind: "api", Neg: neg}
	}
	callee := staticCallee(cc)
	if callee == nil || callee.Blocks == nil || !inModule(callee) {
		return c14Trace{Kind: "unknown", Why: "result of " + calleeKey(cc)}
	}
	return t.result(callee, idx, neg, depth+1)
}

// result: result idx of fn over all its success returns.
func (t *c14Tracer) result(fn *ssa.Function, idx int, neg bool, depth int) c14Trace {
	var acc c14Trace
	for _, r := range returnsOf(fn) {
		if !isSuccessReturn(r) {
			continue
		}
		rr := retResults(r)
		if idx >= len(rr) {
			continue
		}
		acc = t.merge(acc, t.at(fn, rr[idx], neg, r.Block(), edge{}, depth))
	}
	if acc.Kind == "" {
		return c14Trace{Kind: "unknown", Why: "no success return in " + fnName(fn)}
	}
	return acc
}

func c14BoolResultIndex(sig *types.Signature) int {
	idx := -1
	for i := 0; i < sig.Results().Len(); i++ {
		if isBoolType(sig.Results().At(i).Type()) {
			if idx >= 0 {
				return -1
			}
			idx = i
		}
	}
	return idx
}

// ---------------------------------------------------------------------------

func runC14(c *Ctx) {
	w := c.W
	ei := w.effects()
	cs := &c14Sites{ei: ei, memo: map[*ssa.Function]map[ssa.CallInstruction]effectSite{}}
	openO := secretStoreMethod(w, "OpenOutOfStoreMessage")
	sealO := secretStoreMethod(w, "SealOutOfStoreMessageEnvelope")
	updR := secretStoreMethod(w, "UpdateOutOfStoreGroupReferences")
	openP := secretStoreMethod(w, "OpenEnvelopePayload")
	if openO == nil || sealO == nil || updR == nil || openP == nil {
		c.undecided("D1", "SecretStore", token.NoPos, "SecretStore out-of-store entry points (OpenOutOfStoreMessage, SealOutOfStoreMessageEnvelope, UpdateOutOfStoreGroupReferences, OpenEnvelopePayload) not found")
		return
	}
	inSecret := func(fn *ssa.Function) bool { p := fnPkg(fn); return p != nil && p.Path() == pkgSecret }
	pushAll := w.reachableFuncs([]*ssa.Function{openO}, 6)
	logAll := w.reachableFuncs([]*ssa.Function{openP}, 6)
	var pushScope, pushOnly []*ssa.Function
	for _, fn := range sortedFuncs(pushAll) {
		if !inSecret(fn) {
			continue
		}
		pushScope = append(pushScope, fn)
		if _, shared := logAll[fn]; !shared {
			pushOnly = append(pushOnly, fn)
		}
		c.analysed(fn)
	}
	c.count("push-scope functions", len(pushScope))
	c.count("push-only functions", len(pushOnly))
	// call chains: helpers of the reference store are stated in terms of UpdateOutOfStoreGroupReferences,
	// the other push-only helpers in terms of OpenOutOfStoreMessage's callees' single call sites
	updAll := w.reachableFuncs([]*ssa.Function{updR}, 4)
	c14AddChains(w, updR, func(f *ssa.Function) bool { _, ok := updAll[f]; return ok && inSecret(f) })
	isPushOnly := map[*ssa.Function]bool{}
	for _, f := range pushOnly {
		isPushOnly[f] = true
	}
	c14AddChains(w, openO, func(f *ssa.Function) bool { return isPushOnly[f] })

	c14D1(c, ei, openO, pushScope)
	c14D2(c, openO)
	c14D3(c, ei, cs, openO, pushScope)
	c14D4(c, cs, openO, pushScope)
	refFn := c14D5(c, ei, cs, openO, sealO, updR, pushScope)
	c14D6(c, ei, cs, openO, sealO, openP, pushOnly, pushAll, logAll, refFn)
	c14D7(c, ei, updR)
	c14D8(c, openO, openP, updR)
	c14D9(c, ei, updR)
	c14D10(c, ei)
	c14D11(c)
}

// ---- D1 consumes nothing ---------------------------------------------------

func c14D1(c *Ctx, ei *effectInfo, openO *ssa.Function, pushScope []*ssa.Function) {
	// effects are attributed through static and interface calls; a closure handed to a helper
	// (withLock(func(){...})) is not a call edge, so the direct sites of every function and closure of
	// the push scope are looked at as well
	direct := func(pred EffPred) (string, token.Pos) {
		for _, fn := range pushScope {
			for _, s := range c14SitesWith(ei, fn, pred) {
				if s.Direct {
					return fmt.Sprintf("%s (%s)", fnName(fn), c.pos(posOf(s.Instr))), posOf(s.Instr)
				}
			}
		}
		return "", token.NoPos
	}
	name := fnName(openO)
	forbidden := []struct {
		label string
		pred  EffPred
		why   string
	}{
		{"Delete[precomputedMessageKeys]", eff("Delete", nsPrecomputed), "the message can no longer be opened when it arrives through the log"},
		{"write[messageKeyForCIDs]", eff("Put|Delete", nsByCID), "a push would mark the message as received through the log (or erase that mark)"},
		{"write[chainKeyForDeviceOnGroup]", eff("Put|Delete", nsChainKey), "a push would move the receiver ratchet, which only log delivery may do"},
		{"Delete[groupByPublicKey]", eff("Delete", nsGroup), "the group record is needed to open every later push (and the log) of that group"},
	}
	for _, f := range forbidden {
		path, pos := c14EffectPath(c, ei, openO, f.pred, map[*ssa.Function]bool{})
		if path == "" {
			path, pos = direct(f.pred)
		}
		if path == "" {
			c.ok("D1", name+"+no:"+f.label, openO.Pos(), "the push open path never performs %s", f.label)
		} else {
			c.fail("D1", name+"+no:"+f.label, pos, "the push open path performs %s via %s: %s", f.label, path, f.why)
		}
	}
	allowed := func(e Effect) bool {
		parts := strings.Split(e.NS, "|")
		nsOK := false
		for _, p := range parts {
			switch p {
			case nsPrecomputed:
				if e.Op != "Put" && e.Op != "Commit" {
					return false
				}
				nsOK = true
			case nsHint, nsHintCtr:
				nsOK = true
			case "batch":
				nsOK = e.Op == "Commit"
			case c14LabelKDFConst:
			default:
				return false
			}
		}
		return nsOK
	}
	var effs []Effect
	seenEff := map[Effect]bool{}
	addEff := func(e Effect) {
		switch e.Op {
		case "Put", "Delete", "Commit", "KsPut", "KsDelete":
			if !seenEff[e] {
				seenEff[e] = true
				effs = append(effs, e)
			}
		}
	}
	for e := range ei.summaryOf(openO) {
		addEff(e)
	}
	for _, fn := range pushScope {
		for _, s := range c14SitesIn(ei, fn) {
			if s.Direct {
				for _, e := range s.Effects {
					addEff(e)
				}
			}
		}
	}
	sort.Slice(effs, func(i, j int) bool { return effs[i].String() < effs[j].String() })
	for _, e := range effs {
		isForbidden := false
		for _, f := range forbidden {
			if f.pred(e) {
				isForbidden = true
			}
		}
		if isForbidden {
			continue // reported above
		}
		e := e
		path, pos := c14EffectPath(c, ei, openO, func(x Effect) bool { return x == e }, map[*ssa.Function]bool{})
		if path == "" {
			path, pos = direct(func(x Effect) bool { return x == e })
		}
		labelled := false
		for _, p := range strings.Split(e.NS, "|") {
			switch p {
			case nsPrecomputed, nsHint, nsHintCtr, nsByCID, nsChainKey, nsGroup, "batch":
				labelled = true
			}
		}
		switch {
		case allowed(e):
			c.ok("D1", name+"+effect:"+e.String(), pos, "allowed on the push path (re-derivation of the next key / push reference bookkeeping)")
		case !labelled && (e.Op == "Put" || e.Op == "Delete"):
			c.undecided("D1", name+"+effect:"+e.String(), pos, "the push open path performs %s via %s and the namespace of its key could not be determined: cannot exclude that it consumes message keys", e, path)
		default:
			c.ok("D1", name+"+effect:"+e.String(), pos, "not one of the consuming writes")
			c.note("C14.D1: the push open path also performs %s via %s (outside the namespaces the property is about)", e, path)
		}
	}
	c.count("push-path mutating effects", len(effs))
}

// ---- D2 signature always checked ------------------------------------------

func c14D2(c *Ctx, openO *ssa.Function) {
	w := c.W
	name := fnName(openO)
	vc := newVerifierCache(w, checkRole{Name: "Verify", Match: func(fn *ssa.Function, ci ssa.CallInstruction) []ssa.Value {
		if calleeKey(ci.Common()) != keyVerify {
			return nil
		}
		if v := boolVerdict(ci); v != nil {
			return []ssa.Value{v}
		}
		return nil
	}})
	vi := vc.info(openO)
	if !vi.IsVerifier {
		c.fail("D2", name+"+verify-before-deliver", openO.Pos(), "a push payload can be returned without an unconditional signature check: %s", c14WhyNot(c, vc, openO))
	} else {
		c.ok("D2", name+"+verify-before-deliver", openO.Pos(), "every success return passes the accepting side of a signature verification")
	}
	// the Verify sites on the verifier chain, each with the chain of push-path call sites that
	// leads to it: a Verify inside a shared helper is judged through the arguments of the call
	// that belongs to the push path, never through the union of all the helper's callers
	type site struct {
		fn     *ssa.Function
		ci     ssa.CallInstruction
		frames []c14Frame
	}
	var sites []site
	seen := map[ssa.Instruction]bool{}
	var walk func(frames []c14Frame)
	walk = func(frames []c14Frame) {
		top := frames[len(frames)-1]
		if top.call != nil {
			if seen[top.call] || len(frames) > 6 {
				return
			}
			seen[top.call] = true
		}
		fi := vc.info(top.fn)
		if !fi.IsVerifier {
			return
		}
		for _, s := range fi.Sites {
			if calleeKey(s.Common()) == keyVerify {
				sites = append(sites, site{top.fn, s, append([]c14Frame(nil), frames...)})
			} else if cal := staticCallee(s.Common()); cal != nil {
				if call, ok := s.(*ssa.Call); ok {
					walk(append(append([]c14Frame(nil), frames...), c14Frame{cal, call}))
				}
			}
		}
	}
	walk([]c14Frame{{openO, nil}})
	if len(sites) == 0 && vi.IsVerifier {
		c.undecided("D2", name+"+Verify", openO.Pos(), "verifier chain found but no Verify site on it")
	}
	for _, s := range sites {
		fn, v := s.fn, s.ci
		c.analysed(fn)
		cc := v.Common()
		construct := fnName(fn) + "+Verify"
		if len(cc.Args) < 2 {
			c.undecided("D2", construct, posOf(v), "unexpected Verify arity")
			continue
		}
		via := ""
		if len(s.frames) > 1 {
			var names []string
			for _, fr := range s.frames {
				names = append(names, fnName(fr.fn))
			}
			via = " (push path: " + strings.Join(names, " -> ") + ")"
		}
		// data: bytes produced by the payload box, and the ones returned
		dv, dfn := c14ResolveUp(cc.Args[0], s.frames)
		_, drs := c14Roles(w, dfn, dv, true)
		okData := drs["call:"+keySBOpen]
		why := "the verified bytes are not the output of secretbox.Open" + via
		if okData {
			for _, r := range returnsOf(dfn) {
				if !isSuccessReturn(r) {
					continue
				}
				for i, res := range retResults(r) {
					if sl, isSl := dfn.Signature.Results().At(i).Type().Underlying().(*types.Slice); isSl {
						if b, isB := sl.Elem().Underlying().(*types.Basic); isB && b.Kind() == types.Byte && stripConv(res) != stripConv(dv) {
							okData = false
							why = "the bytes returned (" + c.pos(posOf(r)) + ") are not the bytes whose signature was verified" + via
						}
					}
				}
			}
		}
		c.check(okData, "D2", construct+".data", posOf(v), "Verify is over the opened payload, which is what is returned", why)
		// signature: the push message's Sig field only
		sv, sfn := c14ResolveUp(cc.Args[1], s.frames)
		sroles, srs := c14Roles(w, sfn, sv, true)
		c.check(c14Only(sroles, "OutOfStoreMessage.Sig"), "D2", construct+".sig", posOf(v), "signature is the push message's Sig field", fmt.Sprintf("the signature verified is not (only) the push message's Sig field%s (sources %v; roots %v)", via, sroles, srs.list()))
		// key: decoded from the push message's DevicePk
		kv, kfn := c14ResolveUp(cc.Value, s.frames)
		kroles, krs := c14Roles(w, kfn, kv, true)
		bad, okKey := rootsAllowed(krs, func(r string) bool {
			return strings.HasPrefix(r, "param:") || strings.HasPrefix(r, "base:") || r == "const:nil" || r == "call:"+keyUnmEd
		})
		okKey = okKey && krs["call:"+keyUnmEd] && c14Only(kroles, "OutOfStoreMessage.DevicePk")
		c.check(okKey, "D2", construct+".key", posOf(v), "verifying key is decoded from the push message's DevicePk", fmt.Sprintf("the verifying key does not (only) come from the push message's DevicePk%s (sources %v; root %q; roots %v)", via, kroles, bad, krs.list()))
		// both verdicts reject
		okRej, whyRej := true, ""
		for _, vv := range []ssa.Value{boolVerdict(v), errVerdict(v)} {
			if r := rejectOnFailure(fn, vv); !r.OK {
				okRej, whyRej = false, r.Why
			}
		}
		c.check(okRej, "D2", construct+".reject", posOf(v), "a failed or erroring Verify rejects", "Verify verdict not enforced: "+whyRej)
	}
}

// c14Frame: one step of a call chain: fn was entered through call (nil for the root).
type c14Frame struct {
	fn   *ssa.Function
	call *ssa.Call
}

// c14ParamIndex: index of p in its function's parameter list, or -1.
func c14ParamIndex(p *ssa.Parameter) int {
	for i, q := range p.Parent().Params {
		if q == p {
			return i
		}
	}
	return -1
}

// c14StoredField: the single value stored into field `field` of the struct allocated by al.
func c14StoredField(al *ssa.Alloc, field string) ssa.Value {
	if al.Referrers() == nil {
		return nil
	}
	var stored ssa.Value
	n := 0
	for _, r := range *al.Referrers() {
		fa, ok := r.(*ssa.FieldAddr)
		if !ok || fa.Referrers() == nil {
			continue
		}
		st, ok := fa.X.Type().Underlying().(*types.Pointer).Elem().Underlying().(*types.Struct)
		if !ok || st.Field(fa.Field).Name() != field {
			continue
		}
		for _, rr := range *fa.Referrers() {
			if s, ok := rr.(*ssa.Store); ok && s.Addr == ssa.Value(fa) {
				stored = s.Val
				n++
			}
		}
	}
	if n == 1 {
		return stored
	}
	return nil
}

// c14ResolveUp maps a value of the innermost frame to the value it denotes on this call chain:
// a bare parameter becomes the argument of the call that entered the function; a field read
// of a pointer parameter whose argument is a struct built by the caller becomes the value the
// caller stored in that field. It stops at the first value that is neither, and returns it
// with the function it lives in.
func c14ResolveUp(v ssa.Value, frames []c14Frame) (ssa.Value, *ssa.Function) {
	for i := len(frames) - 1; i >= 0; i-- {
		fr := frames[i]
		v = c14Resolve(stripConv(v), 0)
		if fr.call == nil {
			return v, fr.fn
		}
		args := fr.call.Common().Args
		if p, ok := v.(*ssa.Parameter); ok && p.Parent() == fr.fn {
			if c14IsAnchorType(p.Type()) {
				return v, fr.fn // a protocol message: roles are stated on it, wherever it is held
			}
			if idx := c14ParamIndex(p); idx >= 0 && idx < len(args) {
				v = args[idx]
				continue
			}
			return v, fr.fn
		}
		if base, field := c14FieldOf(v); base != nil {
			if p, ok := stripConv(base).(*ssa.Parameter); ok && p.Parent() == fr.fn {
				if idx := c14ParamIndex(p); idx >= 0 && idx < len(args) {
					if al, ok := stripConv(args[idx]).(*ssa.Alloc); ok {
						if sv := c14StoredField(al, field); sv != nil {
							v = sv
							continue
						}
					}
				}
			}
		}
		return v, fr.fn
	}
	return v, frames[0].fn
}

// ---- D3 truthful flag -------------------------------------------------------

func c14D3(c *Ctx, ei *effectInfo, cs *c14Sites, openO *ssa.Function, pushScope []*ssa.Function) {
	w := c.W
	name := fnName(openO)
	idx := c14BoolResultIndex(openO.Signature)
	if idx < 0 {
		c.undecided("D3", name+"+flag", openO.Pos(), "the push open entry point does not have exactly one boolean result")
		return
	}
	tr := &c14Tracer{w: w}
	res := tr.result(openO, idx, false, 0)
	var flags []flagField
	switch {
	case res.Kind == "flag" && res.Neg:
		c.ok("D3", name+"+already-received", openO.Pos(), "the boolean result is the negation of the 'newly decrypted' flag on every success return")
		flags = append(flags, res.FF)
	case res.Kind == "flag":
		c.fail("D3", name+"+already-received", openO.Pos(), "the 'already received' result is %s: it is reported inverted", res.describe())
		flags = append(flags, res.FF)
	case res.Kind == "const":
		c.fail("D3", name+"+already-received", openO.Pos(), "the 'already received' result is %s: it does not depend on whether the message was received through the log", res.describe())
	case res.Kind == "mixed":
		c.fail("D3", name+"+already-received", openO.Pos(), "the 'already received' result is inconsistent: %s", res.Why)
	default:
		c.undecided("D3", name+"+already-received", openO.Pos(), "cannot relate the boolean result to the 'newly decrypted' flag: %s", res.Why)
	}

	// the flag on the push path: constant stores, true at construction, false only after a by-CID hit
	getByCID := eff("Get", nsByCID)
	for _, ff := range flags {
		nStores := 0
		for _, fn := range pushScope {
			for _, b := range fn.Blocks {
				for _, in := range b.Instrs {
					switch x := in.(type) {
					case *ssa.Store:
						fa, ok := x.Addr.(*ssa.FieldAddr)
						if !ok || fa.Field != ff.Index {
							continue
						}
						pt, ok := fa.X.Type().Underlying().(*types.Pointer)
						if !ok || !types.Identical(pt.Elem(), ff.Struct) {
							continue
						}
						nStores++
						val, isC := constBool(x.Val)
						construct := fnName(fn) + "+flag-store"
						switch {
						case !isC:
							c.fail("D3", construct, x.Pos(), "the 'newly decrypted' flag is assigned a computed value on the push path: the reported flag no longer reflects the by-CID lookup")
						case val:
							c.ok("D3", construct+"(true)", x.Pos(), "flag set to 'newly decrypted'")
						default:
							var hit *effectSite
							for _, s := range ei.sitesWith(fn, getByCID) {
								s := s
								if v := errVerdict(s.Instr); v != nil && s.pureLookup() {
									for _, e := range edgesOfVerdict(v).Accept {
										if edgeDominates(e, x.Block()) {
											hit = &s
										}
									}
								}
							}
							if !c.check(hit != nil, "D3", construct+"(false)", x.Pos(), "flag cleared only after the key was found by CID", "the push path reports 'already received' without a successful by-CID key lookup") {
								continue
							}
							// the CID looked up is the push message's own
							var cidArg ssa.Value
							for _, a := range hit.Instr.Common().Args {
								if isNamed(a.Type(), "github.com/ipfs/go-cid", "Cid") {
									cidArg = a
								}
							}
							if cidArg == nil {
								c.undecided("D3", fnName(fn)+"+cid-source", posOf(hit.Instr), "by-CID lookup without a cid.Cid argument")
								continue
							}
							roles, rs := c14Roles(w, fn, cidArg, true)
							okCid := c14Only(roles, "OutOfStoreMessage.Cid") && rs["call:"+keyCidFromBytes]
							c.check(okCid, "D3", fnName(fn)+"+cid-source", posOf(hit.Instr), "the CID looked up is decoded from the push message's Cid field", fmt.Sprintf("the by-CID lookup on the push path does not use (only) the CID carried by the push message (sources %v)", roles))
						}
					case *ssa.Alloc:
						pt := x.Type().(*types.Pointer)
						if !types.Identical(pt.Elem(), ff.Struct) {
							continue
						}
						set := false
						for _, in2 := range b.Instrs {
							if st, ok := in2.(*ssa.Store); ok {
								if fa, ok := st.Addr.(*ssa.FieldAddr); ok && fa.X == ssa.Value(x) && fa.Field == ff.Index {
									if v, isC := constBool(st.Val); isC && v {
										set = true
									}
								}
							}
						}
						c.check(set, "D3", fnName(fn)+"+flag-init", x.Pos(), "a fresh decryption context starts as 'newly decrypted'", "a decryption context is created on the push path with the flag at its zero value: every push is reported as already received (and the payload's conditional signature check is skipped)")
					}
				}
			}
		}
		if nStores == 0 {
			c.undecided("D3", "flag-store", token.NoPos, "no store to the 'newly decrypted' flag found on the push path")
		}
	}

	// handlers: every caller of the interface method copies the boolean, un-negated, into AlreadyReceived
	nHandlers := 0
	for _, fn := range w.ModFuncs {
		calls := callsIn(fn, keyIs(keyOpenOOSIface))
		if len(calls) == 0 {
			continue
		}
		stores := c14FieldStores([]*ssa.Function{fn}, pkgTypes, "OutOfStoreReceive_Reply")
		buildsReply := len(stores) > 0
		for i := 0; i < fn.Signature.Results().Len(); i++ {
			if isNamed(fn.Signature.Results().At(i).Type(), pkgTypes, "OutOfStoreReceive_Reply") {
				buildsReply = true
			}
		}
		if !buildsReply {
			c.note("C14.D3: %s calls SecretStore.OpenOutOfStoreMessage but builds no OutOfStoreReceive_Reply; not treated as a handler", fnName(fn))
			continue
		}
		nHandlers++
		c.analysed(fn)
		ht := &c14Tracer{w: w, apiKey: keyOpenOOSIface, apiIdx: idx}
		found := false
		for _, st := range stores {
			if st.Field != "AlreadyReceived" {
				continue
			}
			found = true
			r := ht.at(fn, st.Store.Val, false, st.Store.Block(), edge{}, 0)
			c.check(r.Kind == "api" && !r.Neg, "D3", fnName(fn)+"+AlreadyReceived", st.Store.Pos(), "the reply's AlreadyReceived is the store's 'already decrypted' result", "the reply's AlreadyReceived is "+r.describe())
		}
		if !found {
			c.fail("D3", fnName(fn)+"+AlreadyReceived", fn.Pos(), "the handler opens a push payload but never sets AlreadyReceived in its reply: every message is reported as not yet received")
		}
	}
	if nHandlers == 0 {
		c.undecided("D3", "handlers", token.NoPos, "no caller of SecretStore.OpenOutOfStoreMessage found in the module")
	}
	c.count("OutOfStoreReceive handlers", nHandlers)
}

// ---- D4 reject paths ---------------------------------------------------------

func c14D4(c *Ctx, cs *c14Sites, openO *ssa.Function, pushScope []*ssa.Function) {
	w := c.W
	name := fnName(openO)
	roles := []struct {
		label string
		vc    *verifierCache
		why   string
	}{
		{"reference-lookup", c14LookupCache(w, cs, "Get[hint]", eff("Get", nsHint)), "an unknown group reference is not rejected"},
		{"group-lookup", c14LookupCache(w, cs, "Get[group]", eff("Get", nsGroup)), "a push for a group whose record is missing is not rejected"},
		{"envelope-box", newVerifierCache(w, c14BoxRole(false)), "an altered push envelope is not rejected"},
		{"message-key-lookup", c14LookupCache(w, cs, "Get[byCID|precomputed]", eff("Get", nsByCID), eff("Get", nsPrecomputed)), "a message whose key is not known is not rejected"},
		{"payload-box", newVerifierCache(w, c14BoxRole(true)), "an altered payload is not rejected"},
	}
	for _, r := range roles {
		vc := r.vc
		vi := vc.info(openO)
		if vi.IsVerifier {
			c.ok("D4", name+"+"+r.label, openO.Pos(), "every success return passes the accepting side of the %s", r.label)
		} else {
			c.fail("D4", name+"+"+r.label, openO.Pos(), "%s: %s", r.why, c14WhyNot(c, vc, openO))
		}
	}
	// decoders
	n := 0
	for _, fn := range pushScope {
		for _, ci := range callsIn(fn, keyIs(keyProtoU, keyCidFromBytes, keyUnmEd, keyNonceToArray, keyKeyToArray)) {
			if _, isCall := ci.(*ssa.Call); !isCall {
				continue
			}
			n++
			k := calleeKey(ci.Common())
			short := k[strings.LastIndex(k, "/")+1:]
			r := rejectOnFailure(fn, errVerdict(ci))
			c.check(r.OK, "D4", fnName(fn)+"+"+short, posOf(ci), "decoding error rejects", "a malformed input is not rejected: error of "+short+": "+r.Why)
		}
	}
	c.count("push-scope decoder calls", n)
}

// ---- D5 reference agreement ---------------------------------------------------

// c14CallsTo: call instructions in fn whose static callee is target.
func c14CallsTo(fn, target *ssa.Function) []*ssa.Call {
	var out []*ssa.Call
	for _, b := range fn.Blocks {
		for _, in := range b.Instrs {
			if call, ok := in.(*ssa.Call); ok && staticCallee(call.Common()) == target {
				out = append(out, call)
			}
		}
	}
	return out
}

// c14FindCall: the call of target whose result flows (through calls, extracts, conversions)
// into v.
func c14FindCall(v ssa.Value, target *ssa.Function, depth int) *ssa.Call {
	if depth > 6 || v == nil {
		return nil
	}
	switch x := stripConv(v).(type) {
	case *ssa.Extract:
		return c14FindCall(x.Tuple, target, depth+1)
	case *ssa.Call:
		if staticCallee(x.Common()) == target {
			return x
		}
		for _, a := range x.Common().Args {
			if r := c14FindCall(a, target, depth+1); r != nil {
				return r
			}
		}
	case *ssa.Slice:
		return c14FindCall(x.X, target, depth+1)
	case *ssa.Phi:
		for _, e := range x.Edges {
			if r := c14FindCall(e, target, depth+1); r != nil {
				return r
			}
		}
	}
	return nil
}

// c14KeyCtor: the module function whose result is the datastore key argument of a direct site.
func c14KeyCtor(s effectSite) *ssa.Function {
	args := s.Instr.Common().Args
	if len(args) < 2 {
		return nil
	}
	if call, ok := stripConv(args[1]).(*ssa.Call); ok {
		if f := staticCallee(call.Common()); f != nil && inModule(f) {
			return f
		}
	}
	return nil
}

func c14D5(c *Ctx, ei *effectInfo, cs *c14Sites, openO, sealO, updR *ssa.Function, pushScope []*ssa.Function) *ssa.Function {
	w := c.W
	// (a) the sealer: GroupReference = F(group, headers.DevicePk, headers.Counter)
	sealScope := w.reachableFuncs([]*ssa.Function{sealO}, 4)
	var sealFns []*ssa.Function
	for _, fn := range sortedFuncs(sealScope) {
		if p := fnPkg(fn); p != nil && p.Path() == pkgSecret {
			sealFns = append(sealFns, fn)
		}
	}
	var refFn *ssa.Function
	var refCall *ssa.Call
	var refIn *ssa.Function
	for _, st := range c14FieldStores(sealFns, pkgTypes, "OutOfStoreMessageEnvelope") {
		if st.Field != "GroupReference" {
			continue
		}
		v := stripConv(st.Store.Val)
		if ex, ok := v.(*ssa.Extract); ok {
			v = ex.Tuple
		}
		if call, ok := v.(*ssa.Call); ok {
			if f := staticCallee(call.Common()); f != nil && inModule(f) && f.Blocks != nil {
				refFn, refCall, refIn = f, call, st.Fn
			}
		}
	}
	if refFn == nil {
		c.undecided("D5", fnName(sealO)+"+GroupReference", sealO.Pos(), "the sealer does not fill OutOfStoreMessageEnvelope.GroupReference from a module function's result")
		return nil
	}
	c.analysed(refFn)
	c.analysed(refIn)
	argRole := func(fn *ssa.Function, a ssa.Value) []string {
		r, _ := c14Roles(w, fn, a, true)
		return r
	}
	for i, a := range refCall.Common().Args {
		pt := refFn.Signature.Params().At(i).Type()
		construct := fmt.Sprintf("%s+reference.arg%d", fnName(refIn), i)
		roles := argRole(refIn, a)
		switch {
		case isNamed(pt, pkgTypes, "Group"):
			c.check(c14Only(roles, "Group"), "D5", construct, posOf(refCall), "reference computed for the sealer's group", fmt.Sprintf("the sealed reference is not computed from the group given to the sealer (sources %v)", roles))
		case c14TypeName(pt) == "[]byte":
			c.check(c14Only(roles, "MessageHeaders.DevicePk"), "D5", construct, posOf(refCall), "reference sender is the message headers' DevicePk", fmt.Sprintf("the sealed reference's sender is not the message headers' DevicePk (sources %v)", roles))
		case c14TypeName(pt) == "uint64":
			pv, _, _ := c14Up(w, refIn, a)
			_, plain := accessPath(c14Resolve(pv, 0))
			c.check(c14Only(roles, "MessageHeaders.Counter") && plain, "D5", construct, posOf(refCall), "reference counter is the message headers' Counter", fmt.Sprintf("the sealed reference's counter is not exactly the message headers' Counter (sources %v)", roles))
		}
	}

	// (b) the digest depends on group secret, sender and counter
	{
		var rets []ssa.Value
		for _, r := range returnsOf(refFn) {
			if isSuccessReturn(r) && len(retResults(r)) > 0 {
				rets = append(rets, retResults(r)[0])
			}
		}
		need := map[string]bool{}
		for i, p := range refFn.Params {
			_ = i
			switch {
			case isNamed(p.Type(), pkgTypes, "Group"):
				need["Group.Secret"] = false
			default:
				need[c14TypeName(p.Type())] = false
			}
		}
		keyed := false
		for _, rv := range rets {
			roles, rs := c14RolesLocal(w, refFn, rv, true) // in the reference function's own terms
			for _, r := range roles {
				if _, ok := need[r]; ok {
					need[r] = true
				}
			}
			if rs["call:"+keyHKDFNew] || rs["call:"+keyHMACNew] {
				keyed = true
			}
		}
		var missing []string
		for k, ok := range need {
			if !ok {
				missing = append(missing, k)
			}
		}
		sort.Strings(missing)
		c.check(len(missing) == 0 && keyed, "D5", fnName(refFn)+"+digest-inputs", refFn.Pos(), "the reference is a keyed digest of group secret, sender and counter", fmt.Sprintf("the group reference does not depend on %v (keyed digest found: %v): references of different messages/groups collide or can be computed without the group secret", missing, keyed))
	}

	// (c) the store side: the function(s) with a direct Put[hint]
	putHint, delHint, getHint := eff("Put", nsHint), eff("Delete", nsHint), eff("Get", nsHint)
	updScope := w.reachableFuncs([]*ssa.Function{updR}, 4)
	// a store site: a direct Put/Delete on the hint namespace, with the function in which its
	// key is computed (the site's own function, or, when the operation sits in a closure that
	// receives the key as its parameter, the enclosing function at the dynamic call of the closure)
	type storeSite struct {
		fn    *ssa.Function // where key lives
		key   ssa.Value
		op    string
		valFn *ssa.Function
		val   ssa.Value
		instr ssa.CallInstruction
		kc    *ssa.Function
	}
	var storeSites []storeSite
	var storeFns []*ssa.Function
	nPutFns := 0
	for _, fn := range sortedFuncs(updScope) {
		if p := fnPkg(fn); p == nil || p.Path() != pkgSecret {
			continue
		}
		for _, s := range c14SitesIn(ei, fn) {
			if !s.Direct || !(s.has(putHint) || s.has(delHint)) {
				continue
			}
			args := s.Instr.Common().Args
			op := s.Effects[0].Op
			var val ssa.Value
			if op == "Put" && len(args) >= 3 {
				val = args[2]
			}
			if op == "Put" {
				nPutFns++
			}
			if prm, isParam := stripConv(args[1]).(*ssa.Parameter); isParam && fn.Parent() != nil {
				for _, dc := range c14DynCallsOf(w, fn, c14ParamIndex(prm)) {
					st := storeSite{fn: dc.call.Parent(), key: dc.arg, op: op, valFn: fn, val: val, instr: s.Instr}
					if kcall, ok := stripConv(dc.arg).(*ssa.Call); ok {
						if f := staticCallee(kcall.Common()); f != nil && inModule(f) {
							st.kc = f
						}
					}
					storeSites = append(storeSites, st)
				}
				continue
			}
			storeSites = append(storeSites, storeSite{fn: fn, key: args[1], op: op, valFn: fn, val: val, instr: s.Instr, kc: c14KeyCtor(s)})
		}
	}
	for _, st := range storeSites {
		if !has(c14FnNames(storeFns), fnName(st.fn)) {
			storeFns = append(storeFns, st.fn)
		}
	}
	if nPutFns == 0 || len(storeSites) == 0 {
		c.undecided("D5", fnName(updR)+"+Put[hint]", updR.Pos(), "no direct Put on the push-hint namespace behind UpdateOutOfStoreGroupReferences")
		return refFn
	}
	var keyCtor *ssa.Function
	for _, fn := range storeFns {
		c.analysed(fn)
		feedsPut := map[*ssa.Call]bool{}
		for _, st := range storeSites {
			if st.fn != fn {
				continue
			}
			construct := fnName(fn) + "+" + st.op + "[hint]"
			_, krs := c14Roles(w, fn, st.key, false)
			c.check(krs["call:"+funcKey(refFn)], "D5", construct+".key", posOf(st.instr), "stored reference computed by the sealer's reference function", "the reference "+strings.ToLower(st.op)+" in the store is not computed by "+fnName(refFn)+", the function the sealer uses")
			if st.kc != nil && st.op == "Put" {
				keyCtor = st.kc
			}
			if st.op == "Put" && st.val != nil {
				roles := argRole(st.valFn, st.val)
				c.check(c14Only(roles, "Group.PublicKey"), "D5", construct+".value", posOf(st.instr), "a reference maps to the group public key", fmt.Sprintf("the value stored under a reference is not the group's public key (sources %v): the push opener resolves the wrong group", roles))
			}
			if st.op == "Put" {
				if call := c14FindCall(st.key, refFn, 0); call != nil {
					feedsPut[call] = true
				}
			}
		}
		// calls of the reference function: argument roles (the counter only where the result is stored:
		// references to delete are enumerated from the stored window bounds)
		for _, call := range c14CallsTo(fn, refFn) {
			for i, a := range call.Common().Args {
				pt := refFn.Signature.Params().At(i).Type()
				roles := argRole(fn, a)
				what := "deleted"
				if feedsPut[call] {
					what = "stored"
				}
				construct := fmt.Sprintf("%s+%s-reference.arg%d", fnName(fn), what, i)
				switch {
				case isNamed(pt, pkgTypes, "Group"):
					c.check(c14Only(roles, "Group"), "D5", construct, posOf(call), "reference computed for the group parameter", fmt.Sprintf("%s reference not computed from the group parameter (sources %v)", what, roles))
				case c14TypeName(pt) == "[]byte":
					c.check(c14Only(roles, "[]byte"), "D5", construct, posOf(call), "reference sender is the sender parameter", fmt.Sprintf("%s reference's sender is not the sender parameter (sources %v)", what, roles))
				case c14TypeName(pt) == "uint64" && feedsPut[call]:
					// counters taken from a local table of passes: those of the entries whose closure puts
					if tbl, byEntry := c14TableFieldValues(a); tbl != nil {
						var vals []ssa.Value
						for _, st := range storeSites {
							if st.fn != fn || st.op != "Put" {
								continue
							}
							if al, k, ok := c14TableEntryOf(st.valFn); ok && al == tbl {
								vals = append(vals, byEntry[k]...)
							}
						}
						if len(vals) > 0 {
							set := map[string]bool{}
							for _, v := range vals {
								for _, r := range argRole(fn, v) {
									set[r] = true
								}
							}
							roles = roles[:0]
							for r := range set {
								roles = append(roles, r)
							}
							sort.Strings(roles)
						}
					}
					okCtr := has(roles, "uint64")
					for _, r := range roles {
						if recv := c14TypeName(fn.Params[0].Type()); r != "uint64" && r != recv && !strings.HasPrefix(r, recv+".") {
							okCtr = false
						}
					}
					c.check(okCtr, "D5", construct, posOf(call), "stored reference counters derive from the counter parameter and the window size", fmt.Sprintf("stored reference counters do not derive from the counter parameter (sources %v)", roles))
				}
			}
		}
	}
	// window: two-sided around the counter parameter, in whichever function of the reference
	// store offsets its counter parameter by the window size
	nWin := 0
	for _, fn := range sortedFuncs(updScope) {
		if p := fnPkg(fn); p != nil && p.Path() == pkgSecret && c14Window(c, fn) {
			nWin++
		}
	}
	if nWin == 0 {
		c.note("C14.D5: no function behind %s offsets a uint64 counter parameter by a non-constant size; window shape not analysed", fnName(updR))
	}
	// (d) lookup side uses the same key constructor
	nGet := 0
	for _, fn := range pushScope {
		for _, s := range cs.of(fn) {
			if !s.Direct || !s.has(getHint) {
				continue
			}
			nGet++
			kc := c14KeyCtor(s)
			if (kc == nil) != (keyCtor == nil) {
				c.undecided("D5", fnName(fn)+"+Get[hint].key", posOf(s.Instr), "the reference lookup and the reference store do not both build their datastore key with a module function: key encoding agreement not modelled")
				continue
			}
			if kc == nil {
				c.note("C14.D5: datastore key of the reference %s in %s is not a direct module call result; key-constructor agreement not compared", s.Effects[0].Op, fnName(fn))
				continue
			}
			c.check(kc == keyCtor, "D5", fnName(fn)+"+Get[hint].key", posOf(s.Instr), "lookup and store build the reference key with the same constructor", "the reference lookup builds its datastore key with "+fnName(kc)+" but the store uses "+fnName(keyCtor))
			// looked-up reference is the envelope's GroupReference, followed to the entry point
			args := s.Instr.Common().Args
			rs := rootsOf(provCfg{W: w, InlineResults: true, FollowCallers: true, FollowParam: func(p *ssa.Parameter) bool {
				f := p.Parent()
				return f != openO && fnPkg(f) != nil && fnPkg(f).Path() == pkgSecret
			}}, args[1])
			okRef := false
			for r := range rs {
				if strings.HasSuffix(r, ".GroupReference") {
					okRef = true
				}
			}
			if !okRef {
				// local envelope (unmarshalled in the entry point): look for a GroupReference field read
				okRef = c14ReadsField(w, openO, "OutOfStoreMessageEnvelope", "GroupReference", rs)
			}
			c.check(okRef, "D5", fnName(fn)+"+Get[hint].ref", posOf(s.Instr), "the reference looked up is the envelope's GroupReference", fmt.Sprintf("the reference looked up is not the push envelope's GroupReference (roots %v)", rs.list()))
		}
	}
	if nGet == 0 {
		c.undecided("D5", fnName(openO)+"+Get[hint]", openO.Pos(), "no direct Get on the push-hint namespace on the push open path")
	}

	// (e) sliding: whoever opens a message (log or push) slides the window with that message's pair
	c14Slide(c, keyOpenPayIface, "MessageHeaders")
	c14SlideLocal(c, openO, updR)
	return refFn
}

// c14ReadsField: fn reads field typ.field of a local object and the root set shows the value
// flowing from a caller of the lookup in fn (viacaller marker).
func c14ReadsField(w *World, fn *ssa.Function, typ, field string, rs RootSet) bool {
	if !rs["viacaller:"+fnName(fn)] {
		return false
	}
	for _, b := range fn.Blocks {
		for _, in := range b.Instrs {
			fa, ok := in.(*ssa.FieldAddr)
			if !ok {
				continue
			}
			pt, ok := fa.X.Type().Underlying().(*types.Pointer)
			if !ok || !isNamed(pt.Elem(), pkgTypes, typ) {
				continue
			}
			if pt.Elem().Underlying().(*types.Struct).Field(fa.Field).Name() != field {
				continue
			}
			// the loaded value is an argument of a call in fn
			for _, r := range *fa.Referrers() {
				ld, ok := r.(*ssa.UnOp)
				if !ok || ld.Referrers() == nil {
					continue
				}
				for _, u := range *ld.Referrers() {
					if _, isCall := u.(ssa.CallInstruction); isCall {
						return true
					}
				}
			}
		}
	}
	return false
}

// c14Window: in the function that stores references, the counter parameter must be both
// advanced and moved back by the window size (known-bad shape: one-sided window).
func c14Window(c *Ctx, fn *ssa.Function) bool {
	found := false
	for _, ctr := range fn.Params {
		if b, ok := ctr.Type().Underlying().(*types.Basic); !ok || b.Kind() != types.Uint64 {
			continue
		}
		add, sub := false, false
		for _, b := range fn.Blocks {
			for _, in := range b.Instrs {
				bo, ok := in.(*ssa.BinOp)
				if !ok || (bo.Op != token.ADD && bo.Op != token.SUB) {
					continue
				}
				var other ssa.Value
				if bo.X == ssa.Value(ctr) {
					other = bo.Y
				} else if bo.Y == ssa.Value(ctr) && bo.Op == token.ADD {
					other = bo.X
				} else {
					continue
				}
				if _, isConst := other.(*ssa.Const); isConst {
					continue
				}
				if bo.Op == token.ADD {
					add = true
				} else {
					sub = true
				}
			}
		}
		if !add && !sub {
			continue
		}
		found = true
		c.check(add && sub, "D5", fnName(fn)+"+window", fn.Pos(), "references are kept on both sides of the last counter seen",
			fmt.Sprintf("the reference window is one-sided (counter+size: %v, counter-size: %v): a message that arrives out of order on the other side of the last counter seen has no reference", add, sub))
	}
	return found
}

// c14Slide: every module function that calls the interface method openKey (log open) must, on
// the success side, call UpdateOutOfStoreGroupReferences with (X.DevicePk, X.Counter) of the
// same headers X it passed to the open call.
func c14Slide(c *Ctx, openKey, hdrType string) {
	w := c.W
	n := 0
	for _, fn := range w.ModFuncs {
		opens := callsIn(fn, keyIs(openKey))
		if len(opens) == 0 {
			continue
		}
		n++
		c.analysed(fn)
		for _, op := range opens {
			var hdr ssa.Value
			for _, a := range op.Common().Args {
				if isNamed(a.Type(), pkgTypes, hdrType) {
					hdr = a
				}
			}
			construct := fnName(fn) + "+slide-window"
			upd := callsIn(fn, keyIs(keyUpdRefsIface))
			ok, why := false, "opening a message from the log is never followed by UpdateOutOfStoreGroupReferences: the reference window does not follow the sender's counter, later pushes carry unknown references"
			for _, u := range upd {
				if !instrReaches(op.(ssa.Instruction), u.(ssa.Instruction)) {
					continue
				}
				why = ""
				var sender, ctr ssa.Value
				for _, a := range u.Common().Args {
					switch c14TypeName(a.Type()) {
					case "[]byte":
						sender = a
					case "uint64":
						ctr = a
					}
				}
				sb, sf := c14FieldOf(sender)
				cb, cf := c14FieldOf(ctr)
				if sf != "DevicePk" || cf != "Counter" || sb == nil || cb == nil || !c14SameObject(sb, cb) || (hdr != nil && !c14SameObject(sb, hdr)) {
					why = "the window is slid with a (sender, counter) pair that is not the (DevicePk, Counter) of the headers of the message just opened"
					continue
				}
				ok = true
			}
			if !ok && len(upd) == 0 {
				// the open may sit in a helper: accept a caller that slides the window after calling it
				for _, site := range w.callGraph().callers[fn] {
					for _, u := range callsIn(site.Caller, keyIs(keyUpdRefsIface)) {
						if !instrReaches(site.Instr.(ssa.Instruction), u.(ssa.Instruction)) {
							continue
						}
						var sender, ctr ssa.Value
						for _, a := range u.Common().Args {
							switch c14TypeName(a.Type()) {
							case "[]byte":
								sender = a
							case "uint64":
								ctr = a
							}
						}
						sb, sf := c14FieldOf(sender)
						cb, cf := c14FieldOf(ctr)
						if sf == "DevicePk" && cf == "Counter" && sb != nil && cb != nil && c14SameObject(sb, cb) && isNamed(sb.Type(), pkgTypes, hdrType) {
							ok = true
							c.analysed(site.Caller)
						}
					}
				}
			}
			c.check(ok, "D5", construct, posOf(op), "the window follows the headers of the message just opened", why)
		}
	}
	if n == 0 {
		c.undecided("D5", "log-open+slide-window", token.NoPos, "no caller of SecretStore.OpenEnvelopePayload found")
	}
}

// c14SlideLocal: the push entry point slides the window with the pair of the opened push message.
func c14SlideLocal(c *Ctx, openO, updR *ssa.Function) {
	construct := fnName(openO) + "+slide-window"
	var calls []ssa.CallInstruction
	for _, ci := range callsIn(openO, func(k string, cc *ssa.CallCommon) bool {
		return k == keyUpdRefsIface || staticCallee(cc) == updR
	}) {
		calls = append(calls, ci)
	}
	if len(calls) == 0 {
		c.fail("D5", construct, openO.Pos(), "opening a push never updates the reference window")
		return
	}
	for _, u := range calls {
		var sender, ctr ssa.Value
		args := u.Common().Args
		for _, a := range args {
			switch c14TypeName(a.Type()) {
			case "[]byte":
				sender = a
			case "uint64":
				ctr = a
			}
		}
		sb, sf := c14FieldOf(sender)
		cb, cf := c14FieldOf(ctr)
		ok := sf == "DevicePk" && cf == "Counter" && sb != nil && cb != nil && c14SameObject(sb, cb) && isNamed(sb.Type(), pkgTypes, "OutOfStoreMessage")
		c.check(ok, "D5", construct, posOf(u), "the window follows the (DevicePk, Counter) of the opened push message", "the window is slid with a (sender, counter) pair that is not the (DevicePk, Counter) of the opened push message")
	}
}

// c14FieldOf: v is a load of field F of object base (direct field read or generated getter).
func c14FieldOf(v ssa.Value) (ssa.Value, string) {
	if v == nil {
		return nil, ""
	}
	switch x := v.(type) {
	case *ssa.UnOp:
		if x.Op != token.MUL {
			return nil, ""
		}
		fa, ok := x.X.(*ssa.FieldAddr)
		if !ok {
			return nil, ""
		}
		st := fa.X.Type().Underlying().(*types.Pointer).Elem().Underlying().(*types.Struct)
		return fa.X, st.Field(fa.Field).Name()
	case *ssa.Call:
		if f := staticCallee(x.Common()); f != nil && strings.HasPrefix(f.Name(), "Get") && len(x.Common().Args) == 1 && f.Signature.Recv() != nil {
			return x.Common().Args[0], strings.TrimPrefix(f.Name(), "Get")
		}
	}
	return nil, ""
}

// c14SameObject: two pointer values denote the same object (same SSA value, or loads of the
// same field of the same object).
func c14SameObject(a, b ssa.Value) bool {
	if a == b {
		return true
	}
	ab, af := c14FieldOf(a)
	bb, bf := c14FieldOf(b)
	if ab != nil && bb != nil && af == bf && af != "" {
		return c14SameObject(ab, bb)
	}
	return false
}

// ---- D6 message-field agreement ---------------------------------------------

func c14D6(c *Ctx, ei *effectInfo, cs *c14Sites, openO, sealO, openP *ssa.Function, pushOnly []*ssa.Function, pushAll, logAll map[*ssa.Function]int, refFn *ssa.Function) {
	w := c.W
	sealScope := w.reachableFuncs([]*ssa.Function{sealO}, 4)
	var sealFns []*ssa.Function
	for _, fn := range sortedFuncs(sealScope) {
		if p := fnPkg(fn); p != nil && p.Path() == pkgSecret {
			sealFns = append(sealFns, fn)
		}
	}
	// (a) sealer field table
	want := []struct{ field, src string }{
		{"Cid", "Cid"},
		{"DevicePk", "MessageHeaders.DevicePk"},
		{"Counter", "MessageHeaders.Counter"},
		{"Sig", "MessageHeaders.Sig"},
		{"EncryptedPayload", "MessageEnvelope.Message"},
	}
	stores := c14FieldStores(sealFns, pkgTypes, "OutOfStoreMessage")
	for _, wf := range want {
		construct := fnName(sealO) + "+OutOfStoreMessage." + wf.field
		found := false
		for _, st := range stores {
			if st.Field != wf.field {
				continue
			}
			found = true
			roles, _ := c14Roles(w, st.Fn, st.Store.Val, true)
			c.check(c14Only(roles, wf.src), "D6", construct, st.Store.Pos(), "filled from "+wf.src, fmt.Sprintf("the push message's %s is filled from %v, the opener expects %s", wf.field, roles, wf.src))
		}
		if !found {
			c.fail("D6", construct, sealO.Pos(), "the sealer never fills the push message's %s (the opener reads it)", wf.field)
		}
	}
	// (b) envelope box key: group secret on both sides
	nSeal := 0
	for _, fn := range sealFns {
		for _, ci := range callsIn(fn, keyIs(keySBSeal)) {
			if len(ci.Common().Args) != 4 {
				continue
			}
			nSeal++
			roles, _ := c14Roles(w, fn, ci.Common().Args[3], true)
			c.check(c14Only(roles, "Group.Secret"), "D6", fnName(fn)+"+envelope-key", posOf(ci), "push envelope sealed with the group secret", fmt.Sprintf("the push envelope is sealed with a key from %v, the opener uses the group's shared secret", roles))
			// what is sealed is the marshalled push message (the opener unmarshals one)
			okPlain := false
			dv := stripConv(ci.Common().Args[1])
			if ex, ok := dv.(*ssa.Extract); ok {
				dv = ex.Tuple
			}
			if mc, ok := dv.(*ssa.Call); ok && calleeKey(mc.Common()) == "google.golang.org/protobuf/proto.Marshal" && len(mc.Common().Args) == 1 {
				okPlain = isNamed(stripConv(mc.Common().Args[0]).Type(), pkgTypes, "OutOfStoreMessage")
			}
			c.check(okPlain, "D6", fnName(fn)+"+envelope-plaintext", posOf(ci), "the sealed bytes are the marshalled push message", "the bytes sealed into the push envelope are not the marshalled OutOfStoreMessage the opener expects")
			// the envelope carries the nonce it was sealed with and the sealed box
			sealNonce := stripConv(ci.Common().Args[2])
			var sealed ssa.Value
			if cv, ok := ci.(ssa.Value); ok {
				sealed = cv
			}
			nNonce, nBox := 0, 0
			for _, st := range c14FieldStores([]*ssa.Function{fn}, pkgTypes, "OutOfStoreMessageEnvelope") {
				switch st.Field {
				case "Nonce":
					nNonce++
					v := stripConv(st.Store.Val)
					if sl, ok := v.(*ssa.Slice); ok {
						v = stripConv(sl.X)
					}
					c.check(v == sealNonce, "D6", fnName(fn)+"+envelope.Nonce", st.Store.Pos(), "the envelope carries the nonce it was sealed with", "the nonce written into the push envelope is not the nonce given to secretbox.Seal: the opener cannot open the box")
				case "Box":
					nBox++
					c.check(stripConv(st.Store.Val) == sealed, "D6", fnName(fn)+"+envelope.Box", st.Store.Pos(), "the envelope carries the sealed box", "the Box written into the push envelope is not the output of secretbox.Seal")
				}
			}
			if nNonce == 0 || nBox == 0 {
				c.fail("D6", fnName(fn)+"+envelope.Nonce", posOf(ci), "the function that seals the push envelope does not fill its Nonce and Box fields")
			}
		}
	}
	if nSeal == 0 {
		c.undecided("D6", fnName(sealO)+"+envelope-key", sealO.Pos(), "no secretbox.Seal on the push seal path")
	}
	for _, fn := range pushOnly {
		for _, ci := range callsIn(fn, keyIs(keySBOpen)) {
			cc := ci.Common()
			if len(cc.Args) != 4 {
				continue
			}
			if _, isPayload := nonceFromCounter(cc.Args[2]); isPayload {
				continue
			}
			_, rs := c14Roles(w, fn, cc.Args[3], false)
			okKey := false
			for r := range rs {
				if strings.HasSuffix(r, ".GetSharedSecret") || strings.HasSuffix(r, ".Secret") || strings.HasSuffix(r, ".GetSecret") {
					okKey = true
				}
			}
			c.check(okKey, "D6", fnName(fn)+"+envelope-key", posOf(ci), "push envelope opened with the group's shared secret", fmt.Sprintf("the push envelope is not opened with the group's shared secret (roots %v)", rs.list()))
			nroles, _ := c14Roles(w, fn, cc.Args[2], true)
			c.check(c14Only(nroles, "OutOfStoreMessageEnvelope.Nonce"), "D6", fnName(fn)+"+envelope-nonce", posOf(ci), "push envelope opened with the envelope's nonce", fmt.Sprintf("the push envelope is opened with a nonce from %v, not the envelope's Nonce", nroles))
			broles, _ := c14Roles(w, fn, cc.Args[1], true)
			c.check(c14Only(broles, "OutOfStoreMessageEnvelope.Box"), "D6", fnName(fn)+"+envelope-box", posOf(ci), "the box opened is the envelope's Box", fmt.Sprintf("the box opened comes from %v, not the envelope's Box", broles))
		}
	}
	// (c) headers rebuilt on the push path map field to field
	for _, st := range c14FieldStores(pushOnly, pkgTypes, "MessageHeaders") {
		switch st.Field {
		case "Counter", "DevicePk", "Sig":
			roles, _ := c14Roles(w, st.Fn, st.Store.Val, true)
			c.check(c14Only(roles, "OutOfStoreMessage."+st.Field), "D6", fnName(st.Fn)+"+MessageHeaders."+st.Field, st.Store.Pos(), "rebuilt header field taken from the same field of the push message", fmt.Sprintf("the rebuilt headers' %s is taken from %v", st.Field, roles))
		}
	}
	// payload box input is the push message's EncryptedPayload (followed into shared helpers by argument)
	for _, fn := range pushOnly {
		for _, b := range fn.Blocks {
			for _, in := range b.Instrs {
				call, ok := in.(*ssa.Call)
				if !ok {
					continue
				}
				callee := staticCallee(call.Common())
				if callee == nil || !inModule(callee) {
					continue
				}
				// a callee that opens the payload box with one of its []byte parameters
				for _, ci := range callsIn(callee, keyIs(keySBOpen)) {
					cc := ci.Common()
					if len(cc.Args) != 4 {
						continue
					}
					if _, isPayload := nonceFromCounter(cc.Args[2]); !isPayload {
						continue
					}
					for pi, p := range callee.Params {
						if stripConv(cc.Args[1]) == ssa.Value(p) && pi < len(call.Common().Args) {
							roles, _ := c14Roles(w, fn, call.Common().Args[pi], true)
							c.check(c14Only(roles, "OutOfStoreMessage.EncryptedPayload"), "D6", fnName(fn)+"+payload-input", posOf(call), "the payload box opened is the push message's EncryptedPayload", fmt.Sprintf("the payload box opened on the push path comes from %v, not the push message's EncryptedPayload", roles))
						}
					}
				}
			}
		}
	}
	// (d) helpers shared with the log path get device key / group key / counter in the same positions
	type roleSig []string
	sigOf := func(fn *ssa.Function, call *ssa.Call, callee *ssa.Function) roleSig {
		var out roleSig
		for i, a := range call.Common().Args {
			if i >= len(callee.Params) {
				break
			}
			pt := callee.Params[i].Type()
			switch {
			case isNamed(pt, "github.com/libp2p/go-libp2p/core/crypto", "PubKey"):
				kr, rs := c14Roles(w, fn, a, true)
				isDev := rs["call:"+keyUnmEd] && len(kr) > 0
				for _, r := range kr {
					if !strings.HasSuffix(r, ".DevicePk") {
						isDev = false
					}
				}
				if o := c14Origin(a, 0); strings.HasPrefix(o, "key(") && strings.HasSuffix(o, ".DevicePk)") {
					isDev = true // decoded from a message's DevicePk, seen through variable cells and captures
				}
				if isDev {
					out = append(out, fmt.Sprintf("#%d=device-key", i))
				} else {
					out = append(out, fmt.Sprintf("#%d=other-key", i))
				}
			case c14TypeName(pt) == "[]byte":
				roles, _ := c14Roles(w, fn, a, true)
				isSig := len(roles) > 0
				for _, r := range roles {
					if !strings.HasSuffix(r, ".Sig") {
						isSig = false
					}
				}
				if o := c14Origin(a, 0); strings.HasSuffix(o, ".Sig") && !strings.HasPrefix(o, "key(") {
					isSig = true
				}
				if isSig {
					out = append(out, fmt.Sprintf("#%d=message-signature", i))
				} else {
					out = append(out, fmt.Sprintf("#%d=other-bytes", i))
				}
			case c14TypeName(pt) == "uint64":
				roles, _ := c14Roles(w, fn, a, true)
				isCtr := len(roles) > 0
				for _, r := range roles {
					if !strings.HasSuffix(r, ".Counter") {
						isCtr = false
					}
				}
				if pv, _, _ := c14Up(w, fn, a); !c14IsPlainField(pv) {
					isCtr = false
				}
				if o := c14Origin(a, 0); strings.HasSuffix(o, ".Counter") && !strings.HasPrefix(o, "key(") {
					isCtr = true
				}
				if isCtr {
					out = append(out, fmt.Sprintf("#%d=message-counter", i))
				} else {
					out = append(out, fmt.Sprintf("#%d=other-number", i))
				}
			}
		}
		return out
	}
	nShared := 0
	for _, pf := range pushOnly {
		for _, b := range pf.Blocks {
			for _, in := range b.Instrs {
				call, ok := in.(*ssa.Call)
				if !ok {
					continue
				}
				callee := staticCallee(call.Common())
				if callee == nil || !inModule(callee) || callee.Blocks == nil {
					continue
				}
				if _, shared := logAll[callee]; !shared || fnPkg(callee).Path() != pkgSecret {
					continue
				}
				ps := sigOf(pf, call, callee)
				if len(ps) == 0 {
					continue
				}
				// the log path's calls of the same helper
				var ref roleSig
				var refCaller *ssa.Function
				for _, site := range w.callGraph().callers[callee] {
					if _, onLog := logAll[site.Caller]; !onLog {
						continue
					}
					if _, onPush := pushAll[site.Caller]; onPush {
						continue // callers shared by both paths tell nothing about the log path's convention
					}
					if lc, ok := site.Instr.(*ssa.Call); ok && site.Caller != pf {
						ref = sigOf(site.Caller, lc, callee)
						refCaller = site.Caller
					}
				}
				if refCaller == nil {
					continue
				}
				nShared++
				c.analysed(callee)
				c.check(strings.Join(ps, ",") == strings.Join(ref, ","), "D6", fnName(pf)+"->"+callee.Name()+"+roles", posOf(call), "same argument roles as on the log path",
					fmt.Sprintf("the push path calls %s with %v but the log path (%s) calls it with %v: device key, group key or counter swapped", fnName(callee), ps, fnName(refCaller), ref))
			}
		}
	}
	if nShared == 0 {
		c.undecided("D6", fnName(openO)+"+shared-helpers", openO.Pos(), "the push path shares no key/counter-taking helper with the log path: role agreement cannot be compared")
	}
	c.count("helpers shared by push and log path", nShared)
	_ = ei
	_ = cs
	_ = refFn
}

// ---- D7 the reference window is updated in one write-locked critical section -----------

// c14D7: in the reference store (everything behind UpdateOutOfStoreGroupReferences) the read of
// the recorded first/last counters, every Put/Delete of a reference and the write of the new
// first/last record hold the store's message mutex in write mode on every call path, and the
// mutex is not released between two of them: the update is a read-modify-write of the window.
func c14D7(c *Ctx, ei *effectInfo, updR *ssa.Function) {
	w := c.W
	cls := messageLockClass(w)
	if cls == "" {
		c.undecided("D7", fnName(updR)+"+lock", updR.Pos(), "the SecretStore implementation has no single sync.RWMutex field: lock class of the message mutex not determined")
		return
	}
	li := w.locks()
	onWindow := func(e Effect) bool {
		for _, p := range strings.Split(e.NS, "|") {
			if p == nsHint || p == nsHintCtr {
				return true
			}
		}
		return false
	}
	scope := w.reachableFuncs([]*ssa.Function{updR}, 4)
	n := 0
	for _, fn := range sortedFuncs(scope) {
		if p := fnPkg(fn); p == nil || p.Path() != pkgSecret {
			continue
		}
		sites := c14SitesWith(ei, fn, onWindow)
		for _, s := range sites {
			if !s.Direct {
				continue
			}
			n++
			c.analysed(fn)
			in := s.Instr.(ssa.Instruction)
			construct := fnName(fn) + "+" + s.Effects[0].Op + "[" + s.Effects[0].NS + "]+locked"
			if li.heldAt(in).holds(cls, 'W') {
				c.ok("D7", construct, posOf(s.Instr), "runs with %s write-locked on every call path", cls)
				continue
			}
			// a closure run from a table: it executes at the dynamic calls of its enclosing function
			if args := s.Instr.Common().Args; fn.Parent() != nil && len(args) >= 2 {
				if prm, ok := stripConv(args[1]).(*ssa.Parameter); ok && prm.Parent() == fn {
					dcs := c14DynCallsOf(w, fn, c14ParamIndex(prm))
					held := len(dcs) > 0
					for _, dc := range dcs {
						if !li.heldAt(dc.call).holds(cls, 'W') {
							held = false
						}
					}
					if held {
						c.ok("D7", construct, posOf(s.Instr), "runs (at the calls of the closure in %s) with %s write-locked", fnName(fn.Parent()), cls)
						continue
					}
				}
			}
			chain := unlockedOnSomePath(w, in, cls, nil)
			c.fail("D7", construct, posOf(s.Instr), "%s of the reference window runs without %s write-locked (call path %s): two concurrent window updates (a push and a log delivery of the same sender) interleave, the recorded first/last no longer describes the stored references and pushes inside the window are refused", s.Effects[0], cls, strings.Join(chain, " -> "))
		}
		// closures of fn that perform window effects run at fn's dynamic calls: those count as sites of fn
		for _, g := range fn.AnonFuncs {
			for _, gs := range c14SitesWith(ei, g, onWindow) {
				if args := gs.Instr.Common().Args; gs.Direct && len(args) >= 2 {
					if prm, ok := stripConv(args[1]).(*ssa.Parameter); ok && prm.Parent() == g {
						for _, dc := range c14DynCallsOf(w, g, c14ParamIndex(prm)) {
							sites = append(sites, effectSite{Instr: dc.call, Effects: gs.Effects})
						}
					}
				}
			}
		}
		// one critical section: no release of the mutex between two window effects
		var unlocks []ssa.Instruction
		for _, b := range fn.Blocks {
			for _, in := range b.Instrs {
				if ci, ok := in.(ssa.CallInstruction); ok {
					if op, ok := lockOpOf(ci); ok && !op.Acquire && !op.Deferred && op.Class == cls {
						unlocks = append(unlocks, in)
					}
				}
			}
		}
		if len(sites) >= 2 || fn == updR {
			split := ""
			var at token.Pos
			for _, u := range unlocks {
				for _, a := range sites {
					for _, b := range sites {
						if instrReaches(a.Instr.(ssa.Instruction), u) && instrReaches(u, b.Instr.(ssa.Instruction)) {
							split = fmt.Sprintf("%s is released at %s between %s (%s) and %s (%s)", cls, c.pos(posOf(u)), a.Effects[0], c.pos(posOf(a.Instr)), b.Effects[0], c.pos(posOf(b.Instr)))
							at = posOf(u)
						}
					}
				}
			}
			if len(sites) > 0 {
				n++
				if split == "" {
					c.ok("D7", fnName(fn)+"+one-critical-section", fn.Pos(), "the mutex is not released between the window's read and its writes")
				} else {
					c.fail("D7", fnName(fn)+"+one-critical-section", at, "the window update is split into several critical sections: %s; another update can run in between on a stale first/last record", split)
				}
			}
		}
	}
	if n == 0 {
		c.undecided("D7", fnName(updR)+"+window-effects", updR.Pos(), "no datastore effect on the push-hint namespaces behind UpdateOutOfStoreGroupReferences")
	}
}

// ---- D8 the window follows authenticated messages only ----------------------------------

// c14D8: every call of UpdateOutOfStoreGroupReferences whose counter is a message's Counter
// field (headers of a log message, or an opened push message) is dominated, on every module
// call path, by the accepting side of the call that opened and authenticated that message:
// SecretStore.OpenEnvelopePayload on the log path, a function all of whose success returns
// pass an accepted Verify on the push path. A payload that is going to be rejected must not
// move the sender's window.
func c14D8(c *Ctx, openO, openP, updR *ssa.Function) {
	w := c.W
	cg := w.callGraph()
	vc := newVerifierCache(w, checkRole{Name: "authenticated-open", Match: func(fn *ssa.Function, ci ssa.CallInstruction) []ssa.Value {
		cc := ci.Common()
		k := calleeKey(cc)
		switch {
		case k == keyVerify:
			if v := boolVerdict(ci); v != nil {
				return []ssa.Value{v}
			}
		case k == keyOpenPayIface || staticCallee(cc) == openP:
			if v := errVerdict(ci); v != nil {
				return []ssa.Value{v}
			}
		}
		return nil
	}})
	afterAuth := func(in ssa.Instruction) bool {
		fn := in.Parent()
		for _, b := range fn.Blocks {
			for _, x := range b.Instrs {
				call, ok := x.(*ssa.Call)
				if !ok {
					continue
				}
				vs := vc.role.Match(fn, call)
				if len(vs) == 0 {
					if cal := staticCallee(call.Common()); cal != nil && cal.Blocks != nil && inModule(cal) && errResultIndex(cal.Signature) >= 0 && vc.info(cal).IsVerifier {
						if v := errVerdict(call); v != nil {
							vs = []ssa.Value{v}
						}
					}
				}
				for _, v := range vs {
					for _, e := range edgesOfVerdict(v).Accept {
						if edgeDominates(e, in.Block()) {
							return true
						}
					}
				}
			}
		}
		return false
	}
	var walk func(in ssa.Instruction, seen map[*ssa.Function]bool, chain []string) []string
	walk = func(in ssa.Instruction, seen map[*ssa.Function]bool, chain []string) []string {
		fn := in.Parent()
		here := append([]string{fnName(fn)}, chain...)
		if afterAuth(in) {
			return nil
		}
		if seen[fn] {
			return nil
		}
		callers := cg.callers[fn]
		if len(callers) == 0 || (fn.Object() != nil && fn.Object().Exported()) {
			return here
		}
		seen[fn] = true
		defer delete(seen, fn)
		for _, cs := range callers {
			if bad := walk(cs.Instr.(ssa.Instruction), seen, here); bad != nil {
				return bad
			}
		}
		return nil
	}
	n := 0
	for _, fn := range w.ModFuncs {
		for _, u := range callsIn(fn, func(k string, cc *ssa.CallCommon) bool { return k == keyUpdRefsIface || staticCallee(cc) == updR }) {
			if _, isCall := u.(*ssa.Call); !isCall {
				continue
			}
			var ctr ssa.Value
			for _, a := range u.Common().Args {
				if c14TypeName(a.Type()) == "uint64" {
					ctr = a
				}
			}
			base, field := c14FieldOf(ctr)
			if base == nil || field != "Counter" || !(isNamed(base.Type(), pkgTypes, "MessageHeaders") || isNamed(base.Type(), pkgTypes, "OutOfStoreMessage")) {
				continue // not a message's counter (registration starts the window at the announced chain key)
			}
			n++
			c.analysed(fn)
			what := "log message"
			if isNamed(base.Type(), pkgTypes, "OutOfStoreMessage") {
				what = "push message"
			}
			bad := walk(u.(ssa.Instruction), map[*ssa.Function]bool{}, nil)
			c.check(bad == nil, "D8", fnName(fn)+"+window-after-open", posOf(u), "the window is moved only after the "+what+" was opened and authenticated",
				"the reference window is re-centred on the counter of a "+what+" that has not (yet) been opened and authenticated (call path "+strings.Join(bad, " -> ")+"): a payload that is then rejected - beyond the precomputed keys, or forged by a member with an arbitrary counter - has already moved the sender's window, and genuine payloads are refused as unknown references")
		}
	}
	if n == 0 {
		c.undecided("D8", fnName(openO)+"+window-after-open", openO.Pos(), "no call of UpdateOutOfStoreGroupReferences with a message counter found")
	}
}

// ---- D9 the window set at registration is centred on the persisted chain key -------------

// c14D9: every call of UpdateOutOfStoreGroupReferences has a counter of known origin. A
// message's Counter is D8's subject. A chain key's Counter (registration of a sender) must be
// read from the very chain-key value that the same function hands to the write on the
// chain-key namespace before the call: the precomputed message keys are the ones after the
// announced key up to the persisted one, and references are kept +-size around the counter
// given here, so only the persisted (advanced) counter puts every precomputed key inside the
// window. Any other origin cannot be related to the keys the store holds.
func c14D9(c *Ctx, ei *effectInfo, updR *ssa.Function) {
	w := c.W
	putChain := eff("Put", nsChainKey)
	n := 0
	for _, fn := range w.ModFuncs {
		for _, u := range callsIn(fn, func(k string, cc *ssa.CallCommon) bool { return k == keyUpdRefsIface || staticCallee(cc) == updR }) {
			if _, isCall := u.(*ssa.Call); !isCall {
				continue
			}
			var ctr ssa.Value
			for _, a := range u.Common().Args {
				if c14TypeName(a.Type()) == "uint64" {
					ctr = a
				}
			}
			base, field := c14FieldOf(c14Resolve(ctr, 0))
			construct := fnName(fn) + "+window-counter-origin"
			if base != nil && field == "Counter" && (isNamed(base.Type(), pkgTypes, "MessageHeaders") || isNamed(base.Type(), pkgTypes, "OutOfStoreMessage")) {
				continue // a message's counter: D8
			}
			n++
			c.analysed(fn)
			if base == nil || field != "Counter" || !isNamed(base.Type(), pkgTypes, "DeviceChainKey") {
				c.undecided("D9", construct, posOf(u), "the counter given to UpdateOutOfStoreGroupReferences is neither a message's Counter nor a chain key's Counter: its relation to the keys held by the store is not modelled")
				continue
			}
			// the chain-key writes of this function that can run before the call, each resolved to
			// the chain-key value it stores, expressed in this function's terms (through helpers
			// that store a parameter, and helpers that return what they stored)
			var written []ssa.Value
			nSites, modelled, whyNot := 0, true, ""
			viaClosure := map[ssa.CallInstruction]bool{}
			for _, cc := range c14ClosureCalls(fn) {
				viaClosure[cc.call] = true
			}
			for _, s := range ei.sitesWith(fn, putChain) {
				if !instrReaches(s.Instr.(ssa.Instruction), u.(ssa.Instruction)) {
					continue
				}
				if viaClosure[s.Instr] {
					continue // the write is made by a closure handed to this helper: followed below
				}
				nSites++
				vals, why := c14StoredAtSite(ei, fn, s, 0)
				if why != "" {
					modelled, whyNot = false, why
					continue
				}
				written = append(written, vals...)
			}
			// writes made by a closure of this function that a module helper runs (withLock(func(){...}))
			for _, cc := range c14ClosureCalls(fn) {
				if !instrReaches(cc.call, u.(ssa.Instruction)) {
					continue
				}
				for _, s := range ei.sitesWith(cc.closure, putChain) {
					nSites++
					vals, why := c14StoredAtSite(ei, cc.closure, s, 0)
					if why != "" {
						modelled, whyNot = false, why
						continue
					}
					written = append(written, vals...)
				}
			}
			switch {
			case nSites == 0 && isStoredChainKey(w, base):
				c.ok("D9", construct, posOf(u), "the window is centred on the counter of the chain key read from the store")
			case nSites == 0:
				c.fail("D9", construct, posOf(u), "the window is centred on the counter of a chain key that this function neither persisted nor read from the store")
			case !modelled:
				c.undecided("D9", construct, posOf(u), "cannot tell which chain-key value is written to the chain-key namespace before the window is set: %s", whyNot)
			default:
				same := len(written) > 0
				for _, wv := range written {
					if !c14SameValue(wv, base) {
						same = false
					}
				}
				c.check(same, "D9", construct, posOf(u), "the window is centred on the counter of the chain key that was just persisted",
					"the counter given to UpdateOutOfStoreGroupReferences is read from another chain-key value than the one written to the chain-key namespace before it (typically the announced key instead of the one advanced by the precomputed window): the references cover [c-size, c+size) while the precomputed keys are c+1..c+window, so the last precomputed messages open through the log but their push payloads are refused as unknown group reference")
			}
		}
	}
	if n == 0 {
		c.undecided("D9", fnName(updR)+"+window-counter-origin", updR.Pos(), "no call of UpdateOutOfStoreGroupReferences outside message delivery found (registration no longer creates the window?)")
	}
}

// c14StoredAtSite: the DeviceChainKey value(s) that the effect site s of fn (a site performing
// Put on the chain-key namespace) stores, as SSA values of fn. A direct Put stores the message
// given to proto.Marshal; a call stores what its callee stores: a callee parameter maps to the
// call's argument, a value local to the callee maps to the call's result when the callee
// returns exactly that value (or nil: nothing written) on every success return. why != ""
// when a step is not modelled.
func c14StoredAtSite(ei *effectInfo, fn *ssa.Function, s effectSite, depth int) (vals []ssa.Value, why string) {
	putChain := eff("Put", nsChainKey)
	if depth > 3 {
		return nil, "call chain to the chain-key write deeper than 3"
	}
	if s.Direct {
		args := s.Instr.Common().Args
		if len(args) < 3 {
			return nil, "unexpected datastore Put arity in " + fnName(fn)
		}
		v := stripConv(args[2])
		if ex, ok := v.(*ssa.Extract); ok {
			v = ex.Tuple
		}
		if mc, ok := v.(*ssa.Call); ok && calleeKey(mc.Common()) == "google.golang.org/protobuf/proto.Marshal" && len(mc.Common().Args) == 1 {
			if m := stripConv(mc.Common().Args[0]); isNamed(m.Type(), pkgTypes, "DeviceChainKey") {
				return []ssa.Value{m}, ""
			}
		}
		return nil, "the bytes written by " + fnName(fn) + " are not a marshalled DeviceChainKey"
	}
	call, ok := s.Instr.(*ssa.Call)
	callee := staticCallee(s.Instr.Common())
	if !ok || callee == nil || callee.Blocks == nil || !inModule(callee) {
		return nil, "the chain-key write is behind a dynamic call in " + fnName(fn)
	}
	for _, cs := range ei.sitesWith(callee, putChain) {
		inner, w := c14StoredAtSite(ei, callee, cs, depth+1)
		if w != "" {
			return nil, w
		}
		for _, iv := range inner {
			iv = c14Resolve(stripConv(iv), 0)
			if cv := c14CellValues(iv, 0); len(cv) == 1 {
				iv = cv[0] // a local cell (named result, spilled variable) that only ever holds one value
			}
			if p, isParam := iv.(*ssa.Parameter); isParam && p.Parent() == callee {
				if idx := c14ParamIndex(p); idx >= 0 && idx < len(call.Common().Args) {
					vals = append(vals, call.Common().Args[idx])
					continue
				}
				return nil, "parameter of " + fnName(callee) + " not matched to an argument"
			}
			// a value computed inside the callee: it must be what the callee returns
			ridx := -1
			for i := 0; i < callee.Signature.Results().Len(); i++ {
				if isNamed(callee.Signature.Results().At(i).Type(), pkgTypes, "DeviceChainKey") {
					ridx = i
				}
			}
			if ridx < 0 {
				return nil, fnName(callee) + " stores a chain key it computed itself and does not return it"
			}
			returned := false
			for _, r := range returnsOf(callee) {
				if !isSuccessReturn(r) {
					continue
				}
				rv := stripConv(retResults(r)[ridx])
				switch {
				case isNilConst(rv) || len(c14CellValues(rv, 0)) == 0:
					// nil chain key: nothing was written on this path (whatever the other results say)
				case c14SameValue(rv, iv):
					returned = true
				default:
					return nil, fnName(callee) + " has a success return that yields another chain key than the one it stored"
				}
			}
			if !returned {
				return nil, fnName(callee) + " never returns the chain key it stored"
			}
			rv := resultValue(call, ridx)
			if rv == nil {
				return nil, "the chain key returned by " + fnName(callee) + " is discarded in " + fnName(fn)
			}
			vals = append(vals, rv)
		}
	}
	if len(vals) == 0 {
		return nil, "no chain-key write found inside " + fnName(callee)
	}
	return vals, ""
}

// c14CellValues: the non-nil values v can denote, looking through loads of local cells
// (variables and named results that go/ssa keeps in an Alloc, e.g. results spilled because of a
// defer): flow-insensitively the values stored into the cell, nil constants and self-copies
// left out. A value that is not such a load denotes itself. An empty result means "only nil".
func c14CellValues(v ssa.Value, depth int) []ssa.Value {
	v = stripConv(v)
	if isNilConst(v) {
		return nil
	}
	ld, ok := v.(*ssa.UnOp)
	if !ok || ld.Op != token.MUL || depth > 4 {
		return []ssa.Value{v}
	}
	al, ok := ld.X.(*ssa.Alloc)
	if !ok || al.Referrers() == nil {
		return []ssa.Value{v}
	}
	var stores []*ssa.Store
	for _, r := range *al.Referrers() {
		switch u := r.(type) {
		case *ssa.Store:
			if u.Addr != ssa.Value(al) {
				return []ssa.Value{v} // the cell's address escapes
			}
			stores = append(stores, u)
		case *ssa.UnOp, *ssa.DebugRef:
		default:
			return []ssa.Value{v} // address taken, captured by a closure, field access: not a plain cell
		}
	}
	var out []ssa.Value
	seen := map[ssa.Value]bool{}
	for _, st := range stores {
		sv := stripConv(st.Val)
		if l2, ok := sv.(*ssa.UnOp); ok && l2.Op == token.MUL && l2.X == ssa.Value(al) {
			continue // the cell copied onto itself (result spill before a return)
		}
		for _, x := range c14CellValues(sv, depth+1) {
			if !seen[x] {
				seen[x] = true
				out = append(out, x)
			}
		}
	}
	return out
}

// c14SameValue: a and b denote the same object, looking through local cells: both denote the
// same non-empty set of values (pairwise the same object).
func c14SameValue(a, b ssa.Value) bool {
	if c14SameObject(stripConv(a), stripConv(b)) {
		return true
	}
	if ca, cb := c14CellOf(a), c14CellOf(b); ca != nil && cb != nil {
		// two reads of one variable (possibly one of them through a closure's capture)
		return ca == cb
	}
	as, bs := c14CellValues(a, 0), c14CellValues(b, 0)
	if len(as) == 0 || len(as) != len(bs) {
		return false
	}
	for _, x := range as {
		found := false
		for _, y := range bs {
			if c14SameObject(x, y) {
				found = true
			}
		}
		if !found {
			return false
		}
	}
	return true
}

func c14FnNames(fns []*ssa.Function) []string {
	var out []string
	for _, f := range fns {
		out = append(out, fnName(f))
	}
	return out
}

// ---- D10 datastore keys separate everything they are given ------------------------------

// c14D10: every datastore-key constructor of the secret store (a function of the package that
// returns a datastore.Key built under one of the package's namespace constants) lets EACH of
// its parameters reach the key. The sibling constructors show the intended shape (group,
// device[, counter]); a constructor that encodes one parameter twice and drops another makes
// records of different groups (devices, counters) share one key: for the window record of the
// push references, the bounds of one group are then read while updating another group, whose
// references are never written and whose pushes are all refused.
func c14D10(c *Ctx, ei *effectInfo) {
	w := c.W
	n := 0
	for _, fn := range w.ModFuncs {
		if p := fnPkg(fn); p == nil || p.Path() != pkgSecret || fn.Parent() != nil || fn.Signature.Recv() != nil || len(fn.Params) == 0 {
			continue
		}
		kidx := -1
		for i := 0; i < fn.Signature.Results().Len(); i++ {
			if isNamed(fn.Signature.Results().At(i).Type(), pkgDatastore, "Key") {
				kidx = i
			}
		}
		if kidx < 0 {
			continue
		}
		rs := RootSet{}
		for _, r := range returnsOf(fn) {
			if !isSuccessReturn(r) {
				continue
			}
			for k := range rootsOf(provCfg{W: w}, retResults(r)[kidx]) {
				rs.add(k)
			}
		}
		ns := ""
		for k := range rs {
			if strings.HasPrefix(k, "const:\"") {
				if s := strings.TrimSuffix(strings.TrimPrefix(k, "const:\""), "\""); ei.nsConst[s] {
					ns = s
				}
			}
		}
		if ns == "" {
			continue // not built under a namespace constant of the package
		}
		c.analysed(fn)
		for _, p := range fn.Params {
			n++
			used := rs["param:"+p.Name()] || rs.hasPrefix("param:"+p.Name()+".")
			c.check(used, "D10", fmt.Sprintf("%s+key[%s].%s", fnName(fn), ns, c14TypeName(p.Type())+"#"+fmt.Sprint(c14ParamIndex(p))), fn.Pos(),
				"the parameter is part of the key",
				fmt.Sprintf("parameter %q of the key constructor for namespace %s never reaches the key (another parameter is probably encoded twice): records that differ only in it share one datastore key; for the push reference window the bounds of one group are used for another and that group's references are never written", p.Name(), ns))
		}
	}
	if n == 0 {
		c.undecided("D10", "key-constructors", token.NoPos, "no datastore-key constructor found in the secret store package")
	}
}

// ---- D11 a default secret store is built on the configured datastore ----------------------

// c14FuncValues resolves a function-typed value to the module functions it can denote: the
// function itself, a closure, the functions stored into a package-level variable, or into a
// field of a package-level struct variable (directly or through a composite literal that is
// copied into it). ok is false when some source is not understood.
func c14FuncValues(w *World, v ssa.Value, depth int) (out []*ssa.Function, ok bool) {
	if depth > 5 {
		return nil, false
	}
	switch x := v.(type) {
	case *ssa.Function:
		return []*ssa.Function{x}, true
	case *ssa.MakeClosure:
		if f, isF := x.Fn.(*ssa.Function); isF {
			return []*ssa.Function{f}, true
		}
		return nil, false
	case *ssa.ChangeType:
		return c14FuncValues(w, x.X, depth+1)
	case *ssa.UnOp:
		if x.Op != token.MUL {
			return nil, false
		}
		switch a := x.X.(type) {
		case *ssa.Global:
			return c14StoredFuncs(w, a, -1, depth)
		case *ssa.FieldAddr:
			if g, isG := a.X.(*ssa.Global); isG {
				return c14StoredFuncs(w, g, a.Field, depth)
			}
		}
	}
	return nil, false
}

// c14StoredFuncs: the functions stored into global g (field < 0) or into field `field` of the
// struct held by g, anywhere in the module.
func c14StoredFuncs(w *World, g *ssa.Global, field int, depth int) (out []*ssa.Function, ok bool) {
	ok = true
	found := false
	add := func(v ssa.Value) {
		fs, k := c14FuncValues(w, v, depth+1)
		if !k {
			ok = false
		}
		out = append(out, fs...)
		found = true
	}
	for _, fn := range w.ModFuncs {
		for _, b := range fn.Blocks {
			for _, in := range b.Instrs {
				st, isSt := in.(*ssa.Store)
				if !isSt {
					continue
				}
				switch {
				case st.Addr == ssa.Value(g) && field < 0:
					add(st.Val)
				case st.Addr == ssa.Value(g) && field >= 0:
					// whole struct copied in: from a local composite literal
					ld, isLd := st.Val.(*ssa.UnOp)
					al, isAl := (ssa.Value)(nil), false
					if isLd && ld.Op == token.MUL {
						al, isAl = ld.X.(*ssa.Alloc)
					}
					if !isAl {
						ok = false
						continue
					}
					for _, r := range *al.(*ssa.Alloc).Referrers() {
						if fa, isFA := r.(*ssa.FieldAddr); isFA && fa.Field == field && fa.Referrers() != nil {
							for _, rr := range *fa.Referrers() {
								if s2, isS2 := rr.(*ssa.Store); isS2 && s2.Addr == ssa.Value(fa) {
									add(s2.Val)
								}
							}
						}
					}
				default:
					if fa, isFA := st.Addr.(*ssa.FieldAddr); isFA && field >= 0 && fa.X == ssa.Value(g) && fa.Field == field {
						add(st.Val)
					}
				}
			}
		}
	}
	return out, ok && found
}

// c14NilTestOf: cond tests "field `field` of object obj is nil"; returns the successor index
// (0 true edge, 1 false edge) taken when it IS nil. The test may be written directly or be the
// result of a (resolved) predicate function of the object whose every return is such a test.
func c14NilTestOf(w *World, cond ssa.Value, obj ssa.Value, field int, depth int) (int, bool) {
	neg := false
	for {
		u, ok := cond.(*ssa.UnOp)
		if !ok || u.Op != token.NOT {
			break
		}
		cond, neg = u.X, !neg
	}
	side := func(isNilOnTrue bool) int {
		if isNilOnTrue != neg {
			return 0
		}
		return 1
	}
	isFieldLoad := func(v, o ssa.Value) bool {
		ld, ok := stripConv(v).(*ssa.UnOp)
		if !ok || ld.Op != token.MUL {
			return false
		}
		fa, ok := ld.X.(*ssa.FieldAddr)
		return ok && fa.Field == field && stripConv(fa.X) == stripConv(o)
	}
	switch x := cond.(type) {
	case *ssa.BinOp:
		if x.Op != token.EQL && x.Op != token.NEQ {
			return 0, false
		}
		if (isFieldLoad(x.X, obj) && isNilConst(x.Y)) || (isFieldLoad(x.Y, obj) && isNilConst(x.X)) {
			return side(x.Op == token.EQL), true
		}
	case *ssa.Call:
		if depth > 2 {
			return 0, false
		}
		cc := x.Common()
		pi := -1
		for i, a := range cc.Args {
			if stripConv(a) == stripConv(obj) {
				pi = i
			}
		}
		if pi < 0 {
			return 0, false
		}
		var fs []*ssa.Function
		if f := staticCallee(cc); f != nil {
			fs = []*ssa.Function{f}
		} else if r, ok := c14FuncValues(w, cc.Value, 0); ok {
			fs = r
		}
		if len(fs) == 0 {
			return 0, false
		}
		all := -1
		for _, f := range fs {
			if f.Blocks == nil || pi >= len(f.Params) {
				return 0, false
			}
			for _, r := range returnsOf(f) {
				if len(r.Results) != 1 {
					return 0, false
				}
				s, ok := c14NilTestOf(w, r.Results[0], f.Params[pi], field, depth+1)
				if !ok || (all >= 0 && all != s) {
					return 0, false
				}
				all = s
			}
		}
		if all < 0 {
			return 0, false
		}
		return side(all == 0), true
	}
	return 0, false
}

// c14GuardedByNil: block blk of fn is only reached when field `field` of obj is nil.
func c14GuardedByNil(w *World, fn *ssa.Function, blk *ssa.BasicBlock, obj ssa.Value, field int) bool {
	for _, b := range fn.Blocks {
		if len(b.Instrs) == 0 {
			continue
		}
		ifi, ok := b.Instrs[len(b.Instrs)-1].(*ssa.If)
		if !ok {
			continue
		}
		if s, ok := c14NilTestOf(w, ifi.Cond, obj, field, 0); ok && edgeDominates(edge{b, b.Succs[s]}, blk) {
			return true
		}
	}
	return false
}

// c14D11: wherever a secret store is built by default from a field of a configuration/service
// object (secretstore.NewSecretStore(obj.F, ...)), every assignment of obj.F that can run
// before it - in the function itself or in the functions the object is handed to, function
// values stored in package-level option variables resolved - happens only when obj.F is nil.
// Otherwise the datastore the caller configured is silently replaced: the out-of-store service
// then opens push payloads on an empty store and refuses everything the account can open.
func c14D11(c *Ctx) {
	w := c.W
	keyNew := pkgSecret + ".NewSecretStore"
	n := 0
	for _, fn := range w.ModFuncs {
		if p := fnPkg(fn); p == nil || p.Path() == pkgSecret {
			continue
		}
		for _, ci := range callsIn(fn, keyIs(keyNew)) {
			call, ok := ci.(*ssa.Call)
			if !ok || len(call.Common().Args) == 0 {
				continue
			}
			ld, ok := stripConv(call.Common().Args[0]).(*ssa.UnOp)
			if !ok || ld.Op != token.MUL {
				continue
			}
			fa, ok := ld.X.(*ssa.FieldAddr)
			if !ok {
				continue
			}
			obj, isParam := stripConv(fa.X).(*ssa.Parameter)
			if !isParam {
				continue // built from a local value: nothing configured can be lost here
			}
			n++
			c.analysed(fn)
			st := obj.Type().Underlying().(*types.Pointer).Elem().Underlying().(*types.Struct)
			fname := st.Field(fa.Field).Name()
			construct := c14OptName(w, fn) + "+NewSecretStore(" + c14TypeName(obj.Type()) + "." + fname + ")"
			bad, undec := c14Clobbers(w, fn, obj, fa.Field, call, map[*ssa.Function]bool{}, 0)
			switch {
			case bad != "":
				c.fail("D11", construct, posOf(call), "the datastore a caller configured in %s.%s is replaced before the default secret store is built on it: %s; the service then opens push payloads on an empty store and refuses every payload the account's own store opens", c14TypeName(obj.Type()), fname, bad)
			case undec != "":
				c.undecided("D11", construct, posOf(call), "cannot follow where %s.%s may be assigned before the secret store is built: %s", c14TypeName(obj.Type()), fname, undec)
			default:
				c.ok("D11", construct, posOf(call), "every earlier assignment of the field is made only when it is nil: a configured datastore is the one the secret store is built on")
			}
		}
	}
	if n == 0 {
		c.undecided("D11", "NewSecretStore(field)", token.NoPos, "no default construction of a secret store from a configuration field found")
	}
}

// c14Clobbers searches fn (and the functions obj is handed to) for an assignment of obj.field
// that is not confined to the "field is nil" side of a test. before != nil restricts the
// search in fn to instructions that can run before it.
func c14Clobbers(w *World, fn *ssa.Function, obj ssa.Value, field int, before ssa.Instruction, seen map[*ssa.Function]bool, depth int) (bad, undecided string) {
	if seen[fn] {
		return "", ""
	}
	seen[fn] = true
	defer delete(seen, fn)
	if depth > 5 {
		return "", "call chain deeper than 5 in " + fnName(fn)
	}
	for _, b := range fn.Blocks {
		for _, in := range b.Instrs {
			if before != nil && (in == before || !instrReaches(in, before)) {
				continue
			}
			switch x := in.(type) {
			case *ssa.Store:
				fa, ok := x.Addr.(*ssa.FieldAddr)
				if !ok || fa.Field != field || stripConv(fa.X) != stripConv(obj) {
					continue
				}
				if !c14GuardedByNil(w, fn, b, obj, field) {
					return fmt.Sprintf("%s assigns it unconditionally (%s:%d)", c14OptName(w, fn), w.Fset.Position(x.Pos()).Filename[strings.LastIndex(w.Fset.Position(x.Pos()).Filename, "/")+1:], w.Fset.Position(x.Pos()).Line), ""
				}
			case *ssa.Call:
				cc := x.Common()
				pi := -1
				args := cc.Args
				for i, a := range args {
					if stripConv(a) == stripConv(obj) {
						pi = i
					}
				}
				if pi < 0 || c14GuardedByNil(w, fn, b, obj, field) {
					continue
				}
				var fs []*ssa.Function
				if cc.IsInvoke() {
					continue // the object is given to an interface method: not a configuration step
				}
				if f := staticCallee(cc); f != nil {
					fs = []*ssa.Function{f}
				} else {
					r, ok := c14FuncValues(w, cc.Value, 0)
					if !ok {
						return "", "a function value called in " + fnName(fn) + " with the object could not be resolved"
					}
					fs = r
				}
				for _, f := range fs {
					if f.Blocks == nil || !inModule(f) || pi >= len(f.Params) {
						continue
					}
					bd, ud := c14Clobbers(w, f, f.Params[pi], field, nil, seen, depth+1)
					if bd != "" {
						return c14OptName(w, fn) + " -> " + bd, ""
					}
					if ud != "" {
						undecided = ud
					}
				}
			}
		}
	}
	return "", undecided
}

// c14OptName: a stable name for fn: an anonymous function that is stored into a package-level
// variable is named after that variable (its "init$N" name depends on source order).
func c14OptName(w *World, fn *ssa.Function) string {
	if fn.Parent() == nil {
		return fnName(fn)
	}
	for _, b := range fn.Parent().Blocks {
		for _, in := range b.Instrs {
			st, ok := in.(*ssa.Store)
			if !ok {
				continue
			}
			g, ok := st.Addr.(*ssa.Global)
			if !ok {
				continue
			}
			v := st.Val
			if ct, isCT := v.(*ssa.ChangeType); isCT {
				v = ct.X
			}
			if v == ssa.Value(fn) {
				if p := fnPkg(fn); p != nil {
					return strings.TrimPrefix(p.Path(), modulePath+"/") + "." + g.Name()
				}
			}
		}
	}
	return fnName(fn)
}

// ---- captured variables -------------------------------------------------------------------

// c14Binding: the value bound to free variable fv where its closure is created.
func c14Binding(fv *ssa.FreeVar) ssa.Value {
	fn := fv.Parent()
	idx := -1
	for i, f := range fn.FreeVars {
		if f == fv {
			idx = i
		}
	}
	par := fn.Parent()
	if idx < 0 || par == nil {
		return nil
	}
	for _, b := range par.Blocks {
		for _, in := range b.Instrs {
			if mc, ok := in.(*ssa.MakeClosure); ok && mc.Fn == ssa.Value(fn) && idx < len(mc.Bindings) {
				return mc.Bindings[idx]
			}
		}
	}
	return nil
}

// c14CellOf: the variable cell (Alloc) that v loads, directly or through a captured variable
// of a closure (followed to the enclosing function, repeatedly).
func c14CellOf(v ssa.Value) *ssa.Alloc {
	ld, ok := stripConv(v).(*ssa.UnOp)
	if !ok || ld.Op != token.MUL {
		return nil
	}
	return c14CellAddr(ld.X, 0)
}

func c14CellAddr(addr ssa.Value, depth int) *ssa.Alloc {
	if depth > 4 {
		return nil
	}
	switch a := addr.(type) {
	case *ssa.Alloc:
		return a
	case *ssa.FreeVar:
		if b := c14Binding(a); b != nil {
			return c14CellAddr(b, depth+1)
		}
	}
	return nil
}

// c14CellStores: every value stored into the variable cell al, in its function and in the
// closures that capture it (transitively); ok is false when the cell's address is used in a
// way that is not a plain load/store/capture.
func c14CellStores(al *ssa.Alloc) (vals []ssa.Value, ok bool) {
	ok = true
	var walk func(addr ssa.Value, depth int)
	walk = func(addr ssa.Value, depth int) {
		refs := addr.Referrers()
		if refs == nil || depth > 4 {
			return
		}
		for _, r := range *refs {
			switch u := r.(type) {
			case *ssa.Store:
				if u.Addr == addr {
					vals = append(vals, u.Val)
				} else {
					ok = false
				}
			case *ssa.UnOp, *ssa.DebugRef:
			case *ssa.MakeClosure:
				f, isF := u.Fn.(*ssa.Function)
				if !isF {
					ok = false
					continue
				}
				for i, b := range u.Bindings {
					if b == addr && i < len(f.FreeVars) {
						walk(f.FreeVars[i], depth+1)
					}
				}
			default:
				ok = false
			}
		}
	}
	walk(al, 0)
	return vals, ok
}

// c14Origin describes where v comes from when that is a single field of a protocol message,
// looking through variable cells (also captured ones), conversions, generated getters and the
// Ed25519 key decoder: "MessageHeaders.Counter", "key(OutOfStoreMessage.DevicePk)". Empty when
// v is anything else.
func c14Origin(v ssa.Value, depth int) string {
	if depth > 8 || v == nil {
		return ""
	}
	v = stripConv(v)
	switch x := v.(type) {
	case *ssa.Extract:
		if call, ok := x.Tuple.(*ssa.Call); ok && x.Index == 0 && calleeKey(call.Common()) == keyUnmEd && len(call.Common().Args) == 1 {
			if o := c14Origin(call.Common().Args[0], depth+1); o != "" {
				return "key(" + o + ")"
			}
		}
		return ""
	case *ssa.Phi:
		out := ""
		for _, e := range x.Edges {
			if isNilConst(e) {
				continue
			}
			o := c14Origin(e, depth+1)
			if o == "" || (out != "" && o != out) {
				return ""
			}
			out = o
		}
		return out
	}
	if cell := c14CellOf(v); cell != nil {
		stores, ok := c14CellStores(cell)
		if !ok {
			return ""
		}
		out := ""
		for _, sv := range stores {
			if isNilConst(sv) {
				continue
			}
			if c2 := c14CellOf(sv); c2 == cell {
				continue
			}
			o := c14Origin(sv, depth+1)
			if o == "" || (out != "" && o != out) {
				return ""
			}
			out = o
		}
		return out
	}
	if base, field := c14FieldOf(v); base != nil {
		if t := c14MessageOf(base, depth+1); t != "" {
			return t + "." + field
		}
	}
	return ""
}

// c14MessageOf: base denotes a protocol message held in a parameter (possibly spilled to a
// variable cell or captured): its type name.
func c14MessageOf(base ssa.Value, depth int) string {
	if depth > 8 {
		return ""
	}
	base = stripConv(base)
	if p, ok := base.(*ssa.Parameter); ok {
		if n := typeNamed(p.Type()); n != nil && n.Obj().Pkg() != nil && n.Obj().Pkg().Path() == pkgTypes {
			return n.Obj().Name()
		}
		return ""
	}
	if cell := c14CellOf(base); cell != nil {
		stores, ok := c14CellStores(cell)
		if !ok {
			return ""
		}
		out := ""
		for _, sv := range stores {
			t := c14MessageOf(sv, depth+1)
			if t == "" || (out != "" && t != out) {
				return ""
			}
			out = t
		}
		return out
	}
	return ""
}

type c14ClosureCall struct {
	call    *ssa.Call
	closure *ssa.Function
}

// c14ClosureCalls: the calls in fn that hand one of fn's own closures to a module function
// which calls that parameter (a "run this under the lock" helper): the closure's body then
// runs at the call.
func c14ClosureCalls(fn *ssa.Function) []c14ClosureCall {
	var out []c14ClosureCall
	for _, b := range fn.Blocks {
		for _, in := range b.Instrs {
			call, ok := in.(*ssa.Call)
			if !ok {
				continue
			}
			h := staticCallee(call.Common())
			if h == nil || h.Blocks == nil || !inModule(h) {
				continue
			}
			for i, a := range call.Common().Args {
				mc, ok := a.(*ssa.MakeClosure)
				if !ok {
					if ct, isCT := a.(*ssa.ChangeType); isCT {
						mc, ok = ct.X.(*ssa.MakeClosure)
					}
				}
				if !ok || i >= len(h.Params) {
					continue
				}
				g, isF := mc.Fn.(*ssa.Function)
				if !isF || g.Parent() != fn {
					continue
				}
				called := false
				for _, hb := range h.Blocks {
					for _, hin := range hb.Instrs {
						if hc, isCall := hin.(ssa.CallInstruction); isCall && !hc.Common().IsInvoke() && hc.Common().Value == ssa.Value(h.Params[i]) {
							called = true
						}
					}
				}
				if called {
					out = append(out, c14ClosureCall{call, g})
				}
			}
		}
	}
	return out
}

// ---- closures called through a table ------------------------------------------------------

type c14DynCall struct {
	call *ssa.Call
	arg  ssa.Value
}

// c14DynCallsOf: closure g (never called statically) may be called at every dynamic call of its
// enclosing function whose callee has g's signature (a table / struct field of closures run by
// a loop); returns those calls with the argument bound to g's parameter idx.
func c14DynCallsOf(w *World, g *ssa.Function, idx int) []c14DynCall {
	par := g.Parent()
	if par == nil || idx < 0 {
		return nil
	}
	for _, cs := range w.callGraph().callers[g] {
		if staticCallee(cs.Instr.Common()) == g {
			return nil
		}
	}
	var out []c14DynCall
	for _, b := range par.Blocks {
		for _, in := range b.Instrs {
			call, ok := in.(*ssa.Call)
			if !ok || call.Common().IsInvoke() || staticCallee(call.Common()) != nil {
				continue
			}
			if _, isBuiltin := call.Common().Value.(*ssa.Builtin); isBuiltin {
				continue
			}
			sig, ok := call.Common().Value.Type().Underlying().(*types.Signature)
			if !ok || !types.Identical(sig, g.Signature) || idx >= len(call.Common().Args) {
				continue
			}
			out = append(out, c14DynCall{call, call.Common().Args[idx]})
		}
	}
	return out
}

// c14SitesIn: the effect sites of fn, where a direct datastore operation of a closure whose key
// is the closure's parameter takes its namespace label from the keys handed to the closure at
// the dynamic calls of its enclosing function.
func c14SitesIn(ei *effectInfo, fn *ssa.Function) []effectSite {
	sites := ei.sitesIn(fn)
	if fn.Parent() == nil {
		return sites
	}
	out := make([]effectSite, 0, len(sites))
	for _, s := range sites {
		if s.Direct && len(s.Effects) == 1 && s.Effects[0].NS == "" {
			if args := s.Instr.Common().Args; len(args) >= 2 {
				if prm, ok := stripConv(args[1]).(*ssa.Parameter); ok && prm.Parent() == fn {
					labels := map[string]bool{}
					for _, dc := range c14DynCallsOf(ei.w, fn, c14ParamIndex(prm)) {
						for _, l := range strings.Split(ei.namespaceOf(dc.arg), "|") {
							if l != "" {
								labels[l] = true
							}
						}
					}
					var ls []string
					for l := range labels {
						ls = append(ls, l)
					}
					sort.Strings(ls)
					s.Effects = []Effect{{Op: s.Effects[0].Op, NS: strings.Join(ls, "|")}}
				}
			}
		}
		out = append(out, s)
	}
	return out
}

func c14SitesWith(ei *effectInfo, fn *ssa.Function, p EffPred) []effectSite {
	var out []effectSite
	for _, s := range c14SitesIn(ei, fn) {
		if s.has(p) {
			out = append(out, s)
		}
	}
	return out
}

// c14TableFieldValues: v is an element of a slice-typed field F of an element of a local table
// (slice literal of structs) that is iterated: returns the table's backing array and, per entry
// index, the values stored into field F of that entry.
func c14TableFieldValues(v ssa.Value) (*ssa.Alloc, map[int64][]ssa.Value) {
	ld, ok := stripConv(v).(*ssa.UnOp)
	if !ok || ld.Op != token.MUL {
		return nil, nil
	}
	ia, ok := ld.X.(*ssa.IndexAddr)
	if !ok {
		return nil, nil
	}
	var entry ssa.Value
	field := -1
	switch f := ia.X.(type) {
	case *ssa.Field:
		entry, field = f.X, f.Field
	case *ssa.UnOp:
		if fa, ok := f.X.(*ssa.FieldAddr); ok && f.Op == token.MUL {
			entry, field = fa.X, fa.Field
		}
	}
	if entry == nil {
		return nil, nil
	}
	// entry: a copy of (or pointer to) table[i]
	var eaddr ssa.Value = entry
	if l2, ok := entry.(*ssa.UnOp); ok && l2.Op == token.MUL {
		eaddr = l2.X
	}
	if cell, isCell := eaddr.(*ssa.Alloc); isCell && cell.Referrers() != nil {
		// the loop variable lives in its own cell: `pass := table[i]`
		for _, r := range *cell.Referrers() {
			if st, isSt := r.(*ssa.Store); isSt && st.Addr == ssa.Value(cell) {
				if l3, isLd := st.Val.(*ssa.UnOp); isLd && l3.Op == token.MUL {
					eaddr = l3.X
				}
			}
		}
	}
	ia2, ok := eaddr.(*ssa.IndexAddr)
	if !ok {
		return nil, nil
	}
	tbl := ia2.X
	if sl, ok := tbl.(*ssa.Slice); ok {
		tbl = sl.X
	}
	al, ok := tbl.(*ssa.Alloc)
	if !ok || al.Referrers() == nil {
		return nil, nil
	}
	out := map[int64][]ssa.Value{}
	for _, r := range *al.Referrers() {
		e, ok := r.(*ssa.IndexAddr)
		if !ok || e.Referrers() == nil {
			continue
		}
		k, isConst := constInt(e.Index)
		if !isConst {
			continue
		}
		for _, rr := range *e.Referrers() {
			fa, ok := rr.(*ssa.FieldAddr)
			if !ok || fa.Field != field || fa.Referrers() == nil {
				continue
			}
			for _, r3 := range *fa.Referrers() {
				if st, ok := r3.(*ssa.Store); ok && st.Addr == ssa.Value(fa) {
					out[k] = append(out[k], st.Val)
				}
			}
		}
	}
	return al, out
}

// c14TableEntryOf: closure g is stored into a field of entry k of a local table.
func c14TableEntryOf(g *ssa.Function) (*ssa.Alloc, int64, bool) {
	par := g.Parent()
	if par == nil {
		return nil, 0, false
	}
	for _, b := range par.Blocks {
		for _, in := range b.Instrs {
			st, ok := in.(*ssa.Store)
			if !ok {
				continue
			}
			v := st.Val
			if ct, isCT := v.(*ssa.ChangeType); isCT {
				v = ct.X
			}
			mc, ok := v.(*ssa.MakeClosure)
			if !ok || mc.Fn != ssa.Value(g) {
				continue
			}
			fa, ok := st.Addr.(*ssa.FieldAddr)
			if !ok {
				continue
			}
			e, ok := fa.X.(*ssa.IndexAddr)
			if !ok {
				continue
			}
			al, ok := e.X.(*ssa.Alloc)
			k, isConst := constInt(e.Index)
			if ok && isConst {
				return al, k, true
			}
		}
	}
	return nil, 0, false
}
