package main

// C19.D7: a channel created in handler-reachable code may be closed only by the goroutine that
// sends on it (a send on a closed channel panics in the sending goroutine, which no recovery
// interceptor covers), and only once.
//
// C19.D8: a type assertion without comma-ok panics when the dynamic type does not fit. Where the
// dynamic types of the operand can be derived from the module's code (values boxed in the
// module, prototypes of a package-level table, values sent on a local channel, event types an
// event-bus subscription was created for, results of module functions) every one of them must
// fit the asserted type, unless a successful comma-ok assertion of the same value dominates.

import (
	"fmt"
	"go/token"
	"go/types"
	"sort"
	"strings"

	"golang.org/x/tools/go/ssa"
)

// ---------------------------------------------------------------------------
// value origins: through captured cells, closures bindings, phis and static call sites

type c19Flow struct {
	c     *Ctx
	n     *c19Nil
	fns   []*ssa.Function
	binds map[*ssa.FreeVar][]ssa.Value // closure free variable -> values bound to it
	gor   map[*ssa.Function]map[string]bool
	busyG map[*ssa.Function]bool
	spawn map[string][]ssa.Instruction // "go:<fn>" -> the go statements that start it
}

func newC19Flow(c *Ctx, n *c19Nil, fns []*ssa.Function) *c19Flow {
	f := &c19Flow{c: c, n: n, fns: fns, binds: map[*ssa.FreeVar][]ssa.Value{}, gor: map[*ssa.Function]map[string]bool{}, busyG: map[*ssa.Function]bool{}, spawn: map[string][]ssa.Instruction{}}
	for _, fn := range c.W.ModFuncs {
		for _, b := range fn.Blocks {
			for _, in := range b.Instrs {
				mc, ok := in.(*ssa.MakeClosure)
				if !ok {
					continue
				}
				cl, ok := mc.Fn.(*ssa.Function)
				if !ok {
					continue
				}
				for i, bv := range mc.Bindings {
					if i < len(cl.FreeVars) {
						f.binds[cl.FreeVars[i]] = append(f.binds[cl.FreeVars[i]], bv)
					}
				}
			}
		}
	}
	return f
}

// cellStores: the values stored into a local variable cell, in its function and in the closures
// that capture it.
func (f *c19Flow) cellStores(al *ssa.Alloc) []ssa.Value {
	var out []ssa.Value
	var visit func(addr ssa.Value, depth int)
	visit = func(addr ssa.Value, depth int) {
		if depth > 4 || addr.Referrers() == nil {
			return
		}
		for _, r := range *addr.Referrers() {
			switch u := r.(type) {
			case *ssa.Store:
				if u.Addr == addr {
					out = append(out, u.Val)
				}
			case *ssa.MakeClosure:
				cl, ok := u.Fn.(*ssa.Function)
				if !ok {
					continue
				}
				for i, bv := range u.Bindings {
					if bv == addr && i < len(cl.FreeVars) {
						visit(cl.FreeVars[i], depth+1)
					}
				}
			}
		}
	}
	visit(al, 0)
	return out
}

// origins: the definitions v may come from.
func (f *c19Flow) origins(v ssa.Value, depth int, seen map[ssa.Value]bool) []ssa.Value {
	if v == nil || seen[v] {
		return nil
	}
	if depth > 8 {
		return []ssa.Value{v}
	}
	seen[v] = true
	var out []ssa.Value
	each := func(vs []ssa.Value) {
		for _, x := range vs {
			out = append(out, f.origins(x, depth+1, seen)...)
		}
	}
	switch x := v.(type) {
	case *ssa.Phi:
		each(x.Edges)
	case *ssa.ChangeType:
		each([]ssa.Value{x.X})
	case *ssa.UnOp:
		if x.Op != token.MUL {
			return []ssa.Value{v}
		}
		switch a := x.X.(type) {
		case *ssa.Alloc:
			st := f.cellStores(a)
			if len(st) == 0 {
				return []ssa.Value{v}
			}
			each(st)
		case *ssa.FreeVar:
			bs := f.binds[a]
			if len(bs) == 0 {
				return []ssa.Value{v}
			}
			for _, b := range bs {
				if al, ok := b.(*ssa.Alloc); ok {
					each(f.cellStores(al))
				} else if fv, ok := b.(*ssa.FreeVar); ok {
					// captured again by an inner closure: load through the outer free variable
					for _, bb := range f.binds[fv] {
						if al, ok := bb.(*ssa.Alloc); ok {
							each(f.cellStores(al))
						}
					}
				} else {
					return []ssa.Value{v}
				}
			}
		default:
			return []ssa.Value{v}
		}
	case *ssa.Parameter:
		fn := x.Parent()
		idx := -1
		for i, p := range fn.Params {
			if p == x {
				idx = i
			}
		}
		callers := f.c.W.callGraph().callers[fn]
		if idx < 0 || len(callers) == 0 {
			return []ssa.Value{v}
		}
		for _, cs := range callers {
			if staticCallee(cs.Instr.Common()) == nil || idx >= len(cs.Instr.Common().Args) {
				return []ssa.Value{v}
			}
		}
		for _, cs := range callers {
			each([]ssa.Value{cs.Instr.Common().Args[idx]})
		}
	default:
		return []ssa.Value{v}
	}
	return out
}

// chanObjects: the make(chan) instructions v may denote; ok=false when some origin is not one.
func (f *c19Flow) chanObjects(v ssa.Value) (map[*ssa.MakeChan]bool, bool) {
	out := map[*ssa.MakeChan]bool{}
	for _, o := range f.origins(v, 0, map[ssa.Value]bool{}) {
		mc, ok := o.(*ssa.MakeChan)
		if !ok {
			return nil, false
		}
		out[mc] = true
	}
	return out, len(out) > 0
}

// goroutines: the goroutines fn's body may run on: "go:<fn>" when fn is the target of a go
// statement, otherwise the goroutines of the functions that call it (a closure that is called,
// deferred or handed to a callee runs on its creator's goroutine), "entry:<fn>" for an entry point.
func (f *c19Flow) goroutines(fn *ssa.Function) map[string]bool {
	if g, ok := f.gor[fn]; ok {
		return g
	}
	if f.busyG[fn] {
		return map[string]bool{}
	}
	f.busyG[fn] = true
	defer delete(f.busyG, fn)
	out := map[string]bool{}
	add := func(m map[string]bool) {
		for k := range m {
			out[k] = true
		}
	}
	found := false
	if par := fn.Parent(); par != nil {
		for _, b := range par.Blocks {
			for _, in := range b.Instrs {
				mc, ok := in.(*ssa.MakeClosure)
				if !ok || mc.Fn != ssa.Value(fn) {
					continue
				}
				found = true
				spawned, other := false, false
				if mc.Referrers() != nil {
					for _, r := range *mc.Referrers() {
						if g, isGo := r.(*ssa.Go); isGo && g.Call.Value == ssa.Value(mc) {
							spawned = true
							f.noteSpawn("go:"+fnName(fn), g)
						} else if _, isDbg := r.(*ssa.DebugRef); !isDbg {
							other = true
						}
					}
				}
				if spawned {
					out["go:"+fnName(fn)] = true
				}
				if other || !spawned {
					add(f.goroutines(par))
				}
			}
		}
	}
	for _, cs := range f.c.W.callGraph().callers[fn] {
		if staticCallee(cs.Instr.Common()) != fn {
			continue
		}
		found = true
		if g, isGo := cs.Instr.(*ssa.Go); isGo {
			out["go:"+fnName(fn)] = true
			f.noteSpawn("go:"+fnName(fn), g)
		} else {
			add(f.goroutines(cs.Caller))
		}
	}
	if !found {
		out["entry:"+fnName(fn)] = true
	}
	f.gor[fn] = out
	return out
}

func (f *c19Flow) noteSpawn(key string, g ssa.Instruction) {
	for _, x := range f.spawn[key] {
		if x == g {
			return
		}
	}
	f.spawn[key] = append(f.spawn[key], g)
}

// c19Exclusive: no execution performs both instructions (no CFG path between them in either
// direction). A deferred call takes effect at the function's exit, i.e. after everything the
// defer statement can reach.
func c19Exclusive(a, b ssa.Instruction) bool {
	if a.Parent() != b.Parent() {
		return false
	}
	if a.Block() == b.Block() {
		return false
	}
	return !reach(a.Block(), nil)[b.Block()] && !reach(b.Block(), nil)[a.Block()]
}

// exclusiveWithGoroutines: op (in function opFn) can never execute in an invocation that also
// starts one of the goroutines in gs: every go statement starting them is in opFn and shares no
// path with op.
func (f *c19Flow) exclusiveWithGoroutines(op ssa.Instruction, gs map[string]bool) bool {
	if len(gs) == 0 {
		return false
	}
	for g := range gs {
		sites := f.spawn[g]
		if !strings.HasPrefix(g, "go:") || len(sites) == 0 {
			return false
		}
		for _, s := range sites {
			if !c19Exclusive(op, s) {
				return false
			}
		}
	}
	return true
}

func c19SetString(m map[string]bool) string {
	var ks []string
	for k := range m {
		ks = append(ks, k)
	}
	sort.Strings(ks)
	return strings.Join(ks, ", ")
}

func c19SameSet(a, b map[string]bool) bool {
	if len(a) != len(b) {
		return false
	}
	for k := range a {
		if !b[k] {
			return false
		}
	}
	return true
}

// ---------------------------------------------------------------------------
// D7

type c19ChanOp struct {
	Fn    *ssa.Function
	Instr ssa.Instruction
	Chan  ssa.Value
}

func c19RunD7(c *Ctx, f *c19Flow) {
	var closes, sends []c19ChanOp
	for _, fn := range f.fns {
		for _, b := range fn.Blocks {
			if b == fn.Recover {
				continue
			}
			for _, in := range b.Instrs {
				switch x := in.(type) {
				case *ssa.Send:
					sends = append(sends, c19ChanOp{fn, x, x.Chan})
				case *ssa.Select:
					for _, st := range x.States {
						if st.Dir == types.SendOnly {
							sends = append(sends, c19ChanOp{fn, x, st.Chan})
						}
					}
				case ssa.CallInstruction:
					if bi, ok := x.Common().Value.(*ssa.Builtin); ok && bi.Name() == "close" && len(x.Common().Args) == 1 {
						closes = append(closes, c19ChanOp{fn, x, x.Common().Args[0]})
					}
				}
			}
		}
	}
	type sendInfo struct {
		op   c19ChanOp
		objs map[*ssa.MakeChan]bool
	}
	var sinfo []sendInfo
	for _, s := range sends {
		if objs, ok := f.chanObjects(s.Chan); ok {
			sinfo = append(sinfo, sendInfo{s, objs})
		}
	}
	type closeInfo struct {
		op   c19ChanOp
		objs map[*ssa.MakeChan]bool
	}
	var cinfo []closeInfo
	perFn := map[*ssa.Function]int{}
	nOther := 0
	for _, cl := range closes {
		objs, ok := f.chanObjects(cl.Chan)
		if !ok {
			nOther++
			c.note("D7 does not decide the close at %s in %s: the channel is not created by a make(chan) the rule can follow (struct field, map element or result of a call)", c.pos(posOf(cl.Instr)), fnName(cl.Fn))
			continue
		}
		cinfo = append(cinfo, closeInfo{cl, objs})
	}
	inter := func(a, b map[*ssa.MakeChan]bool) bool {
		for k := range a {
			if b[k] {
				return true
			}
		}
		return false
	}
	for i, ci := range cinfo {
		cl := ci.op
		perFn[cl.Fn]++
		c.analysed(cl.Fn)
		construct := fnName(cl.Fn) + "+close"
		if perFn[cl.Fn] > 1 {
			construct += fmt.Sprintf("#%d", perFn[cl.Fn])
		}
		cg := f.goroutines(cl.Fn)
		var bad []string
		nSend := 0
		for _, si := range sinfo {
			if !inter(ci.objs, si.objs) {
				continue
			}
			nSend++
			sg := f.goroutines(si.op.Fn)
			if !c19SameSet(cg, sg) && !f.exclusiveWithGoroutines(cl.Instr, sg) {
				bad = append(bad, fmt.Sprintf("%s sends on it at %s and runs on [%s], while the close runs on [%s]: when the closer finishes first the send panics (send on closed channel) in a goroutine nothing can recover", fnName(si.op.Fn), c.pos(posOf(si.op.Instr)), c19SetString(sg), c19SetString(cg)))
			}
		}
		for j, cj := range cinfo {
			if i == j || !inter(ci.objs, cj.objs) {
				continue
			}
			og := f.goroutines(cj.op.Fn)
			_, d1 := cl.Instr.(*ssa.Defer)
			_, d2 := cj.op.Instr.(*ssa.Defer)
			switch {
			case !c19SameSet(cg, og) && (f.exclusiveWithGoroutines(cl.Instr, og) || f.exclusiveWithGoroutines(cj.op.Instr, cg)):
				// the other close belongs to a goroutine that is never started on the paths of this one
			case !c19SameSet(cg, og):
				bad = append(bad, fmt.Sprintf("it is also closed at %s by %s on another goroutine: the second close panics", c.pos(posOf(cj.op.Instr)), fnName(cj.op.Fn)))
			case cl.Fn == cj.op.Fn && (d1 || d2 || c19BlocksBetween(cl.Instr.Block(), cj.op.Instr.Block(), cj.op.Instr.Block()) && (cl.Instr.Block() != cj.op.Instr.Block() || instrDominates(cl.Instr, cj.op.Instr))):
				if j > i || d1 || d2 {
					bad = append(bad, fmt.Sprintf("it is closed again at %s on a path that has already closed it: the second close panics", c.pos(posOf(cj.op.Instr))))
				}
			}
		}
		if len(bad) == 0 {
			c.ok("D7", construct, posOf(cl.Instr), "channel created in module code is closed on [%s]; %d send site(s) on it, all on the same goroutine; no second close on the same path", c19SetString(cg), nSend)
		} else {
			c.fail("D7", construct, posOf(cl.Instr), "close of a channel that another goroutine sends on or that is closed twice: %s", strings.Join(c19Dedup(bad), "; "))
		}
	}
	c.count("D7.close_sites_in_reachable_code", len(closes))
	c.count("D7.close_sites_not_decided", nOther)
	c.count("D7.send_sites_on_local_channels", len(sinfo))
}

// ---------------------------------------------------------------------------
// D8

const (
	c19PkgEvent = "github.com/libp2p/go-libp2p/core/event"
)

type c19Dyn struct {
	Types   []types.Type
	Decided bool
	Why     string // provenance (decided) or what stopped the derivation (not decided)
}

func c19Undecided(why string) c19Dyn { return c19Dyn{Why: why} }

func (d c19Dyn) merge(o c19Dyn) c19Dyn {
	if !d.Decided {
		return d
	}
	if !o.Decided {
		return o
	}
	out := c19Dyn{Decided: true, Why: d.Why}
	if o.Why != "" && !strings.Contains(out.Why, o.Why) {
		if out.Why != "" {
			out.Why += "; "
		}
		out.Why += o.Why
	}
	seen := map[string]bool{}
	for _, t := range append(append([]types.Type{}, d.Types...), o.Types...) {
		if k := types.TypeString(t, nil); !seen[k] {
			seen[k] = true
			out.Types = append(out.Types, t)
		}
	}
	return out
}

func c19IsNamed(t types.Type, pkg, name string) bool {
	n, ok := t.(*types.Named)
	return ok && n.Obj().Pkg() != nil && n.Obj().Pkg().Path() == pkg && n.Obj().Name() == name
}

// subscribedTypes: the event types of an event-bus subscription value (result 0 of
// (event.Bus).Subscribe(new(T)) or Subscribe([]any{new(T1), new(T2)})).
func (f *c19Flow) subscribedTypes(sub ssa.Value) ([]types.Type, bool) {
	var out []types.Type
	for _, o := range f.origins(sub, 0, map[ssa.Value]bool{}) {
		ex, ok := o.(*ssa.Extract)
		if !ok || ex.Index != 0 {
			return nil, false
		}
		call, ok := ex.Tuple.(*ssa.Call)
		if !ok || !call.Common().IsInvoke() || call.Common().Method.Name() != "Subscribe" || !c19IsNamed(call.Common().Value.Type(), c19PkgEvent, "Bus") || len(call.Common().Args) == 0 {
			return nil, false
		}
		arg := call.Common().Args[0]
		mi, ok := arg.(*ssa.MakeInterface)
		if !ok {
			return nil, false
		}
		elemOf := func(v ssa.Value) (types.Type, bool) {
			m, ok := v.(*ssa.MakeInterface)
			if !ok {
				return nil, false
			}
			p, ok := m.X.Type().Underlying().(*types.Pointer)
			if !ok {
				return nil, false
			}
			return p.Elem(), true
		}
		if sl, isSlice := mi.X.(*ssa.Slice); isSlice {
			arr, ok := sl.X.(*ssa.Alloc)
			if !ok || arr.Referrers() == nil {
				return nil, false
			}
			n := 0
			for _, r := range *arr.Referrers() {
				ia, ok := r.(*ssa.IndexAddr)
				if !ok || ia.Referrers() == nil {
					continue
				}
				for _, rr := range *ia.Referrers() {
					if st, ok := rr.(*ssa.Store); ok && st.Addr == ssa.Value(ia) {
						t, ok := elemOf(st.Val)
						if !ok {
							return nil, false
						}
						out = append(out, t)
						n++
					}
				}
			}
			if n == 0 {
				return nil, false
			}
			continue
		}
		p, ok := mi.X.Type().Underlying().(*types.Pointer)
		if !ok {
			return nil, false
		}
		out = append(out, p.Elem())
	}
	return out, len(out) > 0
}

// recvDyn: dynamic types of a value received from channel ch.
func (f *c19Flow) recvDyn(ch ssa.Value, depth int, seen map[ssa.Value]bool) c19Dyn {
	elem := types.Type(nil)
	if ct, ok := ch.Type().Underlying().(*types.Chan); ok {
		elem = ct.Elem()
	}
	if elem != nil {
		if _, isIface := elem.Underlying().(*types.Interface); !isIface {
			return c19Dyn{Types: []types.Type{elem}, Decided: true, Why: "received from a channel of " + types.TypeString(elem, c19Qual)}
		}
	}
	out := c19Dyn{Decided: true}
	for _, o := range f.origins(ch, 0, map[ssa.Value]bool{}) {
		switch x := o.(type) {
		case *ssa.Const:
			if x.Value == nil {
				continue // nil channel: a receive from it never completes
			}
			return c19Undecided("constant channel")
		case *ssa.Call:
			cc := x.Common()
			if cc.IsInvoke() && cc.Method.Name() == "Out" && c19IsNamed(cc.Value.Type(), c19PkgEvent, "Subscription") {
				ts, ok := f.subscribedTypes(cc.Value)
				if !ok {
					return c19Undecided("the event types of the subscription at " + f.c.pos(posOf(x)) + " cannot be read from its creation")
				}
				out = out.merge(c19Dyn{Types: ts, Decided: true, Why: "event-bus subscription created for " + c19TypeList(ts)})
				continue
			}
			return c19Undecided("channel returned by " + calleeKey(cc))
		case *ssa.MakeChan:
			// every value sent on this channel object in reachable code
			found := false
			for _, fn := range f.fns {
				for _, b := range fn.Blocks {
					for _, in := range b.Instrs {
						var sent []ssa.Value
						var chans []ssa.Value
						switch s := in.(type) {
						case *ssa.Send:
							sent, chans = []ssa.Value{s.X}, []ssa.Value{s.Chan}
						case *ssa.Select:
							for _, st := range s.States {
								if st.Dir == types.SendOnly {
									sent, chans = append(sent, st.Send), append(chans, st.Chan)
								}
							}
						}
						for i, sc := range chans {
							objs, ok := f.chanObjects(sc)
							if !ok || !objs[x] {
								continue
							}
							found = true
							out = out.merge(f.dyn(sent[i], depth+1, seen))
							if !out.Decided {
								return out
							}
						}
					}
				}
			}
			if !found {
				return c19Undecided("no send on the channel found in reachable code")
			}
		default:
			return c19Undecided("channel that is not created in reachable module code")
		}
	}
	return out
}

func c19Qual(p *types.Package) string {
	s := strings.TrimPrefix(p.Path(), modulePath+"/")
	if s == modulePath {
		return "weshnet"
	}
	return s
}

func c19TypeList(ts []types.Type) string {
	var s []string
	for _, t := range ts {
		s = append(s, types.TypeString(t, c19Qual))
	}
	sort.Strings(s)
	if len(s) > 6 {
		s = append(s[:6], fmt.Sprintf("... (%d types)", len(ts)))
	}
	return strings.Join(s, ", ")
}

// tableFieldDyn: dynamic types stored in field fld of the struct values of package-level map g
// (composite literal in the package initialiser).
func (f *c19Flow) tableFieldDyn(g *ssa.Global, fld int) c19Dyn {
	pkg := g.Package()
	if pkg == nil {
		return c19Undecided("global without package")
	}
	initFn := pkg.Func("init")
	if initFn == nil {
		return c19Undecided("no package initialiser")
	}
	// the map stored into g
	var maps []ssa.Value
	stores := 0
	for _, fn := range f.c.W.ModFuncs {
		for _, b := range fn.Blocks {
			for _, in := range b.Instrs {
				if st, ok := in.(*ssa.Store); ok && st.Addr == ssa.Value(g) {
					stores++
					if fn == initFn {
						maps = append(maps, st.Val)
					}
				}
			}
		}
	}
	if stores != 1 || len(maps) != 1 {
		return c19Undecided("table " + g.Name() + " is assigned outside its declaration")
	}
	out := c19Dyn{Decided: true}
	entries := 0
	for _, b := range initFn.Blocks {
		for _, in := range b.Instrs {
			mu, ok := in.(*ssa.MapUpdate)
			if !ok || mu.Map != maps[0] {
				continue
			}
			entries++
			// value: load of a struct cell whose fields were stored one by one
			ld, ok := mu.Value.(*ssa.UnOp)
			if !ok || ld.Op != token.MUL {
				return c19Undecided("table entry not built from a composite literal")
			}
			cell, ok := ld.X.(*ssa.Alloc)
			if !ok || cell.Referrers() == nil {
				return c19Undecided("table entry not built from a composite literal")
			}
			found := false
			for _, r := range *cell.Referrers() {
				fa, ok := r.(*ssa.FieldAddr)
				if !ok || fa.Field != fld || fa.Referrers() == nil {
					continue
				}
				for _, rr := range *fa.Referrers() {
					if st, ok := rr.(*ssa.Store); ok && st.Addr == ssa.Value(fa) {
						found = true
						out = out.merge(f.dyn(st.Val, 1, map[ssa.Value]bool{}))
						if !out.Decided {
							return out
						}
					}
				}
			}
			if !found {
				out = out.merge(c19Dyn{Decided: true, Types: nil}) // field left nil in this entry
			}
		}
	}
	// updates of the table outside the initialiser
	for _, fn := range f.c.W.ModFuncs {
		if fn == initFn {
			continue
		}
		for _, b := range fn.Blocks {
			for _, in := range b.Instrs {
				if mu, ok := in.(*ssa.MapUpdate); ok {
					if ld, ok := mu.Map.(*ssa.UnOp); ok && ld.X == ssa.Value(g) {
						return c19Undecided("table " + g.Name() + " is updated in " + fnName(fn))
					}
				}
			}
		}
	}
	if entries == 0 {
		return c19Undecided("table " + g.Name() + " has no literal entries")
	}
	out.Why = fmt.Sprintf("the %d entries of table %s", entries, strings.TrimPrefix(g.String(), modulePath+"."))
	return out
}

// dyn: the dynamic types an interface value may hold, when they can be derived.
func (f *c19Flow) dyn(v ssa.Value, depth int, seen map[ssa.Value]bool) c19Dyn {
	if v == nil {
		return c19Undecided("no value")
	}
	if depth > 7 {
		return c19Undecided("derivation too deep")
	}
	if seen[v] {
		return c19Dyn{Decided: true}
	}
	seen[v] = true
	defer delete(seen, v)
	if _, isIface := v.Type().Underlying().(*types.Interface); !isIface {
		return c19Dyn{Types: []types.Type{v.Type()}, Decided: true, Why: "value of static type " + types.TypeString(v.Type(), c19Qual)}
	}
	switch x := v.(type) {
	case *ssa.Const:
		return c19Dyn{Decided: true} // nil interface: D2-D4's concern
	case *ssa.MakeInterface:
		return c19Dyn{Types: []types.Type{x.X.Type()}, Decided: true, Why: "boxed " + types.TypeString(x.X.Type(), c19Qual)}
	case *ssa.ChangeInterface:
		return f.dyn(x.X, depth+1, seen)
	case *ssa.ChangeType:
		return f.dyn(x.X, depth+1, seen)
	case *ssa.Phi:
		out := c19Dyn{Decided: true}
		for _, e := range x.Edges {
			out = out.merge(f.dyn(e, depth+1, seen))
			if !out.Decided {
				return out
			}
		}
		return out
	case *ssa.TypeAssert:
		if _, isIface := x.AssertedType.Underlying().(*types.Interface); isIface {
			return f.dyn(x.X, depth+1, seen)
		}
		return c19Dyn{Types: []types.Type{x.AssertedType}, Decided: true, Why: "asserted " + types.TypeString(x.AssertedType, c19Qual)}
	case *ssa.Extract:
		switch t := x.Tuple.(type) {
		case *ssa.TypeAssert:
			if x.Index == 0 {
				return f.dyn(t.X, depth+1, seen)
			}
		case *ssa.Select:
			// (index, recvOk, r0, r1, ...): r_k for the k-th receive state
			k := x.Index - 2
			for _, st := range t.States {
				if st.Dir != types.RecvOnly {
					continue
				}
				if k == 0 {
					return f.recvDyn(st.Chan, depth+1, seen)
				}
				k--
			}
		case *ssa.UnOp:
			if t.Op == token.ARROW && x.Index == 0 {
				return f.recvDyn(t.X, depth+1, seen)
			}
		case *ssa.Call:
			return f.callDyn(t, x.Index, depth, seen)
		case *ssa.Lookup:
			if x.Index == 0 {
				return f.dyn(t, depth+1, seen)
			}
		}
		return c19Undecided("component of " + x.Tuple.Name())
	case *ssa.UnOp:
		switch x.Op {
		case token.ARROW:
			return f.recvDyn(x.X, depth+1, seen)
		case token.MUL:
			switch a := x.X.(type) {
			case *ssa.Alloc, *ssa.FreeVar:
				os := f.origins(x, 0, map[ssa.Value]bool{})
				if len(os) == 1 && os[0] == ssa.Value(x) {
					return c19Undecided("variable whose assignments the rule cannot follow")
				}
				out := c19Dyn{Decided: true}
				for _, o := range os {
					out = out.merge(f.dyn(o, depth+1, seen))
					if !out.Decided {
						return out
					}
				}
				return out
			case *ssa.FieldAddr:
				return f.fieldDyn(a.X, a.Field, depth, seen)
			}
		}
		return c19Undecided("loaded from memory the rule does not model")
	case *ssa.Field:
		return f.fieldDyn(x.X, x.Field, depth, seen)
	case *ssa.Parameter:
		os := f.origins(x, 0, map[ssa.Value]bool{})
		if len(os) == 1 && os[0] == ssa.Value(x) {
			return c19Undecided("parameter " + x.Name() + " of " + fnName(x.Parent()) + ", whose callers are not all static module calls")
		}
		out := c19Dyn{Decided: true}
		for _, o := range os {
			out = out.merge(f.dyn(o, depth+1, seen))
			if !out.Decided {
				return out
			}
		}
		return out
	case *ssa.Call:
		if _, isTuple := x.Type().(*types.Tuple); isTuple {
			return c19Undecided("tuple")
		}
		return f.callDyn(x, 0, depth, seen)
	}
	return c19Undecided("value produced by " + fmt.Sprintf("%T", v))
}

// fieldDyn: field fld of a struct value; decided for elements of a package-level table.
func (f *c19Flow) fieldDyn(base ssa.Value, fld int, depth int, seen map[ssa.Value]bool) c19Dyn {
	// a struct held in a local variable: the values assigned to the variable as a whole
	var bases []ssa.Value
	if al, ok := base.(*ssa.Alloc); ok {
		for _, sv := range f.cellStores(al) {
			bases = append(bases, f.origins(sv, 0, map[ssa.Value]bool{})...)
		}
	} else {
		bases = f.origins(base, 0, map[ssa.Value]bool{})
	}
	// element of a package-level map: Lookup / Extract(Lookup,0) on a load of the global
	for _, o := range bases {
		var lk *ssa.Lookup
		switch x := o.(type) {
		case *ssa.Lookup:
			lk = x
		case *ssa.Extract:
			lk, _ = x.Tuple.(*ssa.Lookup)
		}
		if lk == nil {
			return c19Undecided("field of a value that is not an element of a package-level table")
		}
		ld, ok := lk.X.(*ssa.UnOp)
		if !ok {
			return c19Undecided("field of a map element; the map is not a package-level table")
		}
		g, ok := ld.X.(*ssa.Global)
		if !ok {
			return c19Undecided("field of a map element; the map is not a package-level table")
		}
		return f.tableFieldDyn(g, fld)
	}
	return c19Undecided("field of an unknown value")
}

func (f *c19Flow) callDyn(call *ssa.Call, idx int, depth int, seen map[ssa.Value]bool) c19Dyn {
	cc := call.Common()
	key := calleeKey(cc)
	switch key {
	case "google.golang.org/protobuf/proto.Clone":
		if len(cc.Args) == 1 && idx == 0 {
			d := f.dyn(cc.Args[0], depth+1, seen)
			if d.Decided {
				d.Why = "proto.Clone of a value from " + d.Why
			}
			return d
		}
	}
	callee := staticCallee(cc)
	if callee == nil || callee.Blocks == nil {
		return c19Undecided("result of " + key + ", a function outside the module")
	}
	if o := callee.Origin(); o != nil && o.Blocks != nil && callee.Blocks == nil {
		callee = o
	}
	out := c19Dyn{Decided: true}
	for _, r := range returnsOf(callee) {
		rr := retResults(r)
		if idx >= len(rr) {
			continue
		}
		out = out.merge(f.dyn(rr[idx], depth+1, seen))
		if !out.Decided {
			return out
		}
	}
	if out.Decided && len(out.Types) > 0 {
		out.Why = "result of " + fnName(callee) + " (" + out.Why + ")"
	}
	return out
}

// fits: a value of dynamic type t passes the assertion to asserted.
func c19Fits(t, asserted types.Type) bool {
	if it, ok := asserted.Underlying().(*types.Interface); ok {
		return types.Implements(t, it)
	}
	return types.Identical(t, asserted)
}

// checkedBefore: a successful comma-ok assertion (or type-switch case) of the same value to a
// type that implies the asserted one dominates the instruction.
func c19CheckedBefore(ta *ssa.TypeAssert) bool {
	if ta.X.Referrers() == nil {
		return false
	}
	for _, r := range *ta.X.Referrers() {
		other, ok := r.(*ssa.TypeAssert)
		if !ok || other == ta || !other.CommaOk {
			continue
		}
		if !types.Identical(other.AssertedType, ta.AssertedType) && !c19Fits(other.AssertedType, ta.AssertedType) {
			continue
		}
		for _, ex := range extractsOf(other, 1) {
			for _, e := range edgesOfVerdict(ex).Accept {
				if edgeDominates(e, ta.Block()) {
					return true
				}
			}
		}
	}
	return false
}

// c19UnguardedCommaOkUse: for v, _ := x.(T) (ok discarded) with T an interface or pointer type: a
// method call on v, a field access or a load through v that is not dominated by a nil test of v.
func c19UnguardedCommaOkUse(ta *ssa.TypeAssert) ssa.Instruction {
	switch ta.AssertedType.Underlying().(type) {
	case *types.Interface, *types.Pointer:
	default:
		return nil
	}
	vals := extractsOf(ta, 0)
	if len(vals) == 0 {
		return nil
	}
	// only the shape without any test of ok is decided: the ok result is discarded (blank
	// identifier) or never read; a test of ok through a merged boolean is not followed
	for _, okv := range extractsOf(ta, 1) {
		if okv.Referrers() != nil {
			for _, r := range *okv.Referrers() {
				if _, isDbg := r.(*ssa.DebugRef); !isDbg {
					return nil
				}
			}
		}
	}
	guarded := func(at ssa.Instruction) bool {
		for _, v := range vals {
			if c19Guarded(v, c19AtInstr(at)) {
				return true
			}
		}
		return false
	}
	for _, v := range vals {
		if v.Referrers() == nil {
			continue
		}
		for _, r := range *v.Referrers() {
			use := false
			switch u := r.(type) {
			case *ssa.FieldAddr:
				use = u.X == ssa.Value(v)
			case *ssa.UnOp:
				use = u.Op == token.MUL && u.X == ssa.Value(v)
			case ssa.CallInstruction:
				cc := u.Common()
				use = cc.IsInvoke() && cc.Value == ssa.Value(v)
			}
			if use && !guarded(r) {
				return r
			}
		}
	}
	return nil
}

func c19RunD8(c *Ctx, f *c19Flow) {
	nSites, nDecided, nUndecided, nCommaOk := 0, 0, 0, 0
	for _, fn := range f.fns {
		if fn.Synthetic != "" && fn.Origin() == nil {
			continue // wrappers and bound-method closures; instantiations of generic functions are kept
		}
		k := 0
		for _, b := range fn.Blocks {
			if b == fn.Recover {
				continue
			}
			for _, in := range b.Instrs {
				ta, ok := in.(*ssa.TypeAssert)
				if !ok {
					continue
				}
				if ta.CommaOk {
					// two-value form whose ok does not guard the use of the value: the value is the
					// zero value when the assertion fails, and a method call on it panics just the same
					if use := c19UnguardedCommaOkUse(ta); use != nil {
						nCommaOk++
						d := f.dyn(ta.X, 0, map[ssa.Value]bool{})
						fits := d.Decided
						for _, t := range d.Types {
							if !c19Fits(t, ta.AssertedType) {
								fits = false
							}
						}
						at := types.TypeString(ta.AssertedType, c19Qual)
						construct := fnName(fn) + "+,ok.(" + at + ")"
						c.analysed(fn)
						if fits {
							c.ok("D8", construct, posOf(ta), "two-value assertion to %s whose ok result is discarded before the use at %s, but every dynamic type the operand can hold fits (%s)", at, c.pos(posOf(use)), d.Why)
						} else {
							c.fail("D8", construct, posOf(ta), "two-value assertion to %s whose ok result is discarded and whose value is used at %s without a nil test: when the assertion fails the value is nil and the use panics", at, c.pos(posOf(use)))
						}
					}
					continue
				}
				k++
				nSites++
				c.analysed(fn)
				at := types.TypeString(ta.AssertedType, c19Qual)
				construct := fnName(fn) + "+.(" + at + ")"
				if k > 1 {
					construct += fmt.Sprintf("#%d", k)
				}
				// the operand's static type already guarantees the method set / is the same interface
				if st, ok := ta.X.Type().Underlying().(*types.Interface); ok {
					if it, ok := ta.AssertedType.Underlying().(*types.Interface); ok && (types.Identical(st, it) || types.Implements(ta.X.Type(), it)) {
						nDecided++
						c.ok("D8", construct, posOf(ta), "assertion to an interface the operand's static type %s already satisfies: it can only fail for a nil value (the nil-flow rules)", types.TypeString(ta.X.Type(), c19Qual))
						continue
					}
				}
				if c19CheckedBefore(ta) {
					nDecided++
					c.ok("D8", construct, posOf(ta), "dominated by a successful comma-ok assertion of the same value to %s", at)
					continue
				}
				d := f.dyn(ta.X, 0, map[ssa.Value]bool{})
				if !d.Decided {
					nUndecided++
					c.ok("D8", construct, posOf(ta), "unchecked assertion to %s; not decided: the dynamic type of the operand cannot be derived from module code (%s)", at, d.Why)
					continue
				}
				var bad []types.Type
				for _, t := range d.Types {
					if !c19Fits(t, ta.AssertedType) {
						bad = append(bad, t)
					}
				}
				nDecided++
				if len(bad) == 0 {
					c.ok("D8", construct, posOf(ta), "every dynamic type the operand can hold fits %s: %s (%s)", at, c19TypeList(d.Types), d.Why)
				} else {
					c.fail("D8", construct, posOf(ta), "assertion without comma-ok to %s, but the operand can hold %s (%s): the conversion panics for these values; use the two-value form and answer with an error", at, c19TypeList(bad), d.Why)
				}
			}
		}
	}
	c.count("D8.unchecked_assertions", nSites)
	c.count("D8.decided", nDecided)
	c.count("D8.not_decided", nUndecided)
	c.count("D8.two_value_assertions_with_unguarded_use", nCommaOk)
}

func c19RunD7D8(c *Ctx, n *c19Nil, fns []*ssa.Function) {
	f := newC19Flow(c, n, fns)
	c19RunD7(c, f)
	c19RunD8(c, f)
}
