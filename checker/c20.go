package main

// C20 — An account export restores to the same identity, logs and state.
//
// Subjects are found by role: the exporter is whatever is reachable from the
// ServiceExportData method of the module type implementing ProtocolServiceServer and writes
// tar headers; the restorer is the exported RestoreAccountExport, its handlers are the
// functions stored into the exported fields Handler / PostProcess of RestoreAccountHandler.
// Library callees (tar.Writer, cid.Parse, cid.Cid.Equals, ipld NodeAdder.Add / NodeGetter.Get,
// SecretStore.ImportAccountKeys / ExportAccountKeysForBackup, proto.Marshal) are resolved
// objects; archive entry names are data-format constants compared by value.

import (
	"fmt"
	"go/constant"
	"go/token"
	"go/types"
	"sort"
	"strings"

	"golang.org/x/tools/go/ssa"
)

const (
	c20Root      = modulePath
	c20Types     = modulePath + "/pkg/protocoltypes"
	c20Secret    = modulePath + "/pkg/secretstore"
	c20CidPkg    = "github.com/ipfs/go-cid"
	c20IpldPkg   = "github.com/ipfs/go-ipld-format"
	c20TarHeader = "(*archive/tar.Writer).WriteHeader"
	c20TarWrite  = "(*archive/tar.Writer).Write"
	c20Marshal   = "google.golang.org/protobuf/proto.Marshal"
	c20Unmarshal = "google.golang.org/protobuf/proto.Unmarshal"
)

func init() {
	register(&PropertyDef{
		ID:    "C20",
		Title: "An account export restores to the same identity, logs and state",
		Explanation: "Decides structural necessary conditions of export/restore from the type-checked SSA of /repo. " +
			"(D1) every node handed to the DAG Add on the restore path has, on every path, had its CID recomputed (node.Cid()) and compared with the CID parsed from the archive entry's own name, the mismatch side rejecting, and the Add runs only on the nil-error side of the function that did the comparison. " +
			"(D2) a key file is stored only after a presence test of the same map slot whose 'already there' side returns an error (no overwrite of a duplicate); when that test is a nil/len test, an empty key file is rejected so that the test cannot be fooled. " +
			"(D3) ImportAccountKeys is called on the restore path with argument 0 / 1 looked up under the very names under which the exporter wrote result 0 / 1 of ExportAccountKeysForBackup, its error rejects, the post-process call's error rejects and every success return of RestoreAccountExport lies behind the post-process phase. " +
			"(D4) every entry name or prefix the exporter writes is accepted (same text, same exact/prefix mode) by a built-in restore handler that plays the matching role (key file, DAG entry, heads record), and a key file is stored under the name it was matched by. " +
			"(D5) the export contains both keys, entries and a heads record; the entry list is drawn from the whole log (GetEntries/Values, not the heads) of both the metadata and the message store; each entry file carries RawData() of the node fetched by the CID that names the file; every GroupHeadsExport field the restorer reads is written by the exporter, and each head list is loaded into the kind of store it was taken from. " +
			"(D6) in the functions that read or write the archive every error result is tested and its failing side reaches only error returns (io.EOF, when tested explicitly, ends the read loop); the error returned through the handler table is tested on every path out of the call before the next handler, the next entry or a success return — or, where it is skipped for unhandled entries only, no built-in handler reports a failure as (false, err); and the callers between ServiceExportData and the archive writers enforce the writers' errors. " +
			"(D8) a built-in handler returns 'handled' without error only behind its effect (key bytes stored, node added to the DAG, heads handed to the store loader). " +
			"(D9) the set of groups the export walks (the map ranged over by the exporter) agrees with the service's live group contexts: in every function that stores a non-nil *GroupContext into the service or activates one, each success return lies behind a store into that map. " +
			"(D10) the group registry that the heads restore writes with a partial group (no secret, no type) is overwritten (sync.Map Store/Swap, not LoadOrStore / load-then-skip) with the caller's group before any store is opened in write mode, on every call chain. " +
			"(D11) in the export RPC every path from a read of the archive pipe to the next read or to the end of the sender passes the Send of buffer[:n], except where err == io.EOF, n == 0 or an error is recorded; the frame sent is the read buffer cut to the count returned by that read. " +
			"(D7) behind SecretStore.ImportAccountKeys every keystore Put lies behind a keystore Has phase whose 'exists' side reaches only error returns, and every error result on that path rejects (an existing account or an undecodable/missing key blob fails the import before anything is written); a module helper returning (bool, error) counts as that phase when every return reachable from an 'exists' edge returns true or a non-nil error and the caller's true side and error side reject. " +
			"Not decided: that go-orbit-db's replicator/Load rebuilds an equal log and index from the restored blocks and heads (dependency), byte equality beyond 'the raw block of that CID' (cbornode.Decode re-serialises canonically), the guards inside the secret store (C11), snapshot consistency of an export racing with appends, errors that setHeadsForGroup only logs (advisory note).",
		Trusted:     []string{"golang.org/x/tools go/packages+go/ssa (v0.29.0)", "archive/tar, go-cid (Parse, Cid.Equals), go-ipld-cbor Decode/Cid, go-ipld-format DAGService semantics", "go/types"},
		Assumptions: []string{"dependencies behave as documented; only module code is analysed", "variables captured by the handler closures are assigned once (checked: single store)", "SHA2-256 content addressing is collision resistant, so a node whose CID equals the CID in the file name is the exported block"},
		Floors:      map[string]int{"D1": 1, "D2": 2, "D3": 5, "D4": 4, "D5": 12, "D6": 8, "D7": 4, "D8": 3, "D9": 3, "D10": 2, "D11": 2},
		Run:         runC20,
		Borrows: []Borrow{
			{From: "C11", Rules: []string{"D6"}, Why: "the 'no account key yet' test of the import and the writes of the imported keys must run in one critical section with the first-use key generation: otherwise two concurrent restores (or a restore and a first use) both pass the test and the restored identity is overwritten or overwrites a key already handed out"},
		},
	})
}

// ---------------------------------------------------------------------------
// small helpers

func c20Strip(v ssa.Value) ssa.Value {
	for {
		switch x := v.(type) {
		case *ssa.MakeInterface:
			v = x.X
		case *ssa.ChangeInterface:
			v = x.X
		case *ssa.ChangeType:
			v = x.X
		case *ssa.Convert:
			v = x.X
		default:
			return v
		}
	}
}

func c20Named(t types.Type) *types.Named {
	if p, ok := t.(*types.Pointer); ok {
		t = p.Elem()
	}
	n, _ := t.(*types.Named)
	return n
}

func c20IsNamed(t types.Type, pkg, name string) bool {
	n := c20Named(t)
	return n != nil && n.Obj().Name() == name && n.Obj().Pkg() != nil && n.Obj().Pkg().Path() == pkg
}

func c20IsString(t types.Type) bool {
	b, ok := t.Underlying().(*types.Basic)
	return ok && b.Info()&types.IsString != 0
}

func c20IsInteger(t types.Type) bool {
	b, ok := t.Underlying().(*types.Basic)
	return ok && b.Info()&types.IsInteger != 0
}

func c20IsByteSlice(t types.Type) bool {
	s, ok := t.Underlying().(*types.Slice)
	if !ok {
		return false
	}
	b, ok := s.Elem().Underlying().(*types.Basic)
	return ok && b.Kind() == types.Byte
}

// c20Method: the call is to a method called name (declared in package pkg when pkg != "").
func c20Method(cc *ssa.CallCommon, pkg, name string) bool {
	var fo *types.Func
	if cc.IsInvoke() {
		fo = cc.Method
	} else if f := staticCallee(cc); f != nil {
		if o := f.Origin(); o != nil {
			f = o
		}
		fo, _ = f.Object().(*types.Func)
		if fo != nil {
			if sig, ok := fo.Type().(*types.Signature); !ok || sig.Recv() == nil {
				return false
			}
		}
	}
	if fo == nil || fo.Name() != name {
		return false
	}
	return pkg == "" || (fo.Pkg() != nil && fo.Pkg().Path() == pkg)
}

// c20Recv returns the receiver and the other arguments of a method call.
func c20Recv(cc *ssa.CallCommon) (ssa.Value, []ssa.Value) {
	if cc.IsInvoke() {
		return cc.Value, cc.Args
	}
	if len(cc.Args) == 0 {
		return nil, nil
	}
	return cc.Args[0], cc.Args[1:]
}

// c20FieldRead: v is a read of field f of a struct (load of FieldAddr, or Field).
func c20FieldRead(v ssa.Value) (base ssa.Value, f *types.Var, ok bool) {
	switch x := v.(type) {
	case *ssa.UnOp:
		if x.Op == token.MUL {
			if fa, isFA := x.X.(*ssa.FieldAddr); isFA {
				st := fa.X.Type().Underlying().(*types.Pointer).Elem().Underlying().(*types.Struct)
				return fa.X, st.Field(fa.Field), true
			}
		}
	case *ssa.Field:
		st := x.X.Type().Underlying().(*types.Struct)
		return x.X, st.Field(x.Field), true
	}
	return nil, nil, false
}

// c20SingleStore: the address (alloc, or captured variable) is assigned exactly once.
func c20SingleStore(addr ssa.Value) bool {
	switch a := addr.(type) {
	case *ssa.FreeVar:
		fn := a.Parent()
		par := fn.Parent()
		if par == nil {
			return false
		}
		idx := -1
		for i, f := range fn.FreeVars {
			if f == a {
				idx = i
			}
		}
		okAll := false
		for _, b := range par.Blocks {
			for _, in := range b.Instrs {
				if mc, ok := in.(*ssa.MakeClosure); ok && mc.Fn == ssa.Value(fn) && idx >= 0 && idx < len(mc.Bindings) {
					if !c20SingleStore(mc.Bindings[idx]) {
						return false
					}
					okAll = true
				}
			}
		}
		return okAll
	case *ssa.Alloc:
		n := 0
		if a.Referrers() == nil {
			return false
		}
		for _, r := range *a.Referrers() {
			switch u := r.(type) {
			case *ssa.Store:
				if u.Addr == ssa.Value(a) {
					n++
				}
			case *ssa.MakeClosure:
				// captured by reference: the closure must not assign it
				if cf, ok := u.Fn.(*ssa.Function); ok {
					for i, bv := range u.Bindings {
						if bv == ssa.Value(a) && i < len(cf.FreeVars) {
							fv := cf.FreeVars[i]
							if fv.Referrers() != nil {
								for _, r2 := range *fv.Referrers() {
									if st, ok := r2.(*ssa.Store); ok && st.Addr == ssa.Value(fv) {
										n++
									}
								}
							}
						}
					}
				}
			}
		}
		return n == 1
	}
	return false
}

// c20ID: identity of a value for "same key" / "same map" questions: constants by value,
// reads of a once-assigned variable by the variable, reads of a struct field by the field.
func c20ID(v ssa.Value) any {
	v = c20Strip(v)
	if s, ok := constString(v); ok {
		return "const:" + s
	}
	if _, f, ok := c20FieldRead(v); ok {
		return f
	}
	if u, ok := v.(*ssa.UnOp); ok && u.Op == token.MUL {
		if c20SingleStore(u.X) {
			return u.X
		}
	}
	return v
}

// c20Consts resolves v to the set of constant strings it can hold, through once-assigned
// locals, captured variables and (context-insensitively) parameters.
func c20Consts(w *World, v ssa.Value, depth int) (out []string, ok bool) {
	if depth > 6 {
		return nil, false
	}
	v = c20Strip(v)
	switch x := v.(type) {
	case *ssa.Const:
		if s, isS := constString(x); isS {
			return []string{s}, true
		}
		return nil, false
	case *ssa.UnOp:
		if x.Op != token.MUL {
			return nil, false
		}
		switch a := x.X.(type) {
		case *ssa.FieldAddr:
			// a field of a struct built in the module (receiver of a bound method, local value):
			// the values its literals give that field
			found := false
			okAll := true
			b := &c20Back{w: w, f: c20NewFacts(), seen: map[ssa.Value]bool{}, seenField: map[c20FieldKey]bool{}}
			b.sources(a.X, 0, func(_ *c20Back, src ssa.Value) {
				al, isAl := src.(*ssa.Alloc)
				if !isAl || al.Referrers() == nil {
					okAll = false
					return
				}
				for _, r := range *al.Referrers() {
					fa, isFA := r.(*ssa.FieldAddr)
					if !isFA || fa.Field != a.Field || fa.Referrers() == nil {
						continue
					}
					for _, r2 := range *fa.Referrers() {
						if st, isSt := r2.(*ssa.Store); isSt && st.Addr == ssa.Value(fa) {
							sv, ok := c20Consts(w, st.Val, depth+1)
							if !ok {
								okAll = false
								continue
							}
							found = true
							out = append(out, sv...)
						}
					}
				}
			})
			return c20Uniq(out), found && okAll
		case *ssa.Alloc:
			return c20ConstsOfStores(w, a, depth)
		case *ssa.FreeVar:
			fn := a.Parent()
			par := fn.Parent()
			if par == nil {
				return nil, false
			}
			idx := -1
			for i, f := range fn.FreeVars {
				if f == a {
					idx = i
				}
			}
			found := false
			for _, b := range par.Blocks {
				for _, in := range b.Instrs {
					if mc, isMC := in.(*ssa.MakeClosure); isMC && mc.Fn == ssa.Value(fn) && idx >= 0 && idx < len(mc.Bindings) {
						al, isAl := mc.Bindings[idx].(*ssa.Alloc)
						if !isAl {
							return nil, false
						}
						s, ok := c20ConstsOfStores(w, al, depth)
						if !ok {
							return nil, false
						}
						out = append(out, s...)
						found = true
					}
				}
			}
			return c20Uniq(out), found
		}
	case *ssa.Parameter:
		fn := x.Parent()
		idx := -1
		for i, p := range fn.Params {
			if p == x {
				idx = i
			}
		}
		callers := w.callGraph().callers[fn]
		if idx < 0 || len(callers) == 0 {
			return nil, false
		}
		for _, cs := range callers {
			cc := cs.Instr.Common()
			args := cc.Args
			if cc.IsInvoke() {
				args = append([]ssa.Value{cc.Value}, args...)
			}
			if idx >= len(args) {
				return nil, false
			}
			s, ok := c20Consts(w, args[idx], depth+1)
			if !ok {
				return nil, false
			}
			out = append(out, s...)
		}
		return c20Uniq(out), true
	case *ssa.Phi:
		for _, e := range x.Edges {
			s, ok := c20Consts(w, e, depth+1)
			if !ok {
				return nil, false
			}
			out = append(out, s...)
		}
		return c20Uniq(out), len(out) > 0
	}
	return nil, false
}

func c20ConstsOfStores(w *World, al *ssa.Alloc, depth int) (out []string, ok bool) {
	if al.Referrers() == nil {
		return nil, false
	}
	for _, r := range *al.Referrers() {
		if st, isSt := r.(*ssa.Store); isSt && st.Addr == ssa.Value(al) {
			s, ok := c20Consts(w, st.Val, depth+1)
			if !ok {
				return nil, false
			}
			out = append(out, s...)
		}
	}
	return c20Uniq(out), len(out) > 0
}

func c20Uniq(in []string) []string {
	m := map[string]bool{}
	var out []string
	for _, s := range in {
		if !m[s] {
			m[s] = true
			out = append(out, s)
		}
	}
	sort.Strings(out)
	return out
}

func c20Has(list []string, s string) bool {
	for _, x := range list {
		if x == s {
			return true
		}
	}
	return false
}

// c20UnreachableWithout: every path from the entry of the function to blk takes one of edges.
func c20UnreachableWithout(blk *ssa.BasicBlock, edges []edge) bool {
	if len(edges) == 0 {
		return false
	}
	cut := map[edge]bool{}
	for _, e := range edges {
		cut[e] = true
	}
	return !reach(blk.Parent().Blocks[0], cut)[blk]
}

// c20RootFuncs: fn and its static module callees in the root package, up to depth.
func c20StaticClosure(fn *ssa.Function, depth int) []*ssa.Function {
	seen := map[*ssa.Function]bool{fn: true}
	out := []*ssa.Function{fn}
	frontier := []*ssa.Function{fn}
	for d := 0; d < depth; d++ {
		var next []*ssa.Function
		for _, f := range frontier {
			for _, b := range f.Blocks {
				for _, in := range b.Instrs {
					ci, ok := in.(ssa.CallInstruction)
					if !ok {
						continue
					}
					cal := staticCallee(ci.Common())
					if cal == nil || cal.Blocks == nil || seen[cal] || !inModule(cal) || fnPkg(cal).Path() != c20Root {
						continue
					}
					seen[cal] = true
					out = append(out, cal)
					next = append(next, cal)
				}
			}
			for _, an := range f.AnonFuncs {
				if !seen[an] && an.Blocks != nil {
					seen[an] = true
					out = append(out, an)
					next = append(next, an)
				}
			}
		}
		frontier = next
	}
	return out
}

// ---------------------------------------------------------------------------
// restore side: handlers

type c20Handler struct {
	Fn    *ssa.Function // the function stored in the field
	Field string        // Handler | PostProcess
	Maker *ssa.Function // function that builds the RestoreAccountHandler value
}

// c20Handlers finds the functions stored into Handler / PostProcess fields of
// RestoreAccountHandler values built by restore or by the functions it calls directly.
func c20Handlers(w *World, restore *ssa.Function) []c20Handler {
	var out []c20Handler
	seenFn := map[*ssa.Function]bool{}
	// makers: restore itself and the root-package functions it calls (two levels) — whichever
	// of them stores a function into a RestoreAccountHandler field
	var makers []*ssa.Function
	for _, f := range c20StaticClosure(restore, 2) {
		if f.Parent() == nil {
			makers = append(makers, f)
		}
	}
	for _, mk := range makers {
		for _, b := range mk.Blocks {
			for _, in := range b.Instrs {
				st, ok := in.(*ssa.Store)
				if !ok {
					continue
				}
				fa, ok := st.Addr.(*ssa.FieldAddr)
				if !ok || !c20IsNamed(fa.X.Type(), c20Root, "RestoreAccountHandler") {
					continue
				}
				stt := fa.X.Type().Underlying().(*types.Pointer).Elem().Underlying().(*types.Struct)
				fname := stt.Field(fa.Field).Name()
				if fname != "Handler" && fname != "PostProcess" {
					continue
				}
				var f *ssa.Function
				switch v := st.Val.(type) {
				case *ssa.MakeClosure:
					f, _ = v.Fn.(*ssa.Function)
				case *ssa.Function:
					f = v
				}
				f = c20Unwrap(f)
				if f == nil || f.Blocks == nil || seenFn[f] {
					continue
				}
				seenFn[f] = true
				out = append(out, c20Handler{Fn: f, Field: fname, Maker: mk})
			}
		}
	}
	sort.Slice(out, func(i, j int) bool { return out[i].Fn.Pos() < out[j].Fn.Pos() })
	return out
}

// c20Unwrap resolves a synthetic wrapper (bound method closure, thunk) to the declared function.
func c20Unwrap(f *ssa.Function) *ssa.Function {
	for i := 0; i < 3 && f != nil && f.Synthetic != "" && f.Blocks != nil; i++ {
		var target *ssa.Function
		n := 0
		for _, b := range f.Blocks {
			for _, in := range b.Instrs {
				if ci, ok := in.(ssa.CallInstruction); ok {
					if cal := staticCallee(ci.Common()); cal != nil && cal.Blocks != nil {
						target = cal
						n++
					}
				}
			}
		}
		if n != 1 {
			return f
		}
		f = target
	}
	return f
}

// c20HeaderName: v is (a conversion of) the Name field of a *tar.Header parameter.
func c20HeaderName(v ssa.Value) bool {
	base, f, ok := c20FieldRead(c20Strip(v))
	if !ok || f.Name() != "Name" {
		return false
	}
	_, isPar := base.(*ssa.Parameter)
	return isPar && c20IsNamed(base.Type(), "archive/tar", "Header")
}

// c20Origin follows v through conversions and string helpers (strings.TrimPrefix &c.) to a
// parameter of the enclosing function or to the archive entry name.
type c20Orig struct {
	Hdr   bool
	Param *ssa.Parameter
}

func c20Origin(v ssa.Value) (c20Orig, bool) {
	for i := 0; i < 8; i++ {
		v = c20Strip(v)
		if c20HeaderName(v) {
			return c20Orig{Hdr: true}, true
		}
		switch x := v.(type) {
		case *ssa.Parameter:
			return c20Orig{Param: x}, true
		case *ssa.Call:
			k := calleeKey(x.Common())
			if (strings.HasPrefix(k, "strings.") || strings.HasPrefix(k, "path.")) && len(x.Common().Args) > 0 && c20IsString(x.Type()) {
				v = x.Common().Args[0]
				continue
			}
		}
		return c20Orig{}, false
	}
	return c20Orig{}, false
}

// acceptance test of a handler: the names it takes
type c20Accept struct {
	Exact bool
	Names []string
	KeyID any // identity of the value the entry name is compared with
}

func c20Accepts(w *World, fn *ssa.Function) []c20Accept {
	var out []c20Accept
	for _, b := range fn.Blocks {
		for _, in := range b.Instrs {
			switch x := in.(type) {
			case *ssa.BinOp:
				if x.Op != token.EQL && x.Op != token.NEQ {
					continue
				}
				var other ssa.Value
				if c20HeaderName(x.X) {
					other = x.Y
				} else if c20HeaderName(x.Y) {
					other = x.X
				} else {
					continue
				}
				if names, ok := c20Consts(w, other, 0); ok {
					out = append(out, c20Accept{Exact: true, Names: names, KeyID: c20ID(other)})
				}
			case *ssa.Call:
				if calleeKey(x.Common()) == "strings.HasPrefix" && len(x.Common().Args) == 2 && c20HeaderName(x.Common().Args[0]) {
					if names, ok := c20Consts(w, x.Common().Args[1], 0); ok {
						out = append(out, c20Accept{Exact: false, Names: names, KeyID: c20ID(x.Common().Args[1])})
					}
				}
			}
		}
	}
	return out
}

// ---------------------------------------------------------------------------
// CID comparison (D1)

type c20CidSide struct {
	Kind string // node | parsed | raw
	Base ssa.Value
}

func c20IsCid(t types.Type) bool { return c20IsNamed(t, c20CidPkg, "Cid") }

func c20CidExpr(v ssa.Value) c20CidSide {
	for i := 0; i < 8; i++ {
		v = c20Strip(v)
		switch x := v.(type) {
		case *ssa.Call:
			cc := x.Common()
			recv, rest := c20Recv(cc)
			sc := cc.StaticCallee()
			isMethod := cc.IsInvoke() || (sc != nil && sc.Signature.Recv() != nil)
			if recv != nil && len(rest) == 0 && isMethod {
				name := ""
				if cc.IsInvoke() {
					name = cc.Method.Name()
				} else {
					name = sc.Name()
				}
				if name == "Cid" && c20IsCid(x.Type()) {
					return c20CidSide{"node", c20Strip(recv)}
				}
				if c20IsCid(recv.Type()) {
					v = recv
					continue
				}
			}
			return c20CidSide{"raw", v}
		case *ssa.Extract:
			if call, ok := x.Tuple.(*ssa.Call); ok && x.Index == 0 {
				switch calleeKey(call.Common()) {
				case c20CidPkg + ".Parse", c20CidPkg + ".Decode", c20CidPkg + ".Cast":
					if len(call.Common().Args) == 1 {
						return c20CidSide{"parsed", c20Strip(call.Common().Args[0])}
					}
				}
			}
			return c20CidSide{"raw", v}
		default:
			return c20CidSide{"raw", v}
		}
	}
	return c20CidSide{"raw", v}
}

type c20Cmp struct {
	At     ssa.Instruction
	Accept []edge
	X, Y   ssa.Value
}

// c20Comparisons lists the equality tests of fn over CID-like operands with the CFG edges
// taken when the operands are equal.
func c20Comparisons(fn *ssa.Function) []c20Cmp {
	var out []c20Cmp
	for _, b := range fn.Blocks {
		for _, in := range b.Instrs {
			switch x := in.(type) {
			case *ssa.Call:
				k := calleeKey(x.Common())
				if (k == "("+c20CidPkg+".Cid).Equals" || k == "bytes.Equal") && len(x.Common().Args) == 2 {
					out = append(out, c20Cmp{At: x, Accept: edgesOfVerdict(x).Accept, X: x.Common().Args[0], Y: x.Common().Args[1]})
				}
			case *ssa.BinOp:
				if x.Op != token.EQL && x.Op != token.NEQ {
					continue
				}
				if !(c20IsCid(x.X.Type()) || c20IsString(x.X.Type())) {
					continue
				}
				ve := edgesOfVerdict(x)
				acc := ve.Accept
				if x.Op == token.NEQ {
					acc = ve.Reject
				}
				out = append(out, c20Cmp{At: x, Accept: acc, X: x.X, Y: x.Y})
			}
		}
	}
	return out
}

type c20NodeCheck struct {
	OK   bool
	Orig c20Orig
	Why  string
	Via  []*ssa.Function
}

// c20NodeChecked: on every path to use, node n (a value of fn) has had n.Cid() compared with
// a CID parsed from a value originating in a parameter of fn or in the archive entry name.
func c20NodeChecked(fn *ssa.Function, n ssa.Value, use *ssa.BasicBlock, depth int) c20NodeCheck {
	n = c20Strip(n)
	const noCmp = "no comparison of the node's recomputed CID with the CID of the file name"
	why := noCmp
	for _, cmp := range c20Comparisons(fn) {
		a, b := c20CidExpr(cmp.X), c20CidExpr(cmp.Y)
		if b.Kind == "node" {
			a, b = b, a
		}
		if a.Kind != "node" || a.Base != n {
			continue
		}
		if b.Kind == "node" {
			why = "the comparison does not involve the CID taken from the file name (compares the node's CID with a node's CID)"
			continue
		}
		orig, ok := c20Origin(b.Base)
		if !ok {
			why = "the CID the node is compared with does not come from the archive entry name"
			continue
		}
		if !c20UnreachableWithout(use, cmp.Accept) {
			why = "the CID comparison does not guard every path: its result is not enforced (a mismatching node reaches the use)"
			continue
		}
		return c20NodeCheck{OK: true, Orig: orig, Via: []*ssa.Function{fn}}
	}
	// checked by a module callee that receives the node and the expected CID: every success
	// return of the callee lies behind the comparison of (the CID of) its node parameter with
	// its expected-CID parameter, and its error is enforced here before the use
	if depth < 3 {
		for _, b := range fn.Blocks {
			for _, in := range b.Instrs {
				call, ok := in.(*ssa.Call)
				if !ok {
					continue
				}
				cal := staticCallee(call.Common())
				if cal == nil || cal.Blocks == nil || !inModule(cal) || cal == fn || errResultIndex(cal.Signature) < 0 {
					continue
				}
				ni := -1
				for i, a := range call.Common().Args {
					if c20Strip(a) == n && i < len(cal.Params) {
						ni = i
					}
				}
				if ni < 0 {
					continue
				}
				var src *ssa.Parameter
				okSum, nret, whySum := true, 0, ""
				for _, r := range returnsOf(cal) {
					if !isSuccessReturn(r) {
						continue
					}
					nret++
					sub := c20NodeChecked(cal, cal.Params[ni], r.Block(), depth+1)
					if !sub.OK || sub.Orig.Param == nil || (src != nil && src != sub.Orig.Param) {
						okSum = false
						if !sub.OK {
							whySum = sub.Why
						}
						break
					}
					src = sub.Orig.Param
				}
				if !okSum || nret == 0 || src == nil {
					if whySum != "" {
						why = fnName(cal) + ": " + whySum
					}
					continue
				}
				ev := errVerdict(call)
				if ev == nil || !c20UnreachableWithout(use, edgesOfVerdict(ev).Accept) {
					why = "the CID check of " + fnName(cal) + " is not enforced: its error does not guard every path to the use of the node"
					continue
				}
				si := -1
				for i, p := range cal.Params {
					if p == src {
						si = i
					}
				}
				if si < 0 || si >= len(call.Common().Args) {
					continue
				}
				exp := c20CidExpr(call.Common().Args[si])
				if exp.Kind == "node" {
					why = "the CID handed to " + fnName(cal) + " as the expected one is a node's own CID, not the CID of the file name"
					continue
				}
				orig, ok := c20Origin(exp.Base)
				if !ok {
					why = "the expected CID handed to " + fnName(cal) + " does not come from the archive entry name"
					continue
				}
				return c20NodeCheck{OK: true, Orig: orig, Via: []*ssa.Function{cal}}
			}
		}
	}
	// produced by a module callee that does the comparison?
	if ex, ok := n.(*ssa.Extract); ok && depth < 3 {
		if call, ok := ex.Tuple.(*ssa.Call); ok {
			if cal := staticCallee(call.Common()); cal != nil && cal.Blocks != nil && inModule(cal) {
				var orig *c20Orig
				nret := 0
				for _, r := range returnsOf(cal) {
					if !isSuccessReturn(r) {
						continue
					}
					res := retResults(r)
					if ex.Index >= len(res) {
						continue
					}
					nret++
					sub := c20NodeChecked(cal, res[ex.Index], r.Block(), depth+1)
					if !sub.OK {
						if why != noCmp {
							return c20NodeCheck{Why: why}
						}
						return c20NodeCheck{Why: fnName(cal) + ": " + sub.Why}
					}
					if orig != nil && *orig != sub.Orig {
						return c20NodeCheck{Why: fnName(cal) + ": success returns compare against different sources"}
					}
					o := sub.Orig
					orig = &o
				}
				if nret == 0 || orig == nil {
					return c20NodeCheck{Why: fnName(cal) + " has no success return"}
				}
				// the use must lie on the nil-error side of the call
				ev := errVerdict(call)
				if ev == nil || !c20UnreachableWithout(use, edgesOfVerdict(ev).Accept) {
					return c20NodeCheck{Why: "the node returned by " + fnName(cal) + " is used although that call may have failed (error not enforced before the use)"}
				}
				if orig.Hdr {
					return c20NodeCheck{OK: true, Orig: *orig, Via: []*ssa.Function{cal}}
				}
				idx := -1
				for i, p := range cal.Params {
					if p == orig.Param {
						idx = i
					}
				}
				if idx < 0 || idx >= len(call.Common().Args) {
					return c20NodeCheck{Why: "cannot map the compared CID of " + fnName(cal) + " to an argument"}
				}
				o, ok := c20Origin(call.Common().Args[idx])
				if !ok {
					return c20NodeCheck{Why: fmt.Sprintf("the CID string given to %s (argument %d) does not come from the archive entry name", fnName(cal), idx)}
				}
				return c20NodeCheck{OK: true, Orig: o, Via: []*ssa.Function{cal}}
			}
		}
	}
	return c20NodeCheck{Why: why}
}

// ---------------------------------------------------------------------------
// zero tests (D2 non-empty key)

// c20NonZeroOnlyEdges: edges of fn that cannot be taken when the tested integer is 0, for
// every comparison of a non-loop integer with an integer constant.
func c20NonZeroOnlyEdges(fn *ssa.Function) []edge {
	var out []edge
	for _, b := range fn.Blocks {
		if len(b.Instrs) == 0 {
			continue
		}
		ifi, ok := b.Instrs[len(b.Instrs)-1].(*ssa.If)
		if !ok {
			continue
		}
		cond := ifi.Cond
		neg := false
		for {
			u, isU := cond.(*ssa.UnOp)
			if !isU || u.Op != token.NOT {
				break
			}
			neg = !neg
			cond = u.X
		}
		bo, ok := cond.(*ssa.BinOp)
		if !ok {
			continue
		}
		var x ssa.Value
		var cst int64
		xLeft := true
		if cv, isC := constInt(bo.Y); isC {
			x, cst = bo.X, cv
		} else if cv, isC := constInt(bo.X); isC {
			x, cst, xLeft = bo.Y, cv, false
		} else {
			continue
		}
		if !c20IsInteger(x.Type()) {
			continue
		}
		if _, isPhi := c20Strip(x).(*ssa.Phi); isPhi {
			continue
		}
		l, r := int64(0), cst
		if !xLeft {
			l, r = cst, 0
		}
		var truth bool
		switch bo.Op {
		case token.EQL:
			truth = l == r
		case token.NEQ:
			truth = l != r
		case token.LSS:
			truth = l < r
		case token.LEQ:
			truth = l <= r
		case token.GTR:
			truth = l > r
		case token.GEQ:
			truth = l >= r
		default:
			continue
		}
		if neg {
			truth = !truth
		}
		// zero takes Succs[0] when truth; the other edge is nonzero-only
		if truth {
			out = append(out, edge{b, b.Succs[1]})
		} else {
			out = append(out, edge{b, b.Succs[0]})
		}
	}
	return out
}

// ---------------------------------------------------------------------------
// backward fact collector (types, callees, fields on the data-dependency cone of a value)

type c20Facts struct {
	Types  map[string]bool
	Calls  map[string]bool
	Fields map[*types.Var]bool
	// Tables: local literal tables (arrays of structs filled at constant indices) that were
	// read at a variable index on the way: rows joined unless a row is selected
	Tables map[*ssa.Alloc][]int64
}

func c20NewFacts() *c20Facts {
	return &c20Facts{Types: map[string]bool{}, Calls: map[string]bool{}, Fields: map[*types.Var]bool{}, Tables: map[*ssa.Alloc][]int64{}}
}

type c20FieldKey struct {
	addr  ssa.Value
	field int
}

type c20Back struct {
	w         *World
	f         *c20Facts
	seen      map[ssa.Value]bool
	seenField map[c20FieldKey]bool
	bind      map[*ssa.Parameter]ssa.Value
	parent    *c20Back
	inline    int
	up        int
	rows      map[*ssa.Alloc]int64 // selected row of a literal table (shared with children)
}

func c20Collect(w *World, vals ...ssa.Value) *c20Facts {
	return c20CollectRows(w, nil, vals...)
}

// c20CollectRows: like c20Collect with one row selected in each of the given literal tables.
func c20CollectRows(w *World, rows map[*ssa.Alloc]int64, vals ...ssa.Value) *c20Facts {
	b := &c20Back{w: w, f: c20NewFacts(), seen: map[ssa.Value]bool{}, seenField: map[c20FieldKey]bool{}, rows: rows}
	for _, v := range vals {
		b.visit(v)
	}
	return b.f
}

// c20ArrayAlloc: the local array behind a slice/array expression (slice of a literal).
func c20ArrayAlloc(v ssa.Value) *ssa.Alloc {
	for i := 0; i < 4; i++ {
		switch x := v.(type) {
		case *ssa.Slice:
			v = x.X
		case *ssa.Alloc:
			if _, ok := x.Type().Underlying().(*types.Pointer).Elem().Underlying().(*types.Array); ok {
				return x
			}
			return nil
		default:
			return nil
		}
	}
	return nil
}

// sources resolves a value to where it comes from through parameters (bound call-site
// argument, or all callers), captured variables, phis and pointer-typed local variables, and
// calls fn for each source in the walker whose frame the source belongs to.
func (b *c20Back) sources(v ssa.Value, depth int, fn func(wb *c20Back, src ssa.Value)) {
	if v == nil || depth > 8 {
		return
	}
	switch x := v.(type) {
	case *ssa.Parameter:
		if arg, ok := b.bind[x]; ok {
			b.parent.sources(arg, depth+1, fn)
			return
		}
		if b.parent != nil || b.up >= 4 {
			return
		}
		f := x.Parent()
		idx := -1
		for i, p := range f.Params {
			if p == x {
				idx = i
			}
		}
		b.up++
		for _, cs := range b.w.callGraph().callers[f] {
			cc := cs.Instr.Common()
			args := cc.Args
			if cc.IsInvoke() {
				args = append([]ssa.Value{cc.Value}, args...)
			}
			if idx >= 0 && idx < len(args) {
				b.sources(args[idx], depth+1, fn)
			}
		}
		b.up--
	case *ssa.FreeVar:
		top := b
		for top.parent != nil {
			top = top.parent
		}
		for _, bv := range c20Bindings(b.w, x) {
			top.sources(bv, depth+1, fn)
		}
	case *ssa.Phi:
		for _, e := range x.Edges {
			b.sources(e, depth+1, fn)
		}
	case *ssa.UnOp:
		// a pointer kept in a local variable: the pointers stored into it
		if _, isPtr := x.Type().Underlying().(*types.Pointer); isPtr && x.Op == token.MUL {
			if al, ok := x.X.(*ssa.Alloc); ok && al.Referrers() != nil {
				n := 0
				for _, r := range *al.Referrers() {
					if st, ok := r.(*ssa.Store); ok && st.Addr == ssa.Value(al) {
						n++
						b.sources(st.Val, depth+1, fn)
					}
				}
				if n > 0 {
					return
				}
			}
		}
		fn(b, v)
	default:
		fn(b, v)
	}
}

// c20Bindings: the values bound to free variable fv where its closure is built (in the parent
// function, or anywhere in the module for synthetic bound-method wrappers).
func c20Bindings(w *World, fv *ssa.FreeVar) []ssa.Value {
	fn := fv.Parent()
	idx := -1
	for i, f := range fn.FreeVars {
		if f == fv {
			idx = i
		}
	}
	if idx < 0 {
		return nil
	}
	var out []ssa.Value
	scan := func(par *ssa.Function) {
		for _, blk := range par.Blocks {
			for _, in := range blk.Instrs {
				if mc, ok := in.(*ssa.MakeClosure); ok && mc.Fn == ssa.Value(fn) && idx < len(mc.Bindings) {
					out = append(out, mc.Bindings[idx])
				}
			}
		}
	}
	if par := fn.Parent(); par != nil {
		scan(par)
		return out
	}
	for _, f := range w.ModFuncs {
		scan(f)
	}
	return out
}

// field: the content of field f of the struct ptr points to — only what is stored into that
// field (directly, through a reload of it, or as part of a whole-struct copy), row by row for
// literal tables.
func (b *c20Back) field(ptr ssa.Value, f int) {
	b.sources(ptr, 0, func(wb *c20Back, src ssa.Value) {
		k := c20FieldKey{src, f}
		if wb.seenField[k] {
			return
		}
		wb.seenField[k] = true
		switch s := src.(type) {
		case *ssa.Alloc:
			wb.noteType(s.Type())
			wb.storesField(s, f)
		case *ssa.IndexAddr:
			arr := c20ArrayAlloc(s.X)
			if arr == nil || arr.Referrers() == nil {
				wb.visit(s)
				return
			}
			var lit []int64
			for _, r := range *arr.Referrers() {
				if ia, ok := r.(*ssa.IndexAddr); ok {
					if j, ok := constInt(ia.Index); ok {
						lit = append(lit, j)
					}
				}
			}
			want, all := int64(-1), true
			if j, ok := constInt(s.Index); ok {
				want, all = j, false
			} else if j, ok := wb.rows[arr]; ok {
				want, all = j, false
			} else if len(lit) > 0 {
				wb.f.Tables[arr] = lit
			}
			for _, r := range *arr.Referrers() {
				ia, ok := r.(*ssa.IndexAddr)
				if !ok {
					continue
				}
				if j, isK := constInt(ia.Index); isK && !all && j != want {
					continue
				}
				wb.storesField(ia, f)
			}
		default:
			wb.visit(src)
		}
	})
}

// fieldOfValue: field f of a struct VALUE (copied out of memory, returned by a module
// function, passed as a parameter).
func (b *c20Back) fieldOfValue(v ssa.Value, f int) {
	b.sources(v, 0, func(wb *c20Back, src ssa.Value) {
		switch s := src.(type) {
		case *ssa.UnOp:
			if s.Op == token.MUL {
				wb.field(s.X, f)
				return
			}
			wb.visit(src)
		case *ssa.Extract:
			wb.fieldOfResult(s.Tuple, s.Index, f)
		case *ssa.Call:
			wb.fieldOfResult(s, 0, f)
		case *ssa.Const:
		default:
			wb.visit(src)
		}
	})
}

func (b *c20Back) fieldOfResult(call ssa.Value, idx, f int) {
	c, ok := call.(*ssa.Call)
	if !ok {
		b.visit(call)
		return
	}
	cc := c.Common()
	if fn := staticCallee(cc); fn != nil && fn.Blocks != nil && inModule(fn) && b.inline < 2 {
		b.f.Calls[calleeKey(cc)] = true
		child := b.child(fn, cc)
		for _, r := range returnsOf(fn) {
			res := retResults(r)
			if idx < len(res) {
				child.fieldOfValue(res[idx], f)
			}
		}
		return
	}
	b.callResult(call, idx)
}

func (b *c20Back) child(fn *ssa.Function, cc *ssa.CallCommon) *c20Back {
	child := &c20Back{w: b.w, f: b.f, seen: map[ssa.Value]bool{}, seenField: map[c20FieldKey]bool{}, bind: map[*ssa.Parameter]ssa.Value{}, parent: b, inline: b.inline + 1, up: b.up, rows: b.rows}
	for i, p := range fn.Params {
		if i < len(cc.Args) {
			child.bind[p] = cc.Args[i]
		}
	}
	return child
}

// storesField: what is stored into field f of the struct at addr.
func (b *c20Back) storesField(addr ssa.Value, f int) {
	refs := addr.Referrers()
	if refs == nil {
		return
	}
	for _, r := range *refs {
		switch u := r.(type) {
		case *ssa.Store:
			if u.Addr == addr {
				b.fieldOfValue(u.Val, f)
			}
		case *ssa.FieldAddr:
			if u.X != addr || u.Field != f {
				continue
			}
			b.stores(u)
			// element writes through a reload of the field (x.f[i] = v)
			if u.Referrers() != nil {
				for _, r2 := range *u.Referrers() {
					if ld, ok := r2.(*ssa.UnOp); ok && ld.Op == token.MUL {
						b.stores(ld)
					}
				}
			}
		case *ssa.MakeInterface:
			b.stores(u)
		case ssa.CallInstruction:
			cc := u.Common()
			if fn := staticCallee(cc); fn != nil && fn.Blocks != nil && inModule(fn) {
				continue
			}
			b.f.Calls[calleeKey(cc)] = true
			if cc.IsInvoke() && cc.Value != addr {
				b.visit(cc.Value)
			}
			for _, a := range cc.Args {
				if a != addr {
					b.visit(a)
				}
			}
		}
	}
}

func (b *c20Back) noteType(t types.Type) {
	if n := c20Named(t); n != nil && n.Obj().Pkg() != nil {
		b.f.Types[n.Obj().Pkg().Path()+"."+n.Obj().Name()] = true
	}
}

func (b *c20Back) visit(v ssa.Value) {
	if v == nil || b.seen[v] {
		return
	}
	b.seen[v] = true
	b.noteType(v.Type())
	switch x := v.(type) {
	case *ssa.Const, *ssa.Global, *ssa.Function, *ssa.Builtin:
	case *ssa.Parameter:
		if arg, ok := b.bind[x]; ok {
			b.parent.visit(arg)
			return
		}
		if b.parent != nil {
			return
		}
		b.followCallers(x)
	case *ssa.FreeVar:
		b.followFreeVar(x)
	case *ssa.Alloc:
		b.stores(x)
	case *ssa.MakeSlice, *ssa.MakeMap:
		b.stores(v)
	case *ssa.Phi:
		for _, e := range x.Edges {
			b.visit(e)
		}
	case *ssa.UnOp:
		b.visit(x.X)
	case *ssa.BinOp:
		b.visit(x.X)
		b.visit(x.Y)
	case *ssa.FieldAddr:
		st := x.X.Type().Underlying().(*types.Pointer).Elem().Underlying().(*types.Struct)
		b.f.Fields[st.Field(x.Field)] = true
		b.field(x.X, x.Field)
		b.stores(x)
	case *ssa.Field:
		st := x.X.Type().Underlying().(*types.Struct)
		b.f.Fields[st.Field(x.Field)] = true
		b.fieldOfValue(x.X, x.Field)
	case *ssa.IndexAddr:
		b.visit(x.X)
		b.stores(x)
	case *ssa.Index:
		b.visit(x.X)
	case *ssa.Lookup:
		b.visit(x.X)
	case *ssa.Slice:
		if _, isSlice := x.X.Type().Underlying().(*types.Slice); isSlice && (x.Low != nil || x.High != nil) {
			b.f.Calls["reslice"] = true
		}
		b.visit(x.X)
	case *ssa.Extract:
		b.callResult(x.Tuple, x.Index)
	case *ssa.Call:
		b.callResult(x, 0)
	case *ssa.MakeInterface:
		b.visit(x.X)
	case *ssa.ChangeInterface:
		b.visit(x.X)
	case *ssa.ChangeType:
		b.visit(x.X)
	case *ssa.Convert:
		b.visit(x.X)
	case *ssa.SliceToArrayPointer:
		b.visit(x.X)
	case *ssa.TypeAssert:
		b.visit(x.X)
	case *ssa.MakeClosure:
		for _, bv := range x.Bindings {
			b.visit(bv)
		}
	case *ssa.Next:
		b.visit(x.Iter)
	case *ssa.Range:
		b.visit(x.X)
	}
}

func (b *c20Back) stores(addr ssa.Value) {
	refs := addr.Referrers()
	if refs == nil {
		return
	}
	for _, r := range *refs {
		switch u := r.(type) {
		case *ssa.Store:
			if u.Addr == addr {
				b.visit(u.Val)
			}
		case *ssa.FieldAddr:
			if u.X == addr {
				b.stores(u)
			}
		case *ssa.IndexAddr:
			if u.X == addr {
				b.stores(u)
			}
		case *ssa.Slice:
			if u.X == addr {
				b.stores(u)
			}
		case *ssa.MapUpdate:
			if u.Map == addr {
				b.visit(u.Value)
			}
		case *ssa.MakeInterface:
			// buffer handed to a writer-taking call (io.Copy(buf, r))
			b.stores(u)
		case ssa.CallInstruction:
			// a library callee may write through the reference: its other arguments flow in.
			// Module callees are not assumed to (their bodies are followed where they return).
			cc := u.Common()
			if f := staticCallee(cc); f != nil && f.Blocks != nil && inModule(f) {
				continue
			}
			b.f.Calls[calleeKey(cc)] = true
			if cc.IsInvoke() && cc.Value != addr {
				b.visit(cc.Value)
			}
			for _, a := range cc.Args {
				if a != addr {
					b.visit(a)
				}
			}
		}
	}
}

func (b *c20Back) callResult(call ssa.Value, idx int) {
	c, ok := call.(*ssa.Call)
	if !ok {
		b.visit(call)
		return
	}
	cc := c.Common()
	b.f.Calls[calleeKey(cc)] = true
	if f := staticCallee(cc); f != nil && f.Blocks != nil && inModule(f) && b.inline < 2 {
		child := b.child(f, cc)
		for _, r := range returnsOf(f) {
			res := retResults(r)
			if idx < len(res) {
				child.visit(res[idx])
			}
		}
		if mc, ok := cc.Value.(*ssa.MakeClosure); ok {
			b.visit(mc)
		}
		return
	}
	if cc.IsInvoke() {
		b.visit(cc.Value)
	}
	for _, a := range cc.Args {
		b.visit(a)
	}
	if !cc.IsInvoke() {
		if mc, ok := cc.Value.(*ssa.MakeClosure); ok {
			b.visit(mc)
		}
	}
}

func (b *c20Back) followCallers(par *ssa.Parameter) {
	if b.up >= 4 {
		return
	}
	fn := par.Parent()
	idx := -1
	for i, p := range fn.Params {
		if p == par {
			idx = i
		}
	}
	if idx < 0 {
		return
	}
	b.up++
	for _, cs := range b.w.callGraph().callers[fn] {
		cc := cs.Instr.Common()
		args := cc.Args
		if cc.IsInvoke() {
			args = append([]ssa.Value{cc.Value}, args...)
		}
		if idx < len(args) {
			b.visit(args[idx])
		}
	}
	b.up--
}

func (b *c20Back) followFreeVar(fv *ssa.FreeVar) {
	fn := fv.Parent()
	idx := -1
	for i, f := range fn.FreeVars {
		if f == fv {
			idx = i
		}
	}
	if idx < 0 {
		return
	}
	// the closure is built in the parent: evaluate the binding in the parent's own context
	top := b
	for top.parent != nil {
		top = top.parent
	}
	for _, bv := range c20Bindings(b.w, fv) {
		top.visit(bv)
	}
}

// store kinds
const (
	c20KindMeta = c20Root + ".MetadataStore"
	c20KindMsg  = c20Root + ".MessageStore"
)

// c20StoreTypeFields maps string-typed struct fields that select a store type to the kind
// of store they select: a call that receives the field and whose result is asserted to
// *MetadataStore / *MessageStore.
func c20StoreTypeFields(w *World) map[*types.Var]string {
	out := map[*types.Var]string{}
	for _, fn := range w.ModFuncs {
		if p := fnPkg(fn); p == nil || p.Path() != c20Root {
			continue
		}
		for _, b := range fn.Blocks {
			for _, in := range b.Instrs {
				ta, ok := in.(*ssa.TypeAssert)
				if !ok {
					continue
				}
				kind := ""
				switch {
				case c20IsNamed(ta.AssertedType, c20Root, "MetadataStore"):
					kind = c20KindMeta
				case c20IsNamed(ta.AssertedType, c20Root, "MessageStore"):
					kind = c20KindMsg
				default:
					continue
				}
				var call *ssa.Call
				switch src := ta.X.(type) {
				case *ssa.Extract:
					call, _ = src.Tuple.(*ssa.Call)
				case *ssa.Call:
					call = src
				}
				if call == nil {
					continue
				}
				for _, a := range call.Common().Args {
					if _, f, ok := c20FieldRead(a); ok && c20IsString(f.Type()) {
						out[f] = kind
					}
				}
			}
		}
	}
	return out
}

func c20Kinds(f *c20Facts, byField map[*types.Var]string) []string {
	m := map[string]bool{}
	for _, k := range []string{c20KindMeta, c20KindMsg} {
		if f.Types[k] {
			m[k] = true
		}
	}
	for fv := range f.Fields {
		if k, ok := byField[fv]; ok {
			m[k] = true
		}
	}
	var out []string
	for k := range m {
		out = append(out, strings.TrimPrefix(k, c20Root+"."))
	}
	sort.Strings(out)
	return out
}

// ---------------------------------------------------------------------------
// export side: tar entries

type c20Piece struct {
	Const bool
	Text  string
	Val   ssa.Value
}

// c20Pieces splits a string expression into constant and variable pieces (concatenation and
// fmt.Sprintf with %s / %v verbs).
func c20Pieces(v ssa.Value) []c20Piece {
	v = c20Strip(v)
	if s, ok := constString(v); ok {
		return []c20Piece{{Const: true, Text: s}}
	}
	switch x := v.(type) {
	case *ssa.BinOp:
		if x.Op == token.ADD && c20IsString(x.Type()) {
			return c20Merge(append(c20Pieces(x.X), c20Pieces(x.Y)...))
		}
	case *ssa.Call:
		if calleeKey(x.Common()) == "fmt.Sprintf" && len(x.Common().Args) == 2 {
			format, ok := constString(x.Common().Args[0])
			if !ok {
				break
			}
			args := c20Varargs(x.Common().Args[1])
			var out []c20Piece
			ai := 0
			lit := ""
			flush := func() {
				if lit != "" {
					out = append(out, c20Piece{Const: true, Text: lit})
					lit = ""
				}
			}
			for i := 0; i < len(format); i++ {
				ch := format[i]
				if ch != '%' {
					lit += string(ch)
					continue
				}
				if i+1 >= len(format) {
					flush()
					return c20Merge(append(out, c20Piece{Val: v}))
				}
				i++
				switch format[i] {
				case '%':
					lit += "%"
				case 's', 'v':
					flush()
					if args == nil || ai >= len(args) || args[ai] == nil {
						return c20Merge(append(out, c20Piece{Val: v}))
					}
					out = append(out, c20Pieces(args[ai])...)
					ai++
				default:
					flush()
					return c20Merge(append(out, c20Piece{Val: v}))
				}
			}
			flush()
			return c20Merge(out)
		}
	}
	return []c20Piece{{Val: v}}
}

func c20Merge(in []c20Piece) []c20Piece {
	var out []c20Piece
	for _, p := range in {
		if p.Const && len(out) > 0 && out[len(out)-1].Const {
			out[len(out)-1].Text += p.Text
			continue
		}
		out = append(out, p)
	}
	return out
}

// c20Varargs returns the elements of a variadic []any argument built at the call site.
func c20Varargs(v ssa.Value) []ssa.Value {
	sl, ok := v.(*ssa.Slice)
	if !ok {
		return nil
	}
	al, ok := sl.X.(*ssa.Alloc)
	if !ok || al.Referrers() == nil {
		return nil
	}
	arr, ok := al.Type().Underlying().(*types.Pointer).Elem().Underlying().(*types.Array)
	if !ok {
		return nil
	}
	out := make([]ssa.Value, arr.Len())
	for _, r := range *al.Referrers() {
		ia, ok := r.(*ssa.IndexAddr)
		if !ok || ia.Referrers() == nil {
			continue
		}
		i, ok := constInt(ia.Index)
		if !ok || i < 0 || i >= int64(len(out)) {
			continue
		}
		for _, r2 := range *ia.Referrers() {
			if st, ok := r2.(*ssa.Store); ok && st.Addr == ssa.Value(ia) {
				out[i] = st.Val
			}
		}
	}
	return out
}

type c20Entry struct {
	Fn     *ssa.Function // function holding the WriteHeader call
	Site   ssa.CallInstruction
	Ctx    *ssa.Function   // function in whose frame Suffix and Data live
	At     ssa.Instruction // the instruction of Ctx that writes the entry (WriteHeader, or the call of the writing helper)
	Text   string
	Exact  bool
	Suffix ssa.Value
	Data   ssa.Value
	Role   string // key0 | key1 | entry | heads | unknown
	KeyIdx int
}

func (e c20Entry) label() string {
	if e.Exact {
		return fmt.Sprintf("%q", e.Text)
	}
	return fmt.Sprintf("%q+…", e.Text)
}

// c20TarEntries finds the tar entries written by fn: name (stored into the Name field of the
// header given to WriteHeader) and data (the value given to Write on the same writer),
// resolving names and data that are parameters through the module call sites.
func c20TarEntries(w *World, fn *ssa.Function) (out []c20Entry, problems []string) {
	for _, ci := range callsIn(fn, keyIs(c20TarHeader)) {
		args := ci.Common().Args
		if len(args) != 2 {
			continue
		}
		tw, hdr := args[0], args[1]
		var name ssa.Value
		if al, ok := hdr.(*ssa.Alloc); ok && al.Referrers() != nil {
			for _, r := range *al.Referrers() {
				fa, ok := r.(*ssa.FieldAddr)
				if !ok || fa.Referrers() == nil {
					continue
				}
				st := fa.X.Type().Underlying().(*types.Pointer).Elem().Underlying().(*types.Struct)
				if st.Field(fa.Field).Name() != "Name" {
					continue
				}
				for _, r2 := range *fa.Referrers() {
					if s, ok := r2.(*ssa.Store); ok && s.Addr == ssa.Value(fa) {
						name = s.Val
					}
				}
			}
		}
		if name == nil {
			problems = append(problems, fnName(fn)+": tar header whose Name cannot be resolved")
			continue
		}
		var data ssa.Value
		nw := 0
		for _, wc := range callsIn(fn, keyIs(c20TarWrite)) {
			if wa := wc.Common().Args; len(wa) == 2 && wa[0] == tw {
				data = wa[1]
				nw++
			}
		}
		if nw != 1 {
			problems = append(problems, fmt.Sprintf("%s: %d Write calls follow the tar header (expected one)", fnName(fn), nw))
			continue
		}
		out = append(out, c20ResolveEntry(w, fn, ci, fn, ci, name, data, 0)...)
	}
	return
}

func c20ResolveEntry(w *World, site *ssa.Function, ci ssa.CallInstruction, ctx *ssa.Function, at ssa.Instruction, name, data ssa.Value, depth int) []c20Entry {
	pieces := c20Pieces(name)
	e := c20Entry{Fn: site, Site: ci, Ctx: ctx, At: at, Data: c20Strip(data)}
	allConst := true
	for _, p := range pieces {
		if !p.Const {
			allConst = false
		}
	}
	switch {
	case allConst:
		e.Exact = true
		for _, p := range pieces {
			e.Text += p.Text
		}
		return []c20Entry{e}
	case pieces[0].Const:
		e.Text = pieces[0].Text
		e.Suffix = pieces[1].Val
		return []c20Entry{e}
	}
	// the name starts with a variable: a parameter is resolved at the call sites
	par, ok := pieces[0].Val.(*ssa.Parameter)
	if !ok || len(pieces) != 1 || depth > 3 {
		e.Suffix = pieces[0].Val
		return []c20Entry{e}
	}
	idx := func(p *ssa.Parameter) int {
		for i, q := range ctx.Params {
			if q == p {
				return i
			}
		}
		return -1
	}
	ni := idx(par)
	var out []c20Entry
	for _, cs := range w.callGraph().callers[ctx] {
		cc := cs.Instr.Common()
		if cc.IsInvoke() || ni < 0 || ni >= len(cc.Args) {
			continue
		}
		d := data
		if dp, ok := c20Strip(data).(*ssa.Parameter); ok {
			if di := idx(dp); di >= 0 && di < len(cc.Args) {
				d = cc.Args[di]
			}
		}
		out = append(out, c20ResolveEntry(w, site, ci, cs.Caller, cs.Instr, cc.Args[ni], d, depth+1)...)
	}
	if len(out) == 0 {
		e.Suffix = pieces[0].Val
		return []c20Entry{e}
	}
	return out
}

func c20ClassifyEntry(e *c20Entry) {
	e.Role = "unknown"
	switch d := e.Data.(type) {
	case *ssa.Extract:
		if call, ok := d.Tuple.(*ssa.Call); ok {
			if c20Method(call.Common(), c20Secret, "ExportAccountKeysForBackup") && d.Index < 2 {
				e.Role = fmt.Sprintf("key%d", d.Index)
				e.KeyIdx = d.Index
				return
			}
			if calleeKey(call.Common()) == c20Marshal && d.Index == 0 && len(call.Common().Args) == 1 {
				if c20IsNamed(c20Strip(call.Common().Args[0]).Type(), c20Types, "GroupHeadsExport") {
					e.Role = "heads"
				}
			}
		}
	case *ssa.Call:
		if c20Method(d.Common(), "", "RawData") && c20IsByteSlice(d.Type()) {
			e.Role = "entry"
		}
	}
}

// ---------------------------------------------------------------------------

func c20A3All(c *Ctx, rule string, fn *ssa.Function) (n int, bad int) {
	for _, b := range fn.Blocks {
		for _, in := range b.Instrs {
			call, ok := in.(*ssa.Call)
			if !ok {
				continue
			}
			if errResultIndex(call.Common().Signature()) < 0 || c20ErrorConstructor(call.Common()) {
				continue
			}
			n++
			v := errVerdict(call)
			r := c20RejectOnFailure(fn, v)
			if !r.OK {
				bad++
				k := calleeKey(call.Common())
				if k == "" {
					k = "dynamic call"
				}
				c.fail(rule, fnName(fn)+"+"+k, posOf(call), "error of %s does not abort: %s", k, r.Why)
			}
		}
	}
	return
}

// c20EOFEdges: the edges taken when error value v is io.EOF (v == io.EOF, errors.Is(v, io.EOF)).
func c20EOFEdges(v ssa.Value) []edge {
	isEOF := func(x ssa.Value) bool {
		u, ok := x.(*ssa.UnOp)
		if !ok || u.Op != token.MUL {
			return false
		}
		g, ok := u.X.(*ssa.Global)
		return ok && g.Pkg != nil && g.Pkg.Pkg.Path() == "io" && g.Name() == "EOF"
	}
	var out []edge
	if v == nil || v.Referrers() == nil {
		return nil
	}
	for _, r := range *v.Referrers() {
		switch x := r.(type) {
		case *ssa.BinOp:
			if (x.Op != token.EQL && x.Op != token.NEQ) || !(isEOF(x.X) || isEOF(x.Y)) {
				continue
			}
			ve := edgesOfVerdict(x) // accept = x true
			if x.Op == token.EQL {
				out = append(out, ve.Accept...)
			} else {
				out = append(out, ve.Reject...)
			}
		case *ssa.Call:
			if calleeKey(x.Common()) == "errors.Is" && len(x.Common().Args) == 2 && x.Common().Args[0] == v && isEOF(x.Common().Args[1]) {
				out = append(out, edgesOfVerdict(x).Accept...)
			}
		}
	}
	return out
}

// c20RejectOnFailure: A3, where the end-of-stream sentinel io.EOF, when tested explicitly, is
// not a failure (a reader loop ends on it).
func c20RejectOnFailure(fn *ssa.Function, v ssa.Value) a3Result {
	r := rejectOnFailure(fn, v)
	if r.OK || v == nil {
		return r
	}
	eof := c20EOFEdges(v)
	ve := edgesOfVerdict(v)
	if len(ve.Ifs) == 0 {
		return r
	}
	cut := map[edge]bool{}
	for _, e := range eof {
		cut[e] = true
	}
	region := reachFromEdges(ve.Reject, cut)
	for _, ret := range returnsOf(fn) {
		if region[ret.Block()] && c20SuccessOnReject(ret, v) {
			return r
		}
	}
	return a3Result{OK: true, Tested: true, Why: "failing side reaches only error returns"}
}

// c20UntestedEscapes: where control can get from call without passing a test of its error
// verdict ev (edges in cut are not followed): back to the call itself (next iteration: the
// error value is overwritten) or to a return that is not an error return. Returning ev itself
// counts as handing the error on.
func c20UntestedEscapes(call *ssa.Call, ev ssa.Value, cut []edge) []string {
	fn := call.Parent()
	tested := map[*ssa.BasicBlock]bool{}
	for _, ifi := range edgesOfVerdict(ev).Ifs {
		tested[ifi.Block()] = true
	}
	cutm := map[edge]bool{}
	for _, e := range cut {
		cutm[e] = true
	}
	start := call.Block()
	if tested[start] {
		return nil
	}
	var out []string
	seen := map[*ssa.BasicBlock]bool{}
	var stack []*ssa.BasicBlock
	push := func(from, to *ssa.BasicBlock) {
		if cutm[edge{from, to}] {
			return
		}
		if to == start {
			out = append(out, "the next handler call")
			return
		}
		if !seen[to] {
			seen[to] = true
			stack = append(stack, to)
		}
	}
	for _, s := range start.Succs {
		push(start, s)
	}
	idx := errResultIndex(fn.Signature)
	for len(stack) > 0 {
		b := stack[len(stack)-1]
		stack = stack[:len(stack)-1]
		if tested[b] {
			continue
		}
		if len(b.Instrs) > 0 {
			if ret, ok := b.Instrs[len(b.Instrs)-1].(*ssa.Return); ok && b != fn.Recover {
				res := c20RetResults(ret)
				if idx >= 0 && idx < len(res) && res[idx] == ev {
					continue
				}
				if idx < 0 || idx >= len(res) || !definitelyNonNilErr(res[idx], b, 0) {
					out = append(out, "a success return")
				}
				continue
			}
		}
		for _, s := range b.Succs {
			push(b, s)
		}
	}
	return c20Uniq(out)
}

// c20RetResults: retResults, additionally looking through a named result that is captured by
// a closure (heap cell) when no closure assigns it: store; rundefers; load; return.
func c20RetResults(r *ssa.Return) []ssa.Value {
	out := retResults(r)
	for i, v := range out {
		ld, ok := v.(*ssa.UnOp)
		if !ok || ld.Op != token.MUL {
			continue
		}
		al, ok := ld.X.(*ssa.Alloc)
		if !ok || !al.Heap || al.Referrers() == nil {
			continue
		}
		assignedElsewhere := false
		for _, ref := range *al.Referrers() {
			mc, ok := ref.(*ssa.MakeClosure)
			if !ok {
				continue
			}
			cf, _ := mc.Fn.(*ssa.Function)
			for bi, bv := range mc.Bindings {
				if bv != ssa.Value(al) || cf == nil || bi >= len(cf.FreeVars) || cf.FreeVars[bi].Referrers() == nil {
					continue
				}
				for _, r2 := range *cf.FreeVars[bi].Referrers() {
					switch u := r2.(type) {
					case *ssa.Store:
						if u.Addr == ssa.Value(cf.FreeVars[bi]) {
							assignedElsewhere = true
						}
					case *ssa.UnOp:
					default:
						assignedElsewhere = true // address escapes further
					}
				}
			}
		}
		if assignedElsewhere {
			continue
		}
		var last ssa.Value
		for _, in := range r.Block().Instrs {
			if in == ssa.Instruction(ld) {
				break
			}
			if st, ok := in.(*ssa.Store); ok && st.Addr == ssa.Value(al) {
				last = st.Val
			}
		}
		if last != nil {
			out[i] = last
		}
	}
	return out
}

func c20SuccessOnReject(r *ssa.Return, v ssa.Value) bool {
	fn := r.Parent()
	idx := errResultIndex(fn.Signature)
	if idx < 0 {
		return isSuccessReturnOnReject(r, v)
	}
	res := c20RetResults(r)
	if idx >= len(res) {
		return true
	}
	if res[idx] == v && isErrorType(v.Type()) {
		return false
	}
	return !definitelyNonNilErr(res[idx], r.Block(), 0)
}

// c20ErrorConstructor: the call builds or combines error values; it has no verdict of its own.
func c20ErrorConstructor(cc *ssa.CallCommon) bool {
	k := calleeKey(cc)
	return k == "fmt.Errorf" || strings.HasPrefix(k, "errors.") || strings.HasPrefix(k, "go.uber.org/multierr.") || strings.HasPrefix(k, "github.com/pkg/errors.")
}

func c20HasParamOf(fn *ssa.Function, pkg, name string) bool {
	for _, p := range fn.Params {
		if c20IsNamed(p.Type(), pkg, name) {
			return true
		}
	}
	return false
}

// c20LoopHeaders: blocks that dominate b and lie on a cycle with b (headers of the loops
// enclosing b), plus b itself.
func c20PhaseBlocks(b *ssa.BasicBlock) []*ssa.BasicBlock {
	out := []*ssa.BasicBlock{b}
	fromB := reach(b, nil)
	for _, h := range b.Parent().Blocks {
		if h != b && h.Dominates(b) && fromB[h] {
			out = append(out, h)
		}
	}
	return out
}

func runC20(c *Ctx) {
	w := c.W
	restore := w.lookupFunc(c20Root, "RestoreAccountExport")
	if restore == nil || restore.Blocks == nil {
		c.undecided("D1", "RestoreAccountExport", token.NoPos, "exported function RestoreAccountExport not found in %s", c20Root)
		return
	}
	c.analysed(restore)
	handlers := c20Handlers(w, restore)
	if len(handlers) == 0 {
		c.undecided("D1", "RestoreAccountExport+handlers", restore.Pos(), "no function stored into RestoreAccountHandler.Handler/PostProcess by the restore path")
		return
	}
	// functions that belong to the restore side: restore, the handler functions and their
	// static root-package callees (file readers)
	restoreFns := []*ssa.Function{restore}
	inRestore := map[*ssa.Function]bool{restore: true}
	handlerFns := map[*ssa.Function][]*ssa.Function{}
	for _, h := range handlers {
		c.analysed(h.Fn)
		cl := c20StaticClosure(h.Fn, 2)
		handlerFns[h.Fn] = cl
		for _, f := range cl {
			if !inRestore[f] {
				inRestore[f] = true
				restoreFns = append(restoreFns, f)
			}
		}
	}

	// ------------------------------------------------------------------ exporter
	var exportRoots []*ssa.Function
	if it := c20NamedType(w, c20Types, "ProtocolServiceServer"); it != nil {
		if iface, ok := it.Underlying().(*types.Interface); ok {
			for _, t := range w.implementersOf(iface) {
				if m := w.methodOf(t, "ServiceExportData"); m != nil && m.Blocks != nil && inModule(m) {
					exportRoots = append(exportRoots, m)
				}
			}
		}
	}
	var entries []c20Entry
	var exportFns []*ssa.Function
	if len(exportRoots) == 0 {
		c.undecided("D5", "ServiceExportData", token.NoPos, "no module implementation of ProtocolServiceServer.ServiceExportData found")
	} else {
		reachable := w.reachableFuncs(exportRoots, 6)
		var fns []*ssa.Function
		for f := range reachable {
			if p := fnPkg(f); p != nil && p.Path() == c20Root {
				fns = append(fns, f)
			}
		}
		sort.Slice(fns, func(i, j int) bool { return fns[i].String() < fns[j].String() })
		for _, f := range fns {
			es, problems := c20TarEntries(w, f)
			for _, p := range problems {
				c.undecided("D4", fnName(f)+"+tar", f.Pos(), "%s", p)
			}
			entries = append(entries, es...)
			if c20HasParamOf(f, "archive/tar", "Writer") || len(callsIn(f, keyIs("archive/tar.NewWriter"))) > 0 {
				exportFns = append(exportFns, f)
				c.analysed(f)
			}
		}
		for i := range entries {
			c20ClassifyEntry(&entries[i])
		}
	}
	byRole := map[string][]c20Entry{}
	for _, e := range entries {
		byRole[e.Role] = append(byRole[e.Role], e)
	}
	c.count("tar_entries_written", len(entries))

	// ------------------------------------------------------------------ D1: CID check before Add
	nAdd := 0
	entryHandlers := map[*ssa.Function]bool{}
	for _, h := range handlers {
		for _, f := range handlerFns[h.Fn] {
			for _, ci := range callsIn(f, func(_ string, cc *ssa.CallCommon) bool {
				return c20Method(cc, c20IpldPkg, "Add") || c20Method(cc, c20IpldPkg, "AddMany")
			}) {
				nAdd++
				entryHandlers[h.Fn] = true
				construct := fnName(f) + "+Dag.Add"
				_, rest := c20Recv(ci.Common())
				if len(rest) != 2 || c20Method(ci.Common(), c20IpldPkg, "AddMany") {
					c.fail("D1", construct, posOf(ci), "nodes are added in bulk: the per-entry CID check cannot be established")
					continue
				}
				res := c20NodeChecked(f, rest[1], ci.Block(), 0)
				switch {
				case !res.OK:
					c.fail("D1", construct, posOf(ci), "a node is stored in the DAG without its CID being checked against the file name: %s", res.Why)
				case !res.Orig.Hdr:
					c.fail("D1", construct, posOf(ci), "the CID the node is compared with comes from %s, not from the archive entry name", res.Orig.Param.Name())
				default:
					via := ""
					for _, v := range res.Via {
						c.analysed(v)
						via = fnName(v)
					}
					c.ok("D1", construct, posOf(ci), "node.Cid() compared (in %s) with the CID parsed from the entry name on every path to the Add; mismatch and read errors reject", via)
				}
			}
		}
	}
	if nAdd == 0 {
		c.fail("D1", "RestoreAccountExport+Dag.Add", restore.Pos(), "no restore handler stores archive entries in the DAG (ipld NodeAdder.Add never called)")
	}
	c.count("dag_add_sites", nAdd)

	// ------------------------------------------------------------------ D2: one key per name
	type keyStore struct {
		h     c20Handler
		upd   *ssa.MapUpdate
		mapID any
		keyID any
	}
	var keyStores []keyStore
	for _, h := range handlers {
		if h.Field != "Handler" {
			continue
		}
		for _, b := range h.Fn.Blocks {
			for _, in := range b.Instrs {
				mu, ok := in.(*ssa.MapUpdate)
				if !ok {
					continue
				}
				mt, ok := mu.Map.Type().Underlying().(*types.Map)
				if !ok || !c20IsString(mt.Key()) || !c20IsByteSlice(mt.Elem()) {
					continue
				}
				keyStores = append(keyStores, keyStore{h, mu, c20ID(mu.Map), c20ID(mu.Key)})
			}
		}
	}
	if len(keyStores) == 0 {
		c.fail("D2", "RestoreAccountExport+key-handler", restore.Pos(), "no restore handler collects key files (no store into a map[string][]byte)")
	}
	for _, ks := range keyStores {
		fn := ks.h.Fn
		construct := fnName(fn) + "+keys[name]"
		guardKind := ""
		why := "the key file is stored without first testing whether a file of that name was already read"
		for _, b := range fn.Blocks {
			for _, in := range b.Instrs {
				lk, ok := in.(*ssa.Lookup)
				if !ok || c20ID(lk.X) != ks.mapID || c20ID(lk.Index) != ks.keyID {
					continue
				}
				type guard struct {
					kind            string
					absent, present []edge
				}
				var guards []guard
				if lk.CommaOk {
					for _, ex := range extractsOf(lk, 1) {
						ve := edgesOfVerdict(ex)
						guards = append(guards, guard{"comma-ok", ve.Reject, ve.Accept})
					}
				} else {
					ve := edgesOfVerdict(lk) // accept = "== nil"
					if len(ve.Ifs) > 0 {
						guards = append(guards, guard{"nil", ve.Accept, ve.Reject})
					}
					if lk.Referrers() != nil {
						for _, r := range *lk.Referrers() {
							call, ok := r.(*ssa.Call)
							if !ok || calleeKey(call.Common()) != "builtin.len" {
								continue
							}
							// len(v) compared with a constant: zero side = absent
							nz := map[edge]bool{}
							for _, e := range c20NonZeroOnlyEdges(fn) {
								nz[e] = true
							}
							var absent, present []edge
							if call.Referrers() != nil {
								for _, r2 := range *call.Referrers() {
									bo, ok := r2.(*ssa.BinOp)
									if !ok || bo.Referrers() == nil {
										continue
									}
									for _, r3 := range *bo.Referrers() {
										ifi, ok := r3.(*ssa.If)
										if !ok {
											continue
										}
										blk := ifi.Block()
										for _, s := range blk.Succs {
											if nz[edge{blk, s}] {
												present = append(present, edge{blk, s})
											} else {
												absent = append(absent, edge{blk, s})
											}
										}
									}
								}
							}
							if len(present) > 0 {
								guards = append(guards, guard{"len", absent, present})
							}
						}
					}
				}
				for _, g := range guards {
					if !c20UnreachableWithout(ks.upd.Block(), g.absent) {
						why = "a presence test exists but the store is reachable on its 'already present' side: a duplicate key file overwrites the first"
						continue
					}
					region := reachFromEdges(g.present, nil)
					leak := false
					for _, r := range returnsOf(fn) {
						if region[r.Block()] && isSuccessReturn(r) {
							leak = true
						}
					}
					if leak {
						why = "the 'already present' side of the duplicate test does not return an error"
						continue
					}
					guardKind = g.kind
				}
			}
		}
		if guardKind == "" {
			c.fail("D2", construct, ks.upd.Pos(), "%s", why)
			continue
		}
		c.ok("D2", construct, ks.upd.Pos(), "store dominated by the absent side of a %s test of the same slot; the present side returns an error", guardKind)
		if guardKind == "comma-ok" {
			c.ok("D2", fnName(fn)+"+non-empty-key", ks.upd.Pos(), "presence is tested with comma-ok: an empty stored key cannot be mistaken for an absent one")
			continue
		}
		// the nil/len test is only sound if an empty key file cannot be stored
		okNE, where := false, ""
		if c20UnreachableWithout(ks.upd.Block(), c20NonZeroOnlyEdges(fn)) {
			okNE, where = true, fnName(fn)
		}
		if !okNE {
			if ex, isEx := c20Strip(ks.upd.Value).(*ssa.Extract); isEx {
				if call, isCall := ex.Tuple.(*ssa.Call); isCall {
					if cal := staticCallee(call.Common()); cal != nil && cal.Blocks != nil && inModule(cal) {
						c.analysed(cal)
						cut := map[edge]bool{}
						nz := c20NonZeroOnlyEdges(cal)
						for _, e := range nz {
							cut[e] = true
						}
						r := reach(cal.Blocks[0], cut)
						leak := len(nz) == 0
						for _, ret := range returnsOf(cal) {
							if r[ret.Block()] && isSuccessReturn(ret) {
								leak = true
							}
						}
						if !leak {
							okNE, where = true, fnName(cal)
						}
					}
				}
			}
		}
		c.check(okNE, "D2", fnName(fn)+"+non-empty-key", ks.upd.Pos(),
			"an empty key file is rejected (size test in "+where+"), so the "+guardKind+" test cannot mistake a stored key for an absent one",
			"duplicates are detected by a "+guardKind+" test of the stored bytes, but a zero-length key file is accepted and stored as nil/empty: a second file of the same name is then accepted (duplicated key file not rejected)")
	}

	// ------------------------------------------------------------------ D3: import guards reached
	type importSite struct {
		h    c20Handler
		fn   *ssa.Function
		call ssa.CallInstruction
	}
	var imports []importSite
	for _, h := range handlers {
		for _, f := range handlerFns[h.Fn] {
			for _, ci := range callsIn(f, func(_ string, cc *ssa.CallCommon) bool { return c20Method(cc, c20Secret, "ImportAccountKeys") }) {
				imports = append(imports, importSite{h, f, ci})
			}
		}
	}
	exportKeyName := func(i int) (string, bool) {
		es := byRole[fmt.Sprintf("key%d", i)]
		if len(es) != 1 || !es[0].Exact {
			return "", false
		}
		return es[0].Text, true
	}
	if len(imports) == 0 {
		c.fail("D3", "RestoreAccountExport+ImportAccountKeys", restore.Pos(), "the restore path never calls SecretStore.ImportAccountKeys from a registered handler: the account identity is not restored and the 'already holds an account' guard is never consulted")
	}
	needPost := false
	for _, is := range imports {
		construct := fnName(is.fn) + "+ImportAccountKeys"
		if is.h.Field == "PostProcess" {
			needPost = true
		}
		if _, isCall := is.call.(*ssa.Call); !isCall {
			c.fail("D3", construct, posOf(is.call), "ImportAccountKeys is deferred or run in a goroutine: its verdict cannot fail the restore")
			continue
		}
		r := rejectOnFailure(is.fn, errVerdict(is.call))
		c.check(r.OK, "D3", construct+".error", posOf(is.call), "import error fails the handler", "the error of ImportAccountKeys (bad, missing, identical keys or store already holding an account) does not fail the restore: "+r.Why)
		_, args := c20Recv(is.call.Common())
		for i := 0; i < 2 && i < len(args); i++ {
			con := fmt.Sprintf("%s.arg%d", construct, i)
			v := c20Strip(args[i])
			if ex, ok := v.(*ssa.Extract); ok && ex.Index == 0 {
				v = ex.Tuple
			}
			lk, ok := v.(*ssa.Lookup)
			if !ok {
				c.fail("D3", con, posOf(is.call), "argument %d is not read from the collected key files", i)
				continue
			}
			sameMap := false
			for _, ks := range keyStores {
				if ks.mapID == c20ID(lk.X) {
					sameMap = true
				}
			}
			names, okc := c20Consts(w, lk.Index, 0)
			want, okw := exportKeyName(i)
			switch {
			case !sameMap:
				c.fail("D3", con, posOf(is.call), "argument %d is looked up in a map the key handlers do not fill", i)
			case !okc || len(names) != 1:
				c.undecided("D3", con, posOf(is.call), "cannot resolve the name under which argument %d is looked up", i)
			case !okw && len(byRole[fmt.Sprintf("key%d", i)]) == 0:
				c.fail("D3", con, posOf(is.call), "argument %d is the file %q but the exporter never writes result %d of ExportAccountKeysForBackup: the import always fails or restores a foreign key", i, names[0], i)
			case !okw:
				c.undecided("D3", con, posOf(is.call), "cannot resolve the name under which the exporter writes result %d of ExportAccountKeysForBackup", i)
			case names[0] != want:
				c.fail("D3", con, posOf(is.call), "ImportAccountKeys argument %d is the file %q but the exporter writes result %d of ExportAccountKeysForBackup as %q: account key and proof key are swapped or lost on restore", i, names[0], i, want)
			default:
				c.ok("D3", con, posOf(is.call), "argument %d = collected file %q = exporter's result %d", i, want, i)
			}
		}
	}
	// the post-process phase: error enforced and on every success path
	isPostCall := func(call *ssa.Call) bool {
		if call.Common().IsInvoke() || staticCallee(call.Common()) != nil {
			return false
		}
		base, f, ok := c20FieldRead(call.Common().Value)
		return ok && f.Name() == "PostProcess" && c20IsNamed(base.Type(), c20Root, "RestoreAccountHandler")
	}
	type postSite struct {
		call   *ssa.Call     // call in RestoreAccountExport
		helper *ssa.Function // non-nil when the PostProcess calls sit in a helper
		inner  []*ssa.Call
	}
	var postSites []postSite
	for _, b := range restore.Blocks {
		for _, in := range b.Instrs {
			call, ok := in.(*ssa.Call)
			if !ok {
				continue
			}
			if isPostCall(call) {
				postSites = append(postSites, postSite{call: call})
				continue
			}
			cal := staticCallee(call.Common())
			if cal == nil || cal.Blocks == nil || !inModule(cal) || fnPkg(cal).Path() != c20Root {
				continue
			}
			ps := postSite{call: call, helper: cal}
			for _, f := range c20StaticClosure(cal, 1) {
				if f != cal {
					continue // PostProcess calls must be in the helper itself to be summarised
				}
				for _, b2 := range f.Blocks {
					for _, in2 := range b2.Instrs {
						if c2, ok := in2.(*ssa.Call); ok && isPostCall(c2) {
							ps.inner = append(ps.inner, c2)
						}
					}
				}
			}
			if len(ps.inner) > 0 {
				postSites = append(postSites, ps)
			}
		}
	}
	if needPost {
		if len(postSites) == 0 {
			c.fail("D3", fnName(restore)+"+PostProcess.error", restore.Pos(), "no reachable call of the PostProcess functions in RestoreAccountExport: nothing can fail the restore when the key import fails")
			c.fail("D3", fnName(restore)+"+PostProcess.reached", restore.Pos(), "no reachable call of the PostProcess functions in RestoreAccountExport (missing, or cut off by an earlier return): the keys collected from the archive are never imported")
		}
		for _, ps := range postSites {
			r := rejectOnFailure(restore, errVerdict(ps.call))
			okErr, why := r.OK, r.Why
			for _, ic := range ps.inner {
				c.analysed(ps.helper)
				if ri := rejectOnFailure(ps.helper, errVerdict(ic)); !ri.OK {
					okErr, why = false, "in "+fnName(ps.helper)+": "+ri.Why
				}
			}
			c.check(okErr, "D3", fnName(restore)+"+PostProcess.error", posOf(ps.call), "a failing post-process step fails the restore", "the error of a PostProcess step (key import) does not fail the restore: "+why)
			phase := c20PhaseBlocks(ps.call.Block())
			var bad []*ssa.Return
			for _, ret := range returnsOf(restore) {
				if !isSuccessReturn(ret) {
					continue
				}
				dom := false
				for _, p := range phase {
					if p.Dominates(ret.Block()) {
						dom = true
					}
				}
				if !dom {
					bad = append(bad, ret)
				}
			}
			c.check(len(bad) == 0, "D3", fnName(restore)+"+PostProcess.reached", posOf(ps.call), "every success return lies behind the post-process phase", "RestoreAccountExport can return success without running the post-process phase (keys not imported): return at "+describeReturns(c, bad))
		}
	}

	// ------------------------------------------------------------------ D4: name agreement
	type hInfo struct {
		h       c20Handler
		accepts []c20Accept
		roles   map[string]bool
	}
	var hinfos []hInfo
	for _, h := range handlers {
		if h.Field != "Handler" {
			continue
		}
		hi := hInfo{h: h, accepts: c20Accepts(w, h.Fn), roles: map[string]bool{}}
		if entryHandlers[h.Fn] {
			hi.roles["entry"] = true
		}
		for _, ks := range keyStores {
			if ks.h.Fn == h.Fn {
				hi.roles["key"] = true
			}
		}
		for _, f := range handlerFns[h.Fn] {
			for _, u := range callsIn(f, keyIs(c20Unmarshal)) {
				if ua := u.Common().Args; len(ua) == 2 && c20IsNamed(c20Strip(ua[1]).Type(), c20Types, "GroupHeadsExport") {
					hi.roles["heads"] = true
				}
			}
		}
		hinfos = append(hinfos, hi)
	}
	for _, role := range []string{"key0", "key1", "entry", "heads"} {
		if len(byRole[role]) == 0 {
			c.fail("D4", "export["+role+"]", token.NoPos, "the exporter writes no %s although a restore handler expects one: nothing for the restorer to agree with", role)
		}
	}
	for _, e := range entries {
		construct := "export[" + e.label() + "]"
		if e.Role == "unknown" {
			taken := ""
			for i := range hinfos {
				for _, a := range hinfos[i].accepts {
					if a.Exact == e.Exact && c20Has(a.Names, e.Text) {
						var rs []string
						for r := range hinfos[i].roles {
							rs = append(rs, r)
						}
						sort.Strings(rs)
						taken = fmt.Sprintf("%s (expects: %s)", fnName(hinfos[i].h.Fn), strings.Join(rs, ","))
					}
				}
			}
			if taken != "" {
				c.fail("D4", construct, posOf(e.Site), "the exporter (%s) writes under %s data that is neither an exported key, the RawData() of a DAG node nor a marshalled heads record, but restore handler %s takes files of that name", fnName(e.Fn), e.label(), taken)
			} else {
				c.note("exporter writes %s from %s whose content role is not recognised and which no built-in restore handler takes", e.label(), fnName(e.Fn))
			}
			continue
		}
		want := e.Role
		if strings.HasPrefix(want, "key") {
			want = "key"
		}
		var nameMatch, full *hInfo
		var acc c20Accept
		for i := range hinfos {
			for _, a := range hinfos[i].accepts {
				if a.Exact == e.Exact && c20Has(a.Names, e.Text) {
					if nameMatch == nil {
						nameMatch = &hinfos[i]
					}
					if hinfos[i].roles[want] && full == nil {
						full = &hinfos[i]
						acc = a
					}
				}
			}
		}
		switch {
		case nameMatch == nil:
			mode := "named exactly"
			if !e.Exact {
				mode = "whose name starts with"
			}
			c.fail("D4", construct, posOf(e.Site), "the exporter (%s) writes the %s under a name no built-in restore handler accepts (%s %q): restore ignores it as an unknown entry", fnName(e.Fn), e.Role, mode, e.Text)
		case full == nil:
			c.fail("D4", construct, posOf(e.Site), "the restore handler that accepts %s (%s) does not treat it as the %s the exporter wrote", e.label(), fnName(nameMatch.h.Fn), e.Role)
		default:
			okKey := true
			if want == "key" {
				okKey = false
				for _, ks := range keyStores {
					if ks.h.Fn == full.h.Fn && (ks.keyID == acc.KeyID || c20HeaderName(ks.upd.Key)) {
						okKey = true
					}
				}
			}
			c.check(okKey, "D4", construct, posOf(e.Site),
				fmt.Sprintf("%s written by %s is accepted by %s as %s", e.label(), fnName(e.Fn), fnName(full.h.Fn), e.Role),
				fmt.Sprintf("%s accepts the key file %s but stores it under a different name than the one it matched: ImportAccountKeys receives the wrong or no key", fnName(full.h.Fn), e.label()))
		}
	}

	// ------------------------------------------------------------------ D5: completeness
	for _, role := range []string{"key0", "key1", "entry", "heads"} {
		what := map[string]string{"key0": "account private key (result 0 of ExportAccountKeysForBackup)", "key1": "account proof private key (result 1 of ExportAccountKeysForBackup)", "entry": "raw DAG nodes of the log entries", "heads": "per-group heads record"}[role]
		n := len(byRole[role])
		pos := token.NoPos
		if n > 0 {
			pos = posOf(byRole[role][0].Site)
		}
		c.check(n > 0, "D5", "export+"+role, pos, "the export contains the "+what, "the export never writes the "+what)
	}
	byField := c20StoreTypeFields(w)
	sinkFns := map[*ssa.Function]bool{} // functions that load a CID list into a store
	for _, e := range byRole["entry"] {
		construct := "export.entries(" + fnName(e.Ctx) + ")"
		c.analysed(e.Fn)
		c.analysed(e.Ctx)
		// (c) raw block under its own CID
		okRaw, whyRaw := false, "the data written is not RawData() of a node fetched from the DAG"
		if d, ok := e.Data.(*ssa.Call); ok {
			recv, _ := c20Recv(d.Common())
			node := c20Strip(recv)
			if ex, ok := node.(*ssa.Extract); ok && ex.Index == 0 {
				if get, ok := ex.Tuple.(*ssa.Call); ok && c20Method(get.Common(), c20IpldPkg, "Get") {
					_, ga := c20Recv(get.Common())
					if len(ga) == 2 && e.Suffix != nil {
						id := c20CidExpr(ga[1])
						sfx := c20CidExpr(e.Suffix)
						switch {
						case id.Kind == "parsed" && c20Strip(id.Base) == c20Strip(e.Suffix):
							okRaw = true // name = S, block = Get(Parse(S))
						case sfx.Kind == "node" && sfx.Base == node:
							okRaw = true // name = node.Cid().String()
						case sfx.Kind == "raw" && c20Strip(sfx.Base) == c20Strip(ga[1]) && c20IsCid(ga[1].Type()):
							okRaw = true // name = id.String(), block = Get(id)
						case sfx.Kind == "parsed" && id.Kind == "parsed" && sfx.Base == id.Base:
							okRaw = true
						default:
							whyRaw = "the CID that names the file is not the CID the block was fetched by"
						}
					}
					// judged where the node was fetched: at the write, or at the call of the writing
					// helper, in the fetching function
					if ev := errVerdict(get); ev == nil || e.At == nil || e.At.Parent() != get.Parent() || !c20UnreachableWithout(e.At.Block(), edgesOfVerdict(ev).Accept) {
						okRaw, whyRaw = false, "the DAG fetch error is not enforced before the entry is written"
					}
				}
			}
		}
		c.check(okRaw, "D5", construct+"+raw-block", posOf(e.Site), "each entry file carries RawData() of the node fetched by the CID that names the file", whyRaw)
		// (b) which logs, which part of them
		if e.Suffix == nil {
			continue
		}
		facts := c20Collect(w, e.Suffix)
		kinds := c20Kinds(facts, byField)
		for _, k := range []string{"MetadataStore", "MessageStore"} {
			c.check(c20Has(kinds, k), "D5", construct+"+"+k, posOf(e.Site), "entries of every group's "+k+" log are exported", "the entries of the "+k+" log are not exported (no "+k+" reaches the entry list): restored groups lose that log")
		}
		all, headsOnly := false, ""
		for k := range facts.Calls {
			if !strings.Contains(k, "go-ipfs-log") {
				continue
			}
			switch {
			case strings.HasSuffix(k, ").GetEntries"), strings.HasSuffix(k, ").Values"):
				all = true
			case strings.HasSuffix(k, ").Heads"), strings.HasSuffix(k, ").RawHeads"):
				headsOnly = k
			}
		}
		switch {
		case facts.Calls["reslice"]:
			c.fail("D5", construct+"+all-entries", posOf(e.Site), "the list the exported entries are drawn from (entries, or the groups they belong to) is cut by a slice expression [lo:hi]: part of the logs is not exported")
		case headsOnly != "":
			c.fail("D5", construct+"+all-entries", posOf(e.Site), "the exported entry list is drawn from %s: only the heads are exported, not every log entry", headsOnly)
		case all:
			c.ok("D5", construct+"+all-entries", posOf(e.Site), "the entry list is the log's full entry set (GetEntries/Values)")
		default:
			c.undecided("D5", construct+"+all-entries", posOf(e.Site), "cannot tell which part of the log the exported entry list covers (no GetEntries/Values on the provenance of the file name)")
		}
	}
	// (d) heads record: fields written vs fields read, store kind agreement
	headsType := c20NamedType(w, c20Types, "GroupHeadsExport")
	if headsType == nil {
		c.undecided("D5", "GroupHeadsExport", token.NoPos, "type protocoltypes.GroupHeadsExport not found")
	} else {
		hst := headsType.Underlying().(*types.Struct)
		written := map[string]ssa.Value{}
		for _, e := range byRole["heads"] {
			call := e.Data.(*ssa.Extract).Tuple.(*ssa.Call)
			al, ok := c20Strip(call.Common().Args[0]).(*ssa.Alloc)
			if !ok || al.Referrers() == nil {
				c.undecided("D5", "heads+literal", posOf(e.Site), "the marshalled GroupHeadsExport is not built in place")
				continue
			}
			for _, r := range *al.Referrers() {
				fa, ok := r.(*ssa.FieldAddr)
				if !ok || fa.Referrers() == nil {
					continue
				}
				for _, r2 := range *fa.Referrers() {
					if st, ok := r2.(*ssa.Store); ok && st.Addr == ssa.Value(fa) && !isNilConst(st.Val) {
						written[hst.Field(fa.Field).Name()] = st.Val
					}
				}
			}
		}
		// fields read on the restore side
		read := map[string]token.Pos{}
		for _, f := range restoreFns {
			for _, b := range f.Blocks {
				for _, in := range b.Instrs {
					switch x := in.(type) {
					case *ssa.FieldAddr:
						if c20IsNamed(x.X.Type(), c20Types, "GroupHeadsExport") {
							isStore := false
							if x.Referrers() != nil {
								for _, r := range *x.Referrers() {
									if st, ok := r.(*ssa.Store); ok && st.Addr == ssa.Value(x) {
										isStore = true
									}
								}
							}
							if n := hst.Field(x.Field).Name(); !isStore && hst.Field(x.Field).Exported() {
								read[n] = x.Pos()
							}
						}
					case *ssa.Call:
						if cal := staticCallee(x.Common()); cal != nil && strings.HasPrefix(cal.Name(), "Get") && len(x.Common().Args) == 1 && c20IsNamed(x.Common().Args[0].Type(), c20Types, "GroupHeadsExport") {
							read[strings.TrimPrefix(cal.Name(), "Get")] = x.Pos()
						}
					}
				}
			}
		}
		var rnames []string
		for n := range read {
			rnames = append(rnames, n)
		}
		sort.Strings(rnames)
		if len(byRole["heads"]) > 0 {
			for _, n := range rnames {
				_, ok := written[n]
				c.check(ok, "D5", "heads."+n, read[n], "field read by the restorer is written by the exporter", "the restorer reads GroupHeadsExport."+n+" but the exporter never sets it: the restored group is opened with an empty "+n)
			}
			if len(rnames) == 0 {
				c.fail("D5", "heads+restore", restore.Pos(), "no restore handler reads the heads record")
			}
			var wnames []string
			for n := range written {
				wnames = append(wnames, n)
			}
			sort.Strings(wnames)
			for _, n := range wnames {
				if _, ok := read[n]; !ok {
					c.fail("D5", "heads."+n, posOf(byRole["heads"][0].Site), "the exporter records GroupHeadsExport.%s but no restore handler reads it: the restored group is opened without it", n)
				}
			}
			// a heads field copied into a Group field on restore must have been taken from that
			// Group field (or an accessor reading it) on export
			for _, f := range restoreFns {
				for _, b := range f.Blocks {
					for _, in := range b.Instrs {
						st, ok := in.(*ssa.Store)
						if !ok {
							continue
						}
						fa, ok := st.Addr.(*ssa.FieldAddr)
						if !ok || !c20IsNamed(fa.X.Type(), c20Types, "Group") {
							continue
						}
						gst := fa.X.Type().Underlying().(*types.Pointer).Elem().Underlying().(*types.Struct)
						gfield := gst.Field(fa.Field)
						src := ""
						if base, hf, ok := c20FieldRead(c20Strip(st.Val)); ok && c20IsNamed(base.Type(), c20Types, "GroupHeadsExport") {
							src = hf.Name()
						} else if call, ok := c20Strip(st.Val).(*ssa.Call); ok {
							if cal := staticCallee(call.Common()); cal != nil && strings.HasPrefix(cal.Name(), "Get") && len(call.Common().Args) == 1 && c20IsNamed(call.Common().Args[0].Type(), c20Types, "GroupHeadsExport") {
								src = strings.TrimPrefix(cal.Name(), "Get")
							}
						}
						if src == "" {
							continue
						}
						wv, ok := written[src]
						if !ok {
							continue // reported above
						}
						facts := c20Collect(w, wv)
						var from []string
						for fv := range facts.Fields {
							for i := 0; i < gst.NumFields(); i++ {
								if gst.Field(i) == fv {
									from = append(from, fv.Name())
								}
							}
						}
						sort.Strings(from)
						c.check(facts.Fields[gfield], "D5", "heads."+src+"->Group."+gfield.Name(), st.Pos(),
							fmt.Sprintf("restored Group.%s comes from the record field the exporter filled from the group's {%s}", gfield.Name(), strings.Join(from, ",")),
							fmt.Sprintf("the restorer copies GroupHeadsExport.%s into Group.%s, but the exporter filled %s from the group's {%s}: the restored group differs from the exported one", src, gfield.Name(), src, strings.Join(from, ",")))
					}
				}
			}
		}
		// store kind per head list: exporter
		expKind := map[string][]string{}
		for n, v := range written {
			if sl, ok := hst.Field(c20FieldIndex(hst, n)).Type().Underlying().(*types.Slice); !ok || !c20IsByteSlice(sl.Elem()) {
				continue
			}
			expKind[n] = c20Kinds(c20Collect(w, v), byField)
		}
		// restorer: call sites that pair a store with a CID list
		resKind := map[string][]string{}
		var storeIface *types.Interface
		if st := c20NamedType(w, "berty.tech/go-orbit-db/iface", "Store"); st != nil {
			storeIface, _ = st.Underlying().(*types.Interface)
		}
		nSinks := 0
		if storeIface != nil {
			reachR := w.reachableFuncs([]*ssa.Function{restore}, 4)
			for _, h := range handlers {
				for f := range w.reachableFuncs([]*ssa.Function{h.Fn}, 4) {
					reachR[f] = 0
				}
			}
			var fns []*ssa.Function
			for f := range reachR {
				if p := fnPkg(f); p != nil && p.Path() == c20Root {
					fns = append(fns, f)
				}
			}
			sort.Slice(fns, func(i, j int) bool { return fns[i].String() < fns[j].String() })
			for _, f := range fns {
				for _, b := range f.Blocks {
					for _, in := range b.Instrs {
						call, ok := in.(*ssa.Call)
						if !ok {
							continue
						}
						cal := staticCallee(call.Common())
						if cal == nil || !inModule(cal) {
							continue
						}
						var storeArg, cidsArg ssa.Value
						for _, a := range call.Common().Args {
							if sl, ok := a.Type().Underlying().(*types.Slice); ok && c20IsCid(sl.Elem()) {
								cidsArg = a
							} else if _, isI := a.Type().Underlying().(*types.Interface); isI && types.Implements(a.Type(), storeIface) {
								storeArg = a
							}
						}
						if storeArg == nil || cidsArg == nil {
							continue
						}
						headFields := func(hf *c20Facts) []string {
							var fields []string
							for fv := range hf.Fields {
								if _, isHead := expKind[fv.Name()]; isHead && c20FieldIndex(hst, fv.Name()) >= 0 && hst.Field(c20FieldIndex(hst, fv.Name())) == fv {
									fields = append(fields, fv.Name())
								}
							}
							sort.Strings(fields)
							return fields
						}
						// when store and list come out of one local literal table read at a variable
						// index (rows {store_i, heads_i} run by a loop), the call is judged once per row
						joint := c20Collect(w, cidsArg, storeArg)
						contexts := []map[*ssa.Alloc]int64{nil}
						if len(joint.Tables) == 1 {
							contexts = nil
							for tbl, rows := range joint.Tables {
								for _, r := range c20UniqInts(rows) {
									contexts = append(contexts, map[*ssa.Alloc]int64{tbl: r})
								}
							}
						}
						counted := false
						for _, rowCtx := range contexts {
							fields := headFields(c20CollectRows(w, rowCtx, cidsArg))
							if len(fields) == 0 {
								continue
							}
							if !counted {
								counted = true
								nSinks++
								sinkFns[f] = true
								c.analysed(f)
							}
							kinds := c20Kinds(c20CollectRows(w, rowCtx, storeArg), byField)
							for _, fld := range fields {
								resKind[fld] = c20Uniq(append(resKind[fld], kinds...))
							}
							if len(fields) > 1 {
								c.fail("D5", "heads+"+fnName(f)+"->"+fnName(cal), posOf(call), "one store is loaded with several head lists (%s)", strings.Join(fields, ", "))
							}
						}
					}
				}
			}
		}
		var hnames []string
		for n := range expKind {
			hnames = append(hnames, n)
		}
		sort.Strings(hnames)
		for _, n := range hnames {
			construct := "heads." + n + "+store-kind"
			ek, rk := expKind[n], resKind[n]
			switch {
			case len(ek) != 1:
				c.fail("D5", construct, posOf(byRole["heads"][0].Site), "the exporter fills %s from the heads of %v (expected exactly one kind of store)", n, ek)
			case len(rk) == 0:
				c.fail("D5", construct, restore.Pos(), "the restore path never loads %s into a store: the restored %s log has no heads", n, ek[0])
			case len(rk) != 1 || rk[0] != ek[0]:
				c.fail("D5", construct, restore.Pos(), "%s holds the heads of the %s log but the restorer loads it into %v", n, ek[0], rk)
			default:
				c.ok("D5", construct, restore.Pos(), "%s: heads of the %s log on export, loaded into a %s on restore", n, ek[0], rk[0])
			}
		}
		c.count("head_load_sites", nSinks)
	}

	// ------------------------------------------------------------------ D8: a handled entry is really processed
	for _, hi := range hinfos {
		fn := hi.h.Fn
		var effects []ssa.Instruction
		what := ""
		switch {
		case hi.roles["entry"]:
			what = "the DAG Add"
			for _, ci := range callsIn(fn, func(_ string, cc *ssa.CallCommon) bool { return c20Method(cc, c20IpldPkg, "Add") }) {
				effects = append(effects, ci)
			}
		case hi.roles["key"]:
			what = "the store of the key bytes"
			for _, ks := range keyStores {
				if ks.h.Fn == fn {
					effects = append(effects, ks.upd)
				}
			}
		case hi.roles["heads"]:
			what = "the call that loads the heads"
			for _, b := range fn.Blocks {
				for _, in := range b.Instrs {
					call, ok := in.(*ssa.Call)
					if !ok {
						continue
					}
					cal := staticCallee(call.Common())
					if cal == nil || cal.Blocks == nil || !inModule(cal) {
						continue
					}
					for f := range w.reachableFuncs([]*ssa.Function{cal}, 4) {
						if sinkFns[f] {
							effects = append(effects, call)
							break
						}
					}
				}
			}
		default:
			continue
		}
		// lifted effect: a static callee of the handler that performs it
		if len(effects) == 0 {
			for _, b := range fn.Blocks {
				for _, in := range b.Instrs {
					call, ok := in.(*ssa.Call)
					if !ok {
						continue
					}
					cal := staticCallee(call.Common())
					if cal == nil || cal.Blocks == nil || !inModule(cal) {
						continue
					}
					if hi.roles["entry"] && len(callsIn(cal, func(_ string, cc *ssa.CallCommon) bool { return c20Method(cc, c20IpldPkg, "Add") })) > 0 {
						effects = append(effects, call)
					}
				}
			}
		}
		var bad []*ssa.Return
		for _, ret := range returnsOf(fn) {
			if !isSuccessReturn(ret) {
				continue
			}
			res := retResults(ret)
			if len(res) > 0 {
				if bv, isC := constBool(res[0]); isC && !bv {
					continue // "not mine"
				}
			}
			done := false
			for _, e := range effects {
				for _, p := range c20PhaseBlocks(e.Block()) {
					if p.Dominates(ret.Block()) {
						done = true
					}
				}
			}
			if !done {
				bad = append(bad, ret)
			}
		}
		c.check(len(bad) == 0, "D8", fnName(fn)+"+handled", fn.Pos(), "every 'handled, no error' return lies behind "+what,
			"the handler can report an archive entry as handled without "+what+" having run (entry silently skipped): return at "+describeReturns(c, bad))
	}

	// ------------------------------------------------------------------ D7: existing account refused
	runC20ImportGuards(c)

	// ------------------------------------------------------------------ D9 / D10 / D11
	var headFns []*ssa.Function
	for _, hi := range hinfos {
		if hi.roles["heads"] {
			headFns = append(headFns, hi.h.Fn)
		}
	}
	runC20Registry(c, exportFns)
	runC20OpenRegistry(c, headFns)
	runC20Stream(c, exportRoots)

	// ------------------------------------------------------------------ D6: every error aborts
	var d6 []*ssa.Function
	for _, f := range restoreFns {
		isHandler := false
		for _, h := range handlers {
			if h.Fn == f {
				isHandler = true
			}
		}
		if f == restore || isHandler || c20HasParamOf(f, "archive/tar", "Reader") || c20HasParamOf(f, "archive/tar", "Header") {
			d6 = append(d6, f)
		}
	}
	d6 = append(d6, exportFns...)
	// callers of the archive writers on the way down from ServiceExportData: only their calls
	// into the writers are checked (they have other, stream-related errors of their own)
	isExportFn := map[*ssa.Function]bool{}
	for _, f := range exportFns {
		isExportFn[f] = true
	}
	if len(exportRoots) > 0 {
		var callers []*ssa.Function
		for f := range w.reachableFuncs(exportRoots, 6) {
			if !isExportFn[f] {
				callers = append(callers, f)
			}
		}
		sort.Slice(callers, func(i, j int) bool { return callers[i].String() < callers[j].String() })
		for _, f := range callers {
			for _, b := range f.Blocks {
				for _, in := range b.Instrs {
					ci, ok := in.(ssa.CallInstruction)
					if !ok {
						continue
					}
					cal := staticCallee(ci.Common())
					if cal == nil || !isExportFn[cal] || errResultIndex(cal.Signature) < 0 {
						continue
					}
					c.analysed(f)
					construct := fnName(f) + "->" + fnName(cal)
					call, isCall := ci.(*ssa.Call)
					if !isCall {
						c.fail("D6", construct, posOf(ci), "the archive writer runs deferred or in a goroutine: its error cannot fail the export")
						continue
					}
					r := c20RejectOnFailure(f, errVerdict(call))
					c.check(r.OK, "D6", construct, posOf(ci), "a failed export fails the request", "the error of the archive writer is dropped: a truncated archive is streamed as a complete export ("+r.Why+")")
				}
			}
		}
	}
	// the dispatch of the handlers: the error a handler returns must be looked at on every path
	// out of the call — or, when it is only looked at for handled entries, no built-in handler
	// may report a failure as (false, err)
	nDispatch := 0
	for _, df := range c20StaticClosure(restore, 1) {
		if df.Parent() != nil && df.Parent() != restore {
			continue
		}
		for _, b := range df.Blocks {
			for _, in := range b.Instrs {
				call, ok := in.(*ssa.Call)
				if !ok || call.Common().IsInvoke() || staticCallee(call.Common()) != nil {
					continue
				}
				base, f, ok := c20FieldRead(call.Common().Value)
				if !ok || f.Name() != "Handler" || !c20IsNamed(base.Type(), c20Root, "RestoreAccountHandler") {
					continue
				}
				nDispatch++
				c.analysed(df)
				construct := fnName(df) + "+Handler.error-on-every-path"
				ev := errVerdict(call)
				if ev == nil {
					c.fail("D6", construct, posOf(call), "the error result of the handler call is discarded")
					continue
				}
				escapes := c20UntestedEscapes(call, ev, nil)
				if len(escapes) == 0 {
					c.ok("D6", construct, posOf(call), "every path out of the handler call tests its error before the next entry, the next handler or a success return")
					continue
				}
				hv := boolVerdict(call)
				var skipEdges []edge
				if hv != nil {
					skipEdges = edgesOfVerdict(hv).Reject
				}
				if hv == nil || len(skipEdges) == 0 || len(c20UntestedEscapes(call, ev, skipEdges)) > 0 {
					c.fail("D6", construct, posOf(call), "a path leaves the handler call without testing its error (reaches %s): a handler failure (CID mismatch, duplicate key file, undecodable record) is dropped and the restore goes on", strings.Join(escapes, ", "))
					continue
				}
				// the error is only ignored when handled == false: sibling agreement with the handlers
				var offenders []string
				for _, h := range handlers {
					if h.Field != "Handler" {
						continue
					}
					for _, ret := range returnsOf(h.Fn) {
						res := c20RetResults(ret)
						idx := errResultIndex(h.Fn.Signature)
						if idx < 0 || idx >= len(res) || len(res) < 2 {
							continue
						}
						if isNilConst(res[idx]) {
							continue
						}
						if bv, isC := constBool(res[0]); isC && bv {
							continue
						}
						if !definitelyNonNilErr(res[idx], ret.Block(), 0) {
							// may be nil: only a problem if it may also be non-nil with handled=false;
							// a plain propagation (handled, err) of a callee is not judged here
							continue
						}
						offenders = append(offenders, fmt.Sprintf("%s at %s", fnName(h.Fn), c.pos(posOf(ret))))
					}
				}
				sort.Strings(offenders)
				c.check(len(offenders) == 0, "D6", construct, posOf(call),
					"the error is skipped only for unhandled entries, and no built-in handler reports a failure as (false, err)",
					"the dispatch loop ignores the handler's error when handled is false, but "+strings.Join(offenders, "; ")+" returns (false, error): that failure (e.g. a duplicated key file) is dropped and the archive is accepted")
			}
		}
	}
	if nDispatch == 0 {
		c.undecided("D6", fnName(restore)+"+Handler.error-on-every-path", restore.Pos(), "no call through RestoreAccountHandler.Handler found in RestoreAccountExport or its direct helpers")
	}
	seen6 := map[*ssa.Function]bool{}
	sites := 0
	for _, f := range d6 {
		if seen6[f] {
			continue
		}
		seen6[f] = true
		c.analysed(f)
		n, bad := c20A3All(c, "D6", f)
		sites += n
		if bad == 0 {
			c.ok("D6", fnName(f), f.Pos(), "%d error results, each tested, failing side reaches only error returns", n)
		}
	}
	c.count("error_results_checked", sites)
	// advisory: errors only logged further down
	for _, h := range handlers {
		for f := range w.reachableFuncs([]*ssa.Function{h.Fn}, 3) {
			if seen6[f] || fnPkg(f) == nil || fnPkg(f).Path() != c20Root || f.Parent() == nil {
				continue
			}
			for _, b := range f.Blocks {
				for _, in := range b.Instrs {
					call, ok := in.(*ssa.Call)
					if !ok || errResultIndex(call.Common().Signature()) < 0 {
						continue
					}
					cal := staticCallee(call.Common())
					if cal == nil || !inModule(cal) || errResultIndex(f.Signature) >= 0 {
						continue
					}
					c.note("advisory: %s runs %s in a function without error result (%s): a failure there is only logged and the restore still reports success", fnName(f.Parent()), fnName(cal), c.pos(posOf(call)))
				}
			}
		}
	}
}

func c20NamedType(w *World, pkg, name string) *types.Named {
	for _, p := range w.Pkgs {
		if p.PkgPath == pkg && p.Types != nil {
			if o := p.Types.Scope().Lookup(name); o != nil {
				n, _ := o.Type().(*types.Named)
				return n
			}
		}
	}
	// dependency packages: search the imports of the module packages
	for _, p := range w.Pkgs {
		if p.Types == nil {
			continue
		}
		for _, imp := range p.Types.Imports() {
			if imp.Path() == pkg {
				if o := imp.Scope().Lookup(name); o != nil {
					n, _ := o.Type().(*types.Named)
					return n
				}
			}
		}
	}
	return nil
}

func c20UniqInts(in []int64) []int64 {
	m := map[int64]bool{}
	var out []int64
	for _, x := range in {
		if !m[x] {
			m[x] = true
			out = append(out, x)
		}
	}
	sort.Slice(out, func(i, j int) bool { return out[i] < out[j] })
	return out
}

func c20FieldIndex(st *types.Struct, name string) int {
	for i := 0; i < st.NumFields(); i++ {
		if st.Field(i).Name() == name {
			return i
		}
	}
	return -1
}

// ---------------------------------------------------------------------------
// D7: the import refuses a keystore that already holds an account

const (
	c20KsHas = "(github.com/ipfs/go-ipfs-keystore.Keystore).Has"
	c20KsPut = "(github.com/ipfs/go-ipfs-keystore.Keystore).Put"
)

type c20Guards struct {
	w         *World
	putMemo   map[*ssa.Function]int // 0 unknown, 1 no, 2 yes
	guardFn   map[*ssa.Function]int
	boolGuard map[*ssa.Function]int
	problems  map[*ssa.Function]string
}

// reachesPut: fn or a static secretstore callee (depth 3) calls keystore.Put.
func (g *c20Guards) reachesPut(fn *ssa.Function, depth int) bool {
	if v := g.putMemo[fn]; v != 0 {
		return v == 2
	}
	g.putMemo[fn] = 1
	res := false
	if len(callsIn(fn, keyIs(c20KsPut))) > 0 {
		res = true
	} else if depth < 3 {
		for _, b := range fn.Blocks {
			for _, in := range b.Instrs {
				if ci, ok := in.(ssa.CallInstruction); ok {
					if cal := staticCallee(ci.Common()); cal != nil && cal.Blocks != nil && inModule(cal) && cal != fn && g.reachesPut(cal, depth+1) {
						res = true
					}
				}
			}
		}
	}
	if res {
		g.putMemo[fn] = 2
	}
	return res
}

// hasSiteOK: the Has call's verdicts are enforced: exists => only error returns; error => reject.
func c20HasSiteOK(fn *ssa.Function, ci ssa.CallInstruction) (bool, string) {
	what := "keystore.Has"
	if cal := staticCallee(ci.Common()); cal != nil && inModule(cal) {
		what = fnName(cal)
	}
	bv := boolVerdict(ci)
	if bv == nil {
		return false, "the 'exists' result of " + what + " is discarded"
	}
	ve := edgesOfVerdict(bv)
	if len(ve.Ifs) == 0 {
		return false, "the 'exists' result of " + what + " is never tested"
	}
	region := reachFromEdges(ve.Accept, nil)
	for _, r := range returnsOf(fn) {
		if region[r.Block()] && isSuccessReturn(r) {
			return false, "a success return is reachable although the keystore already holds the key (existing account not refused)"
		}
	}
	if r := c20RejectOnFailure(fn, errVerdict(ci)); !r.OK {
		return false, what + " error: " + r.Why
	}
	return true, ""
}

// guardSites: instructions of fn that establish "no account key exists" for what follows.
func (g *c20Guards) guardSites(fn *ssa.Function, depth int) []ssa.Instruction {
	var out []ssa.Instruction
	for _, b := range fn.Blocks {
		for _, in := range b.Instrs {
			call, ok := in.(*ssa.Call)
			if !ok {
				continue
			}
			if calleeKey(call.Common()) == c20KsHas {
				if ok, why := c20HasSiteOK(fn, call); ok {
					out = append(out, call)
				} else {
					g.problems[fn] = why
				}
				continue
			}
			cal := staticCallee(call.Common())
			if cal == nil || cal.Blocks == nil || !inModule(cal) || cal == fn || depth >= 2 {
				continue
			}
			if g.isBoolGuardFn(cal, depth+1) {
				// a helper answering "does an account key exist?": a guard when its true side and
				// its error reject here
				if ok, why := c20HasSiteOK(fn, call); ok {
					out = append(out, call)
				} else {
					g.problems[fn] = why
				}
				continue
			}
			if g.isGuardFn(cal, depth+1) && errResultIndex(cal.Signature) >= 0 {
				if r := rejectOnFailure(fn, errVerdict(call)); r.OK {
					out = append(out, call)
				} else {
					g.problems[fn] = "the error of " + fnName(cal) + " is not enforced: " + r.Why
				}
			}
		}
	}
	return out
}

// isBoolGuardFn: fn returns (bool, error) and answers "does an account key exist?": every
// return reachable from an "exists" edge of a keystore.Has (or of a nested helper of this
// kind) returns true or a non-nil error, lookup errors reject, and every return that may say
// "false, nil" lies behind the lookup phase.
func (g *c20Guards) isBoolGuardFn(fn *ssa.Function, depth int) bool {
	if v := g.boolGuard[fn]; v != 0 {
		return v == 2
	}
	g.boolGuard[fn] = 1
	res := fn.Signature.Results()
	bi, ei := -1, errResultIndex(fn.Signature)
	for i := 0; i < res.Len(); i++ {
		if isBoolType(res.At(i).Type()) {
			bi = i
		}
	}
	if bi < 0 || ei < 0 || res.Len() != 2 {
		return false
	}
	var sites []*ssa.Call
	for _, b := range fn.Blocks {
		for _, in := range b.Instrs {
			call, ok := in.(*ssa.Call)
			if !ok {
				continue
			}
			if calleeKey(call.Common()) == c20KsHas {
				sites = append(sites, call)
				continue
			}
			if cal := staticCallee(call.Common()); cal != nil && cal.Blocks != nil && inModule(cal) && cal != fn && depth < 2 && g.isBoolGuardFn(cal, depth+1) {
				sites = append(sites, call)
			}
		}
	}
	if len(sites) == 0 {
		return false
	}
	saysTrueOrErr := func(r *ssa.Return) bool {
		rv := retResults(r)
		if bi < len(rv) {
			if bv, isC := constBool(rv[bi]); isC && bv {
				return true
			}
		}
		return ei < len(rv) && definitelyNonNilErr(rv[ei], r.Block(), 0)
	}
	for _, h := range sites {
		bv := boolVerdict(h)
		if bv == nil {
			g.problems[fn] = fnName(fn) + " discards the 'exists' answer of a lookup"
			return false
		}
		ve := edgesOfVerdict(bv)
		if len(ve.Ifs) == 0 {
			// the answer may be handed on unchanged
			passed := true
			for _, r := range returnsOf(fn) {
				rv := retResults(r)
				if bi < len(rv) && rv[bi] != bv && !saysTrueOrErr(r) && instrDominates(h, r) {
					passed = false
				}
			}
			if !passed {
				g.problems[fn] = fnName(fn) + " never tests the 'exists' answer of a lookup"
				return false
			}
		} else {
			region := reachFromEdges(ve.Accept, nil)
			for _, r := range returnsOf(fn) {
				if region[r.Block()] && !saysTrueOrErr(r) {
					g.problems[fn] = fnName(fn) + " can return false although a lookup found an existing account key (return at " + g.w.Fset.Position(posOf(r)).String() + ")"
					return false
				}
			}
		}
		if r := c20RejectOnFailure(fn, errVerdict(h)); !r.OK {
			g.problems[fn] = fnName(fn) + ": lookup error: " + r.Why
			return false
		}
	}
	// "false, nil" only behind the lookup phase
	for _, r := range returnsOf(fn) {
		if saysTrueOrErr(r) {
			continue
		}
		ok := false
		for _, h := range sites {
			for _, p := range c20PhaseBlocks(h.Block()) {
				if p.Dominates(r.Block()) {
					ok = true
				}
			}
		}
		if !ok {
			g.problems[fn] = fnName(fn) + " can answer 'no account key' without having asked the keystore"
			return false
		}
	}
	g.boolGuard[fn] = 2
	return true
}

// isGuardFn: every success return of fn lies behind a guard phase.
func (g *c20Guards) isGuardFn(fn *ssa.Function, depth int) bool {
	if v := g.guardFn[fn]; v != 0 {
		return v == 2
	}
	g.guardFn[fn] = 1
	sites := g.guardSites(fn, depth)
	if len(sites) == 0 {
		return false
	}
	for _, r := range returnsOf(fn) {
		if !isSuccessReturn(r) {
			continue
		}
		ok := false
		for _, s := range sites {
			for _, p := range c20PhaseBlocks(s.Block()) {
				if p.Dominates(r.Block()) {
					ok = true
				}
			}
		}
		if !ok {
			return false
		}
	}
	g.guardFn[fn] = 2
	return true
}

// c20Before: guard h is completed before p on every path: h dominates p, or a loop enclosing h
// (and not p) dominates p.
func c20Before(h, p ssa.Instruction) bool {
	if instrDominates(h, p) {
		return true
	}
	fromP := reach(p.Block(), nil)
	for _, l := range c20PhaseBlocks(h.Block()) {
		if l == h.Block() {
			continue
		}
		if l.Dominates(p.Block()) && !(fromP[l] && l != p.Block()) {
			return true
		}
	}
	return false
}

func runC20ImportGuards(c *Ctx) {
	w := c.W
	var impl *ssa.Function
	if it := c20NamedType(w, c20Secret, "SecretStore"); it != nil {
		if iface, ok := it.Underlying().(*types.Interface); ok {
			for _, t := range w.implementersOf(iface) {
				if n := c20Named(t); n != nil && n.Obj().Pkg().Path() == c20Secret {
					if m := w.methodOf(t, "ImportAccountKeys"); m != nil && m.Blocks != nil {
						impl = m
					}
				}
			}
		}
	}
	if impl == nil {
		c.undecided("D7", "SecretStore.ImportAccountKeys", token.NoPos, "no implementation of SecretStore.ImportAccountKeys found in %s", c20Secret)
		return
	}
	g := &c20Guards{w: w, putMemo: map[*ssa.Function]int{}, guardFn: map[*ssa.Function]int{}, boolGuard: map[*ssa.Function]int{}, problems: map[*ssa.Function]string{}}
	nPut, nHas := 0, 0
	visited := map[*ssa.Function]bool{}
	var walk func(fn *ssa.Function, depth int)
	walk = func(fn *ssa.Function, depth int) {
		if visited[fn] || depth > 4 {
			return
		}
		visited[fn] = true
		c.analysed(fn)
		sites := g.guardSites(fn, 0)
		for _, ci := range callsIn(fn, keyIs(c20KsHas)) {
			nHas++
			ok, why := c20HasSiteOK(fn, ci)
			c.check(ok, "D7", fnName(fn)+"+keystore.Has", posOf(ci), "an existing key makes the import fail; lookup errors reject", why)
		}
		for _, s := range sites {
			if call, ok := s.(*ssa.Call); ok && calleeKey(call.Common()) != c20KsHas {
				cal := staticCallee(call.Common())
				nHas++
				c.analysed(cal)
				if g.boolGuard[cal] == 2 {
					c.ok("D7", fnName(fn)+"->"+fnName(cal)+"+keystore.Has", posOf(call), "%s answers true (or fails) whenever a keystore.Has finds a key; its true side and its error reject here", fnName(cal))
				} else {
					c.ok("D7", fnName(fn)+"->"+fnName(cal)+"+keystore.Has", posOf(call), "%s succeeds only behind a keystore.Has phase whose 'exists' side errors, and its error is enforced here", fnName(cal))
				}
			}
		}
		for _, b := range fn.Blocks {
			for _, in := range b.Instrs {
				ci, ok := in.(ssa.CallInstruction)
				if !ok {
					continue
				}
				direct := calleeKey(ci.Common()) == c20KsPut
				cal := staticCallee(ci.Common())
				lifted := !direct && cal != nil && cal.Blocks != nil && inModule(cal) && cal != fn && g.reachesPut(cal, 0)
				if !direct && !lifted {
					continue
				}
				guarded := false
				for _, s := range sites {
					if s != ssa.Instruction(ci) && c20Before(s, ci) {
						guarded = true
					}
				}
				switch {
				case guarded && direct:
					nPut++
					c.ok("D7", fnName(fn)+"+keystore.Put", posOf(ci), "the key is written only behind the 'no account yet' phase")
				case guarded:
					// everything below this call is behind the guard
					nPut++
					c.ok("D7", fnName(fn)+"->"+fnName(cal), posOf(ci), "the writing callee runs only behind the 'no account yet' phase")
				case direct:
					nPut++
					why := "no keystore.Has phase precedes it on every path"
					var ps []string
					for _, p := range g.problems {
						ps = append(ps, p)
					}
					sort.Strings(ps)
					if len(ps) > 0 {
						why = strings.Join(ps, "; ")
					}
					c.fail("D7", fnName(fn)+"+keystore.Put", posOf(ci), "an imported account key is written although the keystore may already hold an account: %s", why)
				default:
					walk(cal, depth+1)
				}
			}
		}
		n, bad := c20A3All(c, "D7", fn)
		if bad == 0 {
			c.ok("D7", fnName(fn)+"+errors", fn.Pos(), "%d error results on the import path, each tested, failing side reaches only error returns", n)
		}
	}
	walk(impl, 0)
	if nPut == 0 {
		c.fail("D7", fnName(impl)+"+keystore.Put", impl.Pos(), "ImportAccountKeys never stores the imported keys in the keystore")
	}
	if nHas == 0 && nPut > 0 {
		c.fail("D7", fnName(impl)+"+keystore.Has", impl.Pos(), "ImportAccountKeys never asks the keystore whether an account key already exists: a restore onto a used store is not rejected")
	}
}

// ---------------------------------------------------------------------------
// D9: the set of groups the export walks = the service's live group contexts

func c20IsGroupCtxPtr(t types.Type) bool {
	p, ok := t.(*types.Pointer)
	return ok && c20IsNamed(p.Elem(), c20Root, "GroupContext") && c20Named(p.Elem()) != nil
}

// c20ReachAvoid: blocks reachable from start without entering any block of avoid (start is
// included unless it is itself avoided).
func c20ReachAvoid(start *ssa.BasicBlock, avoid map[*ssa.BasicBlock]bool) map[*ssa.BasicBlock]bool {
	seen := map[*ssa.BasicBlock]bool{}
	if avoid[start] {
		return seen
	}
	seen[start] = true
	stack := []*ssa.BasicBlock{start}
	for len(stack) > 0 {
		b := stack[len(stack)-1]
		stack = stack[:len(stack)-1]
		for _, s := range b.Succs {
			if !seen[s] && !avoid[s] {
				seen[s] = true
				stack = append(stack, s)
			}
		}
	}
	return seen
}

func c20WithAnons(fns []*ssa.Function) []*ssa.Function {
	seen := map[*ssa.Function]bool{}
	var out []*ssa.Function
	var add func(f *ssa.Function)
	add = func(f *ssa.Function) {
		if f == nil || seen[f] || f.Blocks == nil {
			return
		}
		seen[f] = true
		out = append(out, f)
		for _, a := range f.AnonFuncs {
			add(a)
		}
	}
	for _, f := range fns {
		add(f)
	}
	return out
}

func runC20Registry(c *Ctx, exportFns []*ssa.Function) {
	w := c.W
	// the map the exporter ranges over
	var m *types.Var
	var owner *types.Named
	for _, f := range c20WithAnons(exportFns) {
		for _, b := range f.Blocks {
			for _, in := range b.Instrs {
				rg, ok := in.(*ssa.Range)
				if !ok {
					continue
				}
				base, fv, ok := c20FieldRead(rg.X)
				if !ok {
					continue
				}
				mt, ok := fv.Type().Underlying().(*types.Map)
				if !ok || !c20IsGroupCtxPtr(mt.Elem()) {
					continue
				}
				m, owner = fv, c20Named(base.Type())
			}
		}
	}
	if m == nil || owner == nil {
		c.undecided("D9", "export+group-set", token.NoPos, "the exporter does not range over a map[..]*GroupContext field: cannot tell which groups an export covers")
		return
	}
	isOwner := func(t types.Type) bool {
		n := c20Named(t)
		return n != nil && n.Obj() == owner.Obj()
	}
	n := 0
	for _, fn := range w.ModFuncs {
		if p := fnPkg(fn); p == nil || p.Path() != c20Root {
			continue
		}
		// registrations: stores into the map (through the field, or into a map value that the
		// function installs as the field)
		regs := map[*ssa.BasicBlock]bool{}
		installed := map[ssa.Value]bool{}
		for _, b := range fn.Blocks {
			for _, in := range b.Instrs {
				if st, ok := in.(*ssa.Store); ok {
					if fa, ok := st.Addr.(*ssa.FieldAddr); ok && isOwner(fa.X.Type()) {
						stt := fa.X.Type().Underlying().(*types.Pointer).Elem().Underlying().(*types.Struct)
						if stt.Field(fa.Field) == m {
							installed[st.Val] = true
						}
					}
				}
			}
		}
		for _, b := range fn.Blocks {
			for _, in := range b.Instrs {
				mu, ok := in.(*ssa.MapUpdate)
				if !ok {
					continue
				}
				if _, fv, ok := c20FieldRead(mu.Map); (ok && fv == m) || installed[mu.Map] {
					regs[b] = true
				}
			}
		}
		type site struct {
			in   ssa.Instruction
			what string
		}
		var sites []site
		recvOwner := fn.Signature.Recv() != nil && isOwner(fn.Signature.Recv().Type())
		for _, b := range fn.Blocks {
			for _, in := range b.Instrs {
				switch x := in.(type) {
				case *ssa.Store:
					fa, ok := x.Addr.(*ssa.FieldAddr)
					if !ok || !isOwner(fa.X.Type()) || isNilConst(x.Val) {
						continue
					}
					stt := fa.X.Type().Underlying().(*types.Pointer).Elem().Underlying().(*types.Struct)
					if c20IsGroupCtxPtr(stt.Field(fa.Field).Type()) {
						sites = append(sites, site{x, "live-context(" + stt.Field(fa.Field).Name() + ")"})
					}
				case *ssa.Call:
					if recvOwner && c20Method(x.Common(), c20Root, "ActivateGroupContext") {
						sites = append(sites, site{x, "ActivateGroupContext"})
					}
				}
			}
		}
		if len(sites) == 0 {
			continue
		}
		c.analysed(fn)
		fromEntry := c20ReachAvoid(fn.Blocks[0], regs)
		for _, st := range sites {
			n++
			construct := fnName(fn) + "+" + st.what
			blk := st.in.Block()
			var bad []*ssa.Return
			if !regs[blk] && fromEntry[blk] {
				after := c20ReachAvoid(blk, regs)
				for _, r := range returnsOf(fn) {
					if after[r.Block()] && isSuccessReturn(r) {
						bad = append(bad, r)
					}
				}
			}
			c.check(len(bad) == 0, "D9", construct, posOf(st.in), "every success path through it also registers the context in the map the export walks ("+m.Name()+")",
				"a group context becomes the service's live context here, but a success return ("+describeReturns(c, bad)+") is reached without it being stored into "+m.Name()+", the map the export walks: the group is open and usable yet missing (entries and heads) from every export")
		}
	}
	if n == 0 {
		c.undecided("D9", "service+activation", token.NoPos, "no function stores a *GroupContext into the service or activates one")
	}
}

// ---------------------------------------------------------------------------
// D10: the registry the heads restore fills with a partial group is overwritten on the open path

type c20RegWrite struct {
	call   *ssa.Call
	method string
}

func c20RegistryWrites(fn *ssa.Function, reg *types.Var) (writes []c20RegWrite, loads []*ssa.Call) {
	for _, b := range fn.Blocks {
		for _, in := range b.Instrs {
			call, ok := in.(*ssa.Call)
			if !ok {
				continue
			}
			k := calleeKey(call.Common())
			if !strings.HasPrefix(k, "(*sync.Map).") || len(call.Common().Args) == 0 {
				continue
			}
			_, fv, ok := c20FieldRead(call.Common().Args[0])
			if !ok || (reg != nil && fv != reg) {
				continue
			}
			meth := strings.TrimPrefix(k, "(*sync.Map).")
			switch meth {
			case "Store", "Swap", "LoadOrStore", "CompareAndSwap":
				writes = append(writes, c20RegWrite{call, meth})
			}
			if meth == "Load" || meth == "LoadOrStore" {
				loads = append(loads, call)
			}
		}
	}
	return
}

// c20GroupValueArg: the sync.Map write stores a *protocoltypes.Group.
func c20GroupValueArg(call *ssa.Call) bool {
	for _, a := range call.Common().Args[1:] {
		if mi, ok := a.(*ssa.MakeInterface); ok && c20IsNamed(mi.X.Type(), c20Types, "Group") {
			if _, isPtr := mi.X.Type().(*types.Pointer); isPtr {
				return true
			}
		}
	}
	return false
}

func runC20OpenRegistry(c *Ctx, headFns []*ssa.Function) {
	w := c.W
	// the registry: a sync.Map field into which the heads restore stores a Group
	var reg *types.Var
	var regWriter *ssa.Function
	var rfns []*ssa.Function
	for f := range w.reachableFuncs(headFns, 4) {
		if p := fnPkg(f); p != nil && p.Path() == c20Root {
			rfns = append(rfns, f)
		}
	}
	sort.Slice(rfns, func(i, j int) bool { return rfns[i].String() < rfns[j].String() })
	for _, f := range rfns {
		ws, _ := c20RegistryWrites(f, nil)
		for _, wr := range ws {
			if c20GroupValueArg(wr.call) {
				_, fv, _ := c20FieldRead(wr.call.Common().Args[0])
				reg, regWriter = fv, f
			}
		}
	}
	if reg == nil {
		c.ok("D10", "restore+group-registry", token.NoPos, "the heads restore records no group in a registry: nothing can shadow the group of a later open")
		c.ok("D10", "restore+group-registry.open", token.NoPos, "(no registry written by restore)")
		return
	}
	c.analysed(regWriter)
	var writeVal constant.Value
	if p := w.typesPkg(c20Root); p != nil {
		if k, ok := p.Scope().Lookup("GroupOpenModeWrite").(*types.Const); ok {
			writeVal = k.Val()
		}
	}
	if writeVal == nil {
		c.undecided("D10", "GroupOpenModeWrite", token.NoPos, "constant GroupOpenModeWrite not found")
		return
	}
	var weak []string
	memo := map[ssa.Instruction]int{}
	var check func(fn *ssa.Function, at ssa.Instruction, depth int) bool
	check = func(fn *ssa.Function, at ssa.Instruction, depth int) bool {
		if v := memo[at]; v != 0 {
			return v == 2
		}
		memo[at] = 1
		writes, loads := c20RegistryWrites(fn, reg)
		for _, wr := range writes {
			if !c20GroupValueArg(wr.call) {
				continue
			}
			if wr.method != "Store" && wr.method != "Swap" {
				weak = append(weak, fmt.Sprintf("%s uses %s (first write wins) at %s", fnName(fn), wr.method, c.pos(posOf(wr.call))))
				continue
			}
			guarded := false
			for _, ld := range loads {
				if bv := boolVerdict(ld); bv != nil {
					ve := edgesOfVerdict(bv)
					if c20UnreachableWithout(wr.call.Block(), ve.Reject) || c20UnreachableWithout(wr.call.Block(), ve.Accept) {
						guarded = true
					}
				}
			}
			if guarded {
				weak = append(weak, fmt.Sprintf("%s stores only depending on a previous Load of the registry at %s", fnName(fn), c.pos(posOf(wr.call))))
				continue
			}
			if instrDominates(wr.call, at) {
				memo[at] = 2
				return true
			}
		}
		callers := w.callGraph().callers[fn]
		if len(callers) == 0 || depth >= 4 {
			return false
		}
		for _, cs := range callers {
			if !check(cs.Caller, cs.Instr, depth+1) {
				return false
			}
		}
		memo[at] = 2
		return true
	}
	n := 0
	for _, fn := range w.ModFuncs {
		if p := fnPkg(fn); p == nil || p.Path() != c20Root {
			continue
		}
		for _, b := range fn.Blocks {
			for _, in := range b.Instrs {
				call, ok := in.(*ssa.Call)
				if !ok {
					continue
				}
				isWrite := false
				for _, a := range call.Common().Args {
					if k, ok := a.(*ssa.Const); ok && k.Value != nil && c20IsNamed(k.Type(), c20Root, "GroupOpenMode") && constant.Compare(k.Value, token.EQL, writeVal) {
						isWrite = true
					}
				}
				if !isWrite {
					continue
				}
				n++
				c.analysed(fn)
				weak = nil
				ok = check(fn, call, 0)
				why := ""
				if len(weak) > 0 {
					why = ": " + strings.Join(c20Uniq(weak), "; ")
				}
				c.check(ok, "D10", fnName(fn)+"+open(write)", posOf(call), "on every call chain the registry "+reg.Name()+" is overwritten with the caller's group before the stores are opened in write mode",
					"stores are opened in write mode without the registry "+reg.Name()+" having been overwritten with the caller's group on every call chain"+why+"; the heads restore ("+fnName(regWriter)+") leaves a partial group (no secret, no type) under the same id, so after a restore the stores are built around that group")
			}
		}
	}
	if n == 0 {
		c.undecided("D10", "open(write)", token.NoPos, "no call passes GroupOpenModeWrite")
	}
}

// ---------------------------------------------------------------------------
// D11: everything read from the archive pipe is sent

// c20ZeroOnlyEdges: edges that can only be taken when the non-negative count n is 0.
func c20ZeroOnlyEdges(n ssa.Value) []edge {
	var out []edge
	var vals []ssa.Value
	vals = append(vals, n)
	if n.Referrers() != nil {
		for _, r := range *n.Referrers() {
			if cv, ok := r.(*ssa.Convert); ok {
				vals = append(vals, cv)
			}
		}
	}
	for _, v := range vals {
		if v.Referrers() == nil {
			continue
		}
		for _, r := range *v.Referrers() {
			bo, ok := r.(*ssa.BinOp)
			if !ok || bo.Referrers() == nil {
				continue
			}
			var zeroTruth, otherCanShare bool
			k, isK := constInt(bo.Y)
			left := true
			if !isK || bo.X != v {
				k, isK = constInt(bo.X)
				left = false
				if !isK || bo.Y != v {
					continue
				}
			}
			// truth of the comparison for n = 0 and whether some n > 0 gives the same truth
			eval := func(x int64) bool {
				l, r := x, k
				if !left {
					l, r = k, x
				}
				switch bo.Op {
				case token.EQL:
					return l == r
				case token.NEQ:
					return l != r
				case token.LSS:
					return l < r
				case token.LEQ:
					return l <= r
				case token.GTR:
					return l > r
				case token.GEQ:
					return l >= r
				}
				return false
			}
			switch bo.Op {
			case token.EQL, token.NEQ, token.LSS, token.LEQ, token.GTR, token.GEQ:
			default:
				continue
			}
			zeroTruth = eval(0)
			for _, x := range []int64{1, 2, k - 1, k, k + 1, 1 << 40} {
				if x > 0 && eval(x) == zeroTruth {
					otherCanShare = true
				}
			}
			if otherCanShare {
				continue
			}
			for _, r2 := range *bo.Referrers() {
				ifi, ok := r2.(*ssa.If)
				if !ok || ifi.Cond != ssa.Value(bo) {
					continue
				}
				b := ifi.Block()
				if zeroTruth {
					out = append(out, edge{b, b.Succs[0]})
				} else {
					out = append(out, edge{b, b.Succs[1]})
				}
			}
		}
	}
	return out
}

func runC20Stream(c *Ctx, roots []*ssa.Function) {
	type readSite struct {
		call *ssa.Call
		buf  ssa.Value
		n    ssa.Value
		err  ssa.Value
	}
	nRead := 0
	for _, fn := range c20WithAnons(roots) {
		var reads []readSite
		var sends []*ssa.Call
		for _, b := range fn.Blocks {
			for _, in := range b.Instrs {
				call, ok := in.(*ssa.Call)
				if !ok {
					continue
				}
				cc := call.Common()
				k := calleeKey(cc)
				var buf ssa.Value
				switch {
				case k == "io.ReadFull" || k == "io.ReadAtLeast":
					if len(cc.Args) >= 2 {
						buf = cc.Args[1]
					}
				case c20Method(cc, "", "Read"):
					_, rest := c20Recv(cc)
					if len(rest) == 1 && c20IsByteSlice(rest[0].Type()) {
						buf = rest[0]
					}
				case cc.IsInvoke() && cc.Method.Name() == "Send" && len(cc.Args) == 1:
					// the stream's Send (declared by grpc's generic server stream) of a protocol message
					if n := c20Named(cc.Args[0].Type()); n != nil && n.Obj().Pkg() != nil && n.Obj().Pkg().Path() == c20Types {
						sends = append(sends, call)
					}
				}
				if buf != nil && nResults(call) == 2 {
					reads = append(reads, readSite{call, c20Strip(buf), resultValue(call, 0), resultValue(call, 1)})
				}
			}
		}
		if len(reads) == 0 {
			continue
		}
		c.analysed(fn)
		// a send is good for a read when its payload is buf[:n] of that read
		goodFor := func(snd *ssa.Call, rd readSite) bool {
			if len(snd.Common().Args) != 1 || rd.n == nil {
				return false
			}
			al, ok := c20Strip(snd.Common().Args[0]).(*ssa.Alloc)
			if !ok || al.Referrers() == nil {
				return false
			}
			for _, r := range *al.Referrers() {
				fa, ok := r.(*ssa.FieldAddr)
				if !ok || fa.Referrers() == nil {
					continue
				}
				for _, r2 := range *fa.Referrers() {
					st, ok := r2.(*ssa.Store)
					if !ok || st.Addr != ssa.Value(fa) || !c20IsByteSlice(st.Val.Type()) {
						continue
					}
					sl, ok := c20Strip(st.Val).(*ssa.Slice)
					if !ok || c20Strip(sl.X) != rd.buf || sl.High == nil || c20Strip(sl.High) != rd.n {
						return false
					}
					if sl.Low != nil {
						if lo, ok := constInt(sl.Low); !ok || lo != 0 {
							return false
						}
					}
					return true
				}
			}
			return false
		}
		for _, snd := range sends {
			ok := false
			for _, rd := range reads {
				if goodFor(snd, rd) {
					ok = true
				}
			}
			c.check(ok, "D11", fnName(fn)+"+Send.frame", posOf(snd), "the frame sent is the read buffer cut to the count the read returned", "the frame handed to Send is not buffer[:n] of a read of the archive pipe (whole buffer, another count or another buffer): the client receives bytes that are not the archive's")
		}
		for _, rd := range reads {
			nRead++
			construct := fnName(fn) + "+" + calleeKey(rd.call.Common()) + "->Send"
			if rd.n == nil || rd.err == nil {
				c.fail("D11", construct, posOf(rd.call), "the byte count or the error of the pipe read is discarded")
				continue
			}
			stop := map[*ssa.BasicBlock]bool{}
			for _, snd := range sends {
				if goodFor(snd, rd) {
					stop[snd.Block()] = true
				}
			}
			for _, b := range fn.Blocks {
				for _, in := range b.Instrs {
					if st, ok := in.(*ssa.Store); ok && isErrorType(st.Val.Type()) && definitelyNonNilErr(st.Val, b, 0) {
						stop[b] = true
					}
				}
			}
			cut := map[edge]bool{}
			for _, e := range c20EOFEdges(rd.err) {
				cut[e] = true
			}
			for _, e := range c20ZeroOnlyEdges(rd.n) {
				cut[e] = true
			}
			start := rd.call.Block()
			var escapes []string
			if !stop[start] || !c20AfterInBlock(rd.call, stop, sends) {
				seen := map[*ssa.BasicBlock]bool{}
				var stack []*ssa.BasicBlock
				push := func(from, to *ssa.BasicBlock) {
					if cut[edge{from, to}] {
						return
					}
					if to == start {
						escapes = append(escapes, "the next read")
						return
					}
					if !seen[to] {
						seen[to] = true
						stack = append(stack, to)
					}
				}
				for _, s := range start.Succs {
					push(start, s)
				}
				idx := errResultIndex(fn.Signature)
				for len(stack) > 0 {
					b := stack[len(stack)-1]
					stack = stack[:len(stack)-1]
					if stop[b] {
						continue
					}
					if len(b.Instrs) > 0 {
						if ret, ok := b.Instrs[len(b.Instrs)-1].(*ssa.Return); ok && b != fn.Recover {
							res := c20RetResults(ret)
							if idx < 0 || idx >= len(res) || !definitelyNonNilErr(res[idx], b, 0) {
								escapes = append(escapes, "the end of the sender at "+c.pos(posOf(ret)))
							}
							continue
						}
					}
					for _, s := range b.Succs {
						push(b, s)
					}
				}
			}
			escapes = c20Uniq(escapes)
			c.check(len(escapes) == 0, "D11", construct, posOf(rd.call), "every path from the read passes Send(buffer[:n]) unless err == io.EOF, n == 0 or an error is recorded",
				"bytes read from the archive pipe can be dropped: a path from the read reaches "+strings.Join(escapes, ", ")+" without sending buffer[:n], without err being io.EOF and without an error being recorded (e.g. a short last read treated as end of stream): the client receives a truncated archive as a complete export")
		}
	}
	if nRead == 0 {
		c.undecided("D11", "ServiceExportData+read-loop", token.NoPos, "no read of the archive pipe ((io.Reader).Read / io.ReadFull / io.ReadAtLeast into a byte buffer) found in the export RPC")
	}
}

// c20AfterInBlock: in the read's own block, a good send or an error record follows the read.
func c20AfterInBlock(rd *ssa.Call, stop map[*ssa.BasicBlock]bool, sends []*ssa.Call) bool {
	after := false
	for _, in := range rd.Block().Instrs {
		if in == ssa.Instruction(rd) {
			after = true
			continue
		}
		if !after {
			continue
		}
		for _, s := range sends {
			if in == ssa.Instruction(s) {
				return true
			}
		}
	}
	return false
}
