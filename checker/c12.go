package main

// C12: invitations are self-authenticating; replication descriptors cannot read.
//
// Two analyses, both over the type-checked SSA only:
//
//   - finite-domain abstract evaluation (absint.go) of MetadataStore.GroupJoin and of the
//     SecretStore implementation's GetOwnMemberDeviceForGroup, one scenario per element of a
//     finite input domain (group type x signature verdict x key parse verdict);
//   - a field-label dataflow (c12Flow, below) that answers "which fields of the input group
//     can this value be computed from, and does the raw secret reach it or only a one-way
//     image of it".

import (
	"fmt"
	"go/constant"
	"go/token"
	"go/types"
	"sort"
	"strings"

	"golang.org/x/tools/go/ssa"
)

const (
	c12KeyKeystoreGet = "(github.com/ipfs/go-ipfs-keystore.Keystore).Get"
	c12KeyJoin        = "strings.Join"
	c12PkgOrbit       = "berty.tech/go-orbit-db"
)

func init() {
	register(&PropertyDef{
		ID:          "C12",
		Title:       "Invitations are self-authenticating; replication descriptors cannot read",
		Explanation: "Decides, from the type-checked SSA of /repo: (D1) by finite-domain abstract evaluation of MetadataStore.GroupJoin, one scenario per group type (each enum value and one undeclared value), signature verdict and key-parse verdict: the call that appends the AccountGroupJoined event is reachable, or a nil error is returned, only when Verify(key parsed from the group's PublicKey, Secret, SecretSig) accepted and the type is multi-member; and every module caller of GroupJoin returns an error on every path once GroupJoin has refused; (D6) in every module caller of GroupJoin, a call that receives the same group and may write to a datastore/keystore (effect summaries) or open an orbit-db store is not executable on any path on which GroupJoin has not accepted the group (evaluated with GroupJoin refusing: before the validating call, without it, after its failure); (D7) in every module caller of GroupJoin that receives a group (a group parameter or a group field of a request message), evaluated once per group type: the group object handed to GroupJoin has the GroupType, PublicKey, Secret and SecretSig of the group received (the same object, or a copy whose fields all come from it) — a field known to hold something else (a constant type, another field, an in-place assignment) is reported, a group built by library code is opaque and only noted; (D8) at every module call that returns the own member/device pair for a group (a result implementing OwnMemberDevice, a group parameter): nothing derived from the result (the pair, its keys, their raw bytes) is stored into a field of an object reachable from a parameter/receiver/captured variable, or into a package variable, unless the group argument is itself a field of that same object; objects under construction, map entries and locals are not reported (this is the write side of 'always under the keys derived for that group'; that every DevicePk/MemberPk field of an outgoing message is read from the right object is not decided); (D2) by a field-label dataflow over FilterGroupForReplication and the module functions it uses: the returned descriptor is neither the input nor a copy or serialisation of it, and no value stored into a field of it can be computed back to the raw Secret (the secret reaches it only through the one-way functions listed under trusted base); (D3) the access-controller manifest stored by DefaultOrbitDBOptions and the store name given to DetermineAddress depend on no field of the group other than PublicKey, SignPub and a one-way image of Secret, and the descriptor carries exactly those inputs (PublicKey copied, SignPub = signing public key); (D9) the log address of a store does not depend on which store was opened before: DefaultOrbitDBOptions is evaluated twice in a row on the same caller-owned options value (no access controller chosen by the caller) and the second result must carry the manifest computed by the second call; when it carries the first one (defaults filled into the caller's struct, 'only if nil') the rule follows the options parameter up the module call graph and reports every function that hands one options value to two store opens on one path — with no such caller the function is accepted with a note;  (D4) by abstract evaluation of the SecretStore implementation's GetOwnMemberDeviceForGroup per group type: for a multi-member group no key of the returned member/device pair is a keystore entry stored under a constant (account-wide) name; (D5) the secretbox.Open calls that open GroupEnvelope.Event and MessageEnvelope.MessageHeaders (and any other box keyed on a group parameter) take a key computed from the raw Secret, which by D2 the descriptor lacks. Not decided: unforgeability of Ed25519 and one-wayness of HKDF / public-key derivation (trusted); that the append itself succeeds; that message payload keys (chain keys) reach only members (C05); implicit (control-dependence) flows of the secret; writes into the input group (it is treated as immutable); a descriptor built by copying the whole group and clearing fields afterwards is reported although it could be correct (the dataflow is flow-insensitive); deferred closures are not interpreted by the evaluator (checked not to assign captured variables).",
		Trusted: []string{"golang.org/x/tools go/packages+go/ssa (v0.29.0)", "go/types",
			"libp2p crypto.PubKey.Verify / UnmarshalEd25519PublicKey semantics",
			"one-way functions: crypto.PrivKey.GetPublic, ed25519.PrivateKey.Public, hkdf.New/Extract/Expand/Key, hmac.New, sha256/sha512/sha3/blake2b sums",
			"keystore names are the identity of a key (go-ipfs-keystore Get/Put)"},
		Assumptions: []string{"dependencies behave as documented; only module code is analysed", "label dataflow is flow-insensitive and ignores control dependence"},
		Floors:      map[string]int{"D1": 5, "D2": 1, "D3": 4, "D4": 1, "D5": 2, "D6": 1, "D7": 1, "D8": 8, "D9": 1},
		Run:         runC12,
	})
}

// ---------------------------------------------------------------------------
// field-label dataflow

type c12L uint16

const (
	c12Raw    c12L = 1 << iota // the raw group secret (or a reversible image of it)
	c12OneWay                  // a one-way image of the secret (public key, KDF output)
	c12PublicKey
	c12SignPub
	c12LinkKey
	c12LinkKeySig
	c12SecretSig
	c12GroupType
	c12Whole // the input group itself (pointer, copy or serialisation of the whole object)
)

const c12AllFields = c12Raw | c12PublicKey | c12SignPub | c12LinkKey | c12LinkKeySig | c12SecretSig | c12GroupType

var c12FieldLabel = map[string]c12L{
	"Secret": c12Raw, "PublicKey": c12PublicKey, "SignPub": c12SignPub, "LinkKey": c12LinkKey,
	"LinkKeySig": c12LinkKeySig, "SecretSig": c12SecretSig, "GroupType": c12GroupType,
}

func (l c12L) String() string {
	if l == 0 {
		return "{}"
	}
	names := []struct {
		b c12L
		s string
	}{{c12Whole, "whole-group"}, {c12Raw, "Secret"}, {c12OneWay, "oneway(Secret)"}, {c12PublicKey, "PublicKey"}, {c12SignPub, "SignPub"},
		{c12LinkKey, "LinkKey"}, {c12LinkKeySig, "LinkKeySig"}, {c12SecretSig, "SecretSig"}, {c12GroupType, "GroupType"}}
	var out []string
	for _, n := range names {
		if l&n.b != 0 {
			out = append(out, n.s)
		}
	}
	return "{" + strings.Join(out, ",") + "}"
}

// one-way library functions: the raw secret does not survive them
var c12OneWayFns = map[string]bool{
	"(github.com/libp2p/go-libp2p/core/crypto.PrivKey).GetPublic": true,
	"(crypto/ed25519.PrivateKey).Public":                          true,
	"(golang.org/x/crypto/ed25519.PrivateKey).Public":             true,
	"golang.org/x/crypto/hkdf.New":                                true,
	"golang.org/x/crypto/hkdf.Extract":                            true,
	"golang.org/x/crypto/hkdf.Expand":                             true,
	"crypto/hkdf.Extract":                                         true,
	"crypto/hkdf.Expand":                                          true,
	"crypto/hkdf.Key":                                             true,
	"crypto/hmac.New":                                             true,
	"crypto/sha256.Sum256":                                        true,
	"crypto/sha512.Sum512":                                        true,
	"crypto/sha512.Sum512_256":                                    true,
	"golang.org/x/crypto/sha3.Sum256":                             true,
	"golang.org/x/crypto/sha3.Sum512":                             true,
	"golang.org/x/crypto/blake2b.Sum256":                          true,
	"golang.org/x/crypto/blake2b.Sum512":                          true,
}

type c12Sum struct {
	vals      map[ssa.Value]c12L
	results   []c12L
	paramsOut []c12L
}

type c12Flow struct {
	w     *World
	memo  map[string]*c12Sum
	busy  map[string]bool
	funcs map[*ssa.Function]bool
	// visit, when set, is told every (function, summary) pair used while it is set
	visit func(fn *ssa.Function, sum *c12Sum)
}

func newC12Flow(w *World) *c12Flow {
	return &c12Flow{w: w, memo: map[string]*c12Sum{}, busy: map[string]bool{}, funcs: map[*ssa.Function]bool{}}
}

func c12Expand(l c12L) c12L {
	if l&c12Whole != 0 {
		return l | c12AllFields
	}
	return l
}

func c12OneWayOf(l c12L) c12L {
	l = c12Expand(l) &^ c12Whole
	if l&c12Raw != 0 {
		l = l&^c12Raw | c12OneWay
	}
	return l
}

func c12IsGroupStruct(t types.Type) bool {
	if p, ok := t.Underlying().(*types.Pointer); ok {
		t = p.Elem()
	}
	n, ok := types.Unalias(t).(*types.Named)
	return ok && n.Obj().Name() == "Group" && n.Obj().Pkg() != nil && n.Obj().Pkg().Path() == pkgTypes
}

func c12IsRef(t types.Type) bool {
	switch t.Underlying().(type) {
	case *types.Pointer, *types.Slice, *types.Map:
		return true
	}
	return false
}

// groupParamsIn returns the input labels that make every group-typed parameter "the group".
func c12GroupParams(fn *ssa.Function) (in []c12L, n int) {
	in = make([]c12L, len(fn.Params))
	for i, p := range fn.Params {
		if c12IsGroupStruct(p.Type()) {
			in[i] = c12Whole
			n++
		}
	}
	return
}

func (f *c12Flow) run(fn *ssa.Function, in []c12L, depth int) *c12Sum {
	key := fn.String() + "|" + fmt.Sprint(in)
	if s, ok := f.memo[key]; ok {
		if f.visit != nil {
			f.visit(fn, s)
		}
		return s
	}
	if f.busy[key] || depth > 8 || fn.Blocks == nil {
		var u c12L
		for _, l := range in {
			u |= c12Expand(l)
		}
		res := make([]c12L, fn.Signature.Results().Len())
		for i := range res {
			res[i] = u
		}
		return &c12Sum{vals: map[ssa.Value]c12L{}, results: res, paramsOut: append([]c12L(nil), in...)}
	}
	f.busy[key] = true
	defer delete(f.busy, key)
	f.funcs[fn] = true

	L := map[ssa.Value]c12L{}
	callRes := map[ssa.Value][]c12L{}
	for i, p := range fn.Params {
		if i < len(in) {
			L[p] = in[i]
		}
	}
	changed := true
	add := func(v ssa.Value, l c12L) {
		if v == nil || l == 0 {
			return
		}
		switch v.(type) {
		case *ssa.Const, *ssa.Function, *ssa.Builtin, *ssa.Global:
			return
		}
		if L[v]|l != L[v] {
			L[v] |= l
			changed = true
		}
	}
	// addObj marks the memory designated by addr: the address and every enclosing object.
	var addObj func(addr ssa.Value, l c12L)
	addObj = func(addr ssa.Value, l c12L) {
		if l == 0 || L[addr]&c12Whole != 0 {
			return // the input group itself is not modelled as mutable
		}
		add(addr, l)
		switch x := addr.(type) {
		case *ssa.FieldAddr:
			addObj(x.X, l)
		case *ssa.IndexAddr:
			addObj(x.X, l)
		case *ssa.Slice:
			addObj(x.X, l)
		case *ssa.MakeInterface:
			addObj(x.X, l)
		case *ssa.ChangeType:
			addObj(x.X, l)
		case *ssa.Convert:
			addObj(x.X, l)
		}
	}
	fieldView := func(base ssa.Value, st *types.Struct, idx int) c12L {
		b := L[base]
		if b&c12Whole != 0 && c12IsGroupStruct(base.Type()) {
			return b&^c12Whole | c12FieldLabel[st.Field(idx).Name()]
		}
		return b
	}
	doCall := func(ci ssa.CallInstruction) {
		cc := ci.Common()
		var v ssa.Value
		if c, ok := ci.(*ssa.Call); ok {
			v = c
		}
		args := cc.Args
		if b, ok := cc.Value.(*ssa.Builtin); ok {
			switch b.Name() {
			case "copy":
				if len(args) == 2 {
					addObj(args[0], L[args[1]])
				}
			case "append":
				var u c12L
				for _, a := range args {
					u |= L[a]
				}
				add(v, u)
			}
			return
		}
		k := calleeKey(cc)
		if c12OneWayFns[k] {
			var u c12L
			if cc.IsInvoke() {
				u |= L[cc.Value]
			}
			for _, a := range args {
				u |= L[a]
			}
			add(v, c12OneWayOf(u))
			return
		}
		if callee := staticCallee(cc); callee != nil {
			if callee.Blocks == nil {
				if o := callee.Origin(); o != nil && o.Blocks != nil {
					callee = o
				}
			}
			if callee.Blocks != nil && inModule(callee) && len(callee.FreeVars) == 0 && len(args) == len(callee.Params) {
				cin := make([]c12L, len(args))
				any := false
				for i, a := range args {
					cin[i] = L[a]
					if cin[i] != 0 {
						any = true
					}
				}
				if !any && v != nil && depth > 0 {
					// nothing of the group goes in: nothing of it comes out
					return
				}
				sum := f.run(callee, cin, depth+1)
				if v != nil {
					callRes[v] = sum.results
					var u c12L
					for _, r := range sum.results {
						u |= r
					}
					if len(sum.results) == 1 {
						add(v, sum.results[0])
					} else {
						add(v, u)
					}
				}
				for i, po := range sum.paramsOut {
					if i < len(args) && c12IsRef(args[i].Type()) {
						addObj(args[i], po&^cin[i])
					}
				}
				return
			}
		}
		// library call, interface call, closure call: results may depend on everything that goes
		// in; memory reachable from a reference argument may receive what the others carry
		all := []ssa.Value{}
		if cc.IsInvoke() {
			all = append(all, cc.Value)
		} else if mc, ok := cc.Value.(*ssa.MakeClosure); ok {
			all = append(all, mc)
		} else if _, isF := cc.Value.(*ssa.Function); !isF {
			all = append(all, cc.Value)
		}
		all = append(all, args...)
		var u c12L
		for _, a := range all {
			u |= c12Expand(L[a])
		}
		add(v, u)
		for i, a := range all {
			if !c12IsRef(a.Type()) {
				continue
			}
			var others c12L
			for j, b := range all {
				if j != i {
					others |= c12Expand(L[b])
				}
			}
			addObj(a, others&^c12Whole)
		}
	}
	for iter := 0; changed && iter < 64; iter++ {
		changed = false
		for _, b := range fn.Blocks {
			for _, in := range b.Instrs {
				switch x := in.(type) {
				case *ssa.Store:
					addObj(x.Addr, L[x.Val])
				case *ssa.MapUpdate:
					add(x.Map, L[x.Key]|L[x.Value])
				case *ssa.Send:
					add(x.Chan, L[x.X])
				case ssa.CallInstruction:
					doCall(x)
				case *ssa.FieldAddr:
					st := x.X.Type().Underlying().(*types.Pointer).Elem().Underlying().(*types.Struct)
					add(x, fieldView(x.X, st, x.Field))
				case *ssa.Field:
					st := x.X.Type().Underlying().(*types.Struct)
					add(x, fieldView(x.X, st, x.Field))
				case *ssa.UnOp:
					add(x, L[x.X])
				case *ssa.BinOp:
					switch x.Op {
					case token.EQL, token.NEQ, token.LSS, token.LEQ, token.GTR, token.GEQ:
					default:
						add(x, L[x.X]|L[x.Y])
					}
				case *ssa.Phi:
					for _, e := range x.Edges {
						add(x, L[e])
					}
				case *ssa.Convert:
					add(x, L[x.X])
				case *ssa.ChangeType:
					add(x, L[x.X])
				case *ssa.ChangeInterface:
					add(x, L[x.X])
				case *ssa.MakeInterface:
					add(x, L[x.X])
				case *ssa.SliceToArrayPointer:
					add(x, L[x.X])
				case *ssa.MultiConvert:
					add(x, L[x.X])
				case *ssa.TypeAssert:
					add(x, L[x.X])
				case *ssa.Extract:
					if rs, ok := callRes[x.Tuple]; ok && x.Index < len(rs) {
						add(x, rs[x.Index])
					} else {
						add(x, L[x.Tuple])
					}
				case *ssa.Index:
					add(x, L[x.X])
				case *ssa.IndexAddr:
					add(x, L[x.X])
				case *ssa.Slice:
					add(x, L[x.X])
				case *ssa.Lookup:
					add(x, L[x.X])
				case *ssa.Range:
					add(x, L[x.X])
				case *ssa.Next:
					add(x, L[x.Iter])
				case *ssa.MakeClosure:
					for _, bv := range x.Bindings {
						add(x, L[bv])
					}
				}
			}
		}
	}
	sum := &c12Sum{vals: L, results: make([]c12L, fn.Signature.Results().Len())}
	for _, r := range returnsOf(fn) {
		for i, v := range retResults(r) {
			if i < len(sum.results) {
				sum.results[i] |= L[v]
			}
		}
	}
	for _, p := range fn.Params {
		sum.paramsOut = append(sum.paramsOut, L[p])
	}
	f.memo[key] = sum
	if f.visit != nil {
		f.visit(fn, sum)
	}
	return sum
}

// ---------------------------------------------------------------------------
// helpers for the abstract evaluations

func c12IsByteSlice(t types.Type) bool {
	s, ok := t.Underlying().(*types.Slice)
	if !ok {
		return false
	}
	b, ok := s.Elem().Underlying().(*types.Basic)
	return ok && b.Kind() == types.Byte
}

// c12DefNonNil: the abstract value is certainly a non-nil error/pointer.
func c12DefNonNil(v AVal) bool {
	switch v.(type) {
	case aNonNil, aPtr, aFunc, aIface:
		return true
	}
	return false
}

func c12AV(v AVal) string {
	if n, ok := v.(aNonNil); ok && n.Tag != "" {
		return n.Tag
	}
	if s, ok := v.(aSym); ok {
		return s.Path
	}
	return avString(v)
}

func c12ErrKey(k string) bool {
	return k == "fmt.Errorf" || k == "errors.New" || strings.HasSuffix(k, "pkg/errcode.ErrCode).Wrap") || strings.HasPrefix(k, "github.com/pkg/errors.")
}

type c12Outcome = Outcome

// c12Eval evaluates fn on symbolic arguments; every outcome carries the final heap of its path.
// A module function whose interpretation exceeds the loop budget (a byte-copy loop, say) is
// not interpreted on the next attempt: its call then yields unknown results, which keeps the
// set of outcomes an over-approximation (anything it would have checked is seen as unchecked).
func c12Eval(w *World, cfg EvalConfig, fn *ssa.Function) []c12Outcome {
	if cfg.MaxDepth == 0 {
		cfg.MaxDepth = 6
	}
	const loopMsg = "loop budget exceeded in "
	opaque := map[string]bool{}
	inline := cfg.Inline
	cfg.Inline = func(f *ssa.Function) bool {
		if opaque[fnName(f)] {
			return false
		}
		return inline == nil || inline(f)
	}
	// package-level tables of function values (assigned once by the package initialiser, only
	// read afterwards) are known slices: a range over one is the sequence of its elements
	tables := c12FuncTables(w)
	field := cfg.Field
	tableVal := map[string]AVal{}
	cfg.Field = func(path string, t types.Type) (AVal, bool) {
		if v, ok := tableVal[path]; ok {
			return v, true
		}
		if field != nil {
			return field(path, t)
		}
		return nil, false
	}
	if cfg.MaxVisits == 0 {
		cfg.MaxVisits = 3
	}
	for _, tb := range tables {
		if len(tb.Elems)+2 > cfg.MaxVisits {
			cfg.MaxVisits = len(tb.Elems) + 2
		}
	}
	for attempt := 0; ; attempt++ {
		ev := &Evaluator{W: w, Cfg: cfg}
		args := ev.SymbolicArgs(fn)
		if ev.st0 == nil {
			ev.st0 = &pstate{heap: map[int]*aObj{}}
		}
		for _, tb := range tables {
			o := ev.newObj(ev.st0, "")
			for i, el := range tb.Elems {
				o.Slots[fmt.Sprintf("[%d]", i)] = aFunc{Fn: el}
			}
			tableVal[tb.Path] = aSlice{ID: o.ID, Path: "", Len: len(tb.Elems)}
		}
		outs := ev.Eval(fn, args)
		more := false
		for _, o := range outs {
			if o.Kind == "truncated" && strings.HasPrefix(o.Why, loopMsg) {
				name := strings.TrimPrefix(o.Why, loopMsg)
				if name != fnName(fn) && !opaque[name] {
					opaque[name] = true
					more = true
				}
			}
		}
		if !more || attempt >= 8 {
			return outs
		}
	}
}

// c12Table is a package-level slice of function values whose elements are statically known.
type c12Table struct {
	Path  string // the global's name as the evaluator sees it
	Elems []*ssa.Function
}

// c12FuncTables finds the package-level variables of the module that hold a slice literal of
// functions / closures without captured variables, are assigned exactly once (by the package
// initialiser) and are otherwise only read: loaded, measured with len/cap, indexed for reading.
func c12FuncTables(w *World) []c12Table {
	if t, ok := w.memo["c12functables"].([]c12Table); ok {
		return t
	}
	type cand struct {
		elems []*ssa.Function
		bad   bool
		sets  int
	}
	cands := map[*ssa.Global]*cand{}
	get := func(g *ssa.Global) *cand {
		if cands[g] == nil {
			cands[g] = &cand{}
		}
		return cands[g]
	}
	funcOf := func(v ssa.Value) *ssa.Function {
		for {
			switch x := v.(type) {
			case *ssa.ChangeType:
				v = x.X
				continue
			case *ssa.Function:
				if x.Blocks != nil && len(x.FreeVars) == 0 {
					return x
				}
			case *ssa.MakeClosure:
				if f, ok := x.Fn.(*ssa.Function); ok && len(x.Bindings) == 0 && f.Blocks != nil {
					return f
				}
			}
			return nil
		}
	}
	// elements of a slice value built from a literal array in the same function
	literal := func(v ssa.Value) []*ssa.Function {
		sl, ok := v.(*ssa.Slice)
		if !ok || sl.Low != nil || sl.High != nil {
			return nil
		}
		al, ok := sl.X.(*ssa.Alloc)
		if !ok || al.Referrers() == nil {
			return nil
		}
		at, ok := al.Type().Underlying().(*types.Pointer).Elem().Underlying().(*types.Array)
		if !ok {
			return nil
		}
		if _, isFn := at.Elem().Underlying().(*types.Signature); !isFn {
			return nil
		}
		elems := make([]*ssa.Function, at.Len())
		for _, r := range *al.Referrers() {
			switch u := r.(type) {
			case *ssa.Slice, *ssa.DebugRef:
			case *ssa.IndexAddr:
				idx, isC := constInt(u.Index)
				if !isC || idx < 0 || idx >= at.Len() || u.Referrers() == nil {
					return nil
				}
				for _, r2 := range *u.Referrers() {
					st, ok := r2.(*ssa.Store)
					if !ok || st.Addr != ssa.Value(u) || elems[idx] != nil {
						return nil
					}
					if elems[idx] = funcOf(st.Val); elems[idx] == nil {
						return nil
					}
				}
			default:
				return nil
			}
		}
		for _, e := range elems {
			if e == nil {
				return nil
			}
		}
		return elems
	}
	readOnly := func(ld *ssa.UnOp) bool {
		if ld.Referrers() == nil {
			return true
		}
		for _, r := range *ld.Referrers() {
			switch u := r.(type) {
			case *ssa.DebugRef:
			case *ssa.Call:
				b, isB := u.Common().Value.(*ssa.Builtin)
				if !isB || (b.Name() != "len" && b.Name() != "cap") {
					return false
				}
			case *ssa.IndexAddr:
				if u.X != ssa.Value(ld) || u.Referrers() == nil {
					return false
				}
				for _, r2 := range *u.Referrers() {
					switch l2 := r2.(type) {
					case *ssa.DebugRef:
					case *ssa.UnOp:
						if l2.Op != token.MUL {
							return false
						}
					default:
						return false
					}
				}
			default:
				return false
			}
		}
		return true
	}
	fns := append([]*ssa.Function(nil), w.ModFuncs...)
	seen := map[*ssa.Function]bool{}
	for _, f := range fns {
		seen[f] = true
	}
	for _, sp := range w.SPkgs {
		if sp != nil && strings.HasPrefix(sp.Pkg.Path(), modulePath) {
			if in := sp.Func("init"); in != nil && in.Blocks != nil && !seen[in] {
				fns = append(fns, in)
			}
		}
	}
	for _, fn := range fns {
		for _, b := range fn.Blocks {
			for _, in := range b.Instrs {
				var ops [12]*ssa.Value
				for _, op := range in.Operands(ops[:0]) {
					if op == nil || *op == nil {
						continue
					}
					g, ok := (*op).(*ssa.Global)
					if !ok {
						continue
					}
					if sl, isSl := g.Type().Underlying().(*types.Pointer).Elem().Underlying().(*types.Slice); !isSl {
						continue
					} else if _, isFn := sl.Elem().Underlying().(*types.Signature); !isFn {
						continue
					}
					cd := get(g)
					switch x := in.(type) {
					case *ssa.Store:
						if x.Addr != ssa.Value(g) {
							cd.bad = true
							continue
						}
						cd.sets++
						if cd.elems = literal(x.Val); cd.elems == nil || fn.Name() != "init" || fn.Synthetic == "" {
							cd.bad = true
						}
					case *ssa.UnOp:
						if x.Op != token.MUL || !readOnly(x) {
							cd.bad = true
						}
					case *ssa.DebugRef:
					default:
						cd.bad = true
					}
				}
			}
		}
	}
	var out []c12Table
	for g, cd := range cands {
		if !cd.bad && cd.sets == 1 && len(cd.elems) > 0 && len(cd.elems) <= 64 {
			out = append(out, c12Table{Path: g.String(), Elems: cd.elems})
		}
	}
	sort.Slice(out, func(i, j int) bool { return out[i].Path < out[j].Path })
	w.memo["c12functables"] = out
	return out
}

// c12IsKeyParser: a library function ([]byte) -> (crypto.PubKey, error), e.g.
// UnmarshalEd25519PublicKey, UnmarshalPublicKey.
func c12IsKeyParser(cc *ssa.CallCommon) bool {
	f := staticCallee(cc)
	if f == nil || inModule(f) {
		return false
	}
	sig := cc.Signature()
	if sig.Params().Len() != 1 || sig.Results().Len() != 2 || !c12IsByteSlice(sig.Params().At(0).Type()) || !isErrorType(sig.Results().At(1).Type()) {
		return false
	}
	n, ok := types.Unalias(sig.Results().At(0).Type()).(*types.Named)
	return ok && n.Obj().Name() == "PubKey" && n.Obj().Pkg() != nil && n.Obj().Pkg().Path() == "github.com/libp2p/go-libp2p/core/crypto"
}

func c12EnumConst(w *World, pkg, name string) *types.Const {
	p := w.typesPkg(pkg)
	if p == nil {
		return nil
	}
	c, _ := p.Scope().Lookup(name).(*types.Const)
	return c
}

func c12HasConstArg(cc *ssa.CallCommon, want *types.Const) bool {
	for _, a := range cc.Args {
		if k, ok := a.(*ssa.Const); ok && k.Value != nil && types.Identical(k.Type(), want.Type()) && constant.Compare(k.Value, token.EQL, want.Val()) {
			return true
		}
	}
	return false
}

// ---------------------------------------------------------------------------

func runC12(c *Ctx) {
	c12D1(c)
	c12D6(c)
	c12D7(c)
	c12D8(c)
	c12D9(c)
	flow := newC12Flow(c.W)
	c12D2D3(c, flow)
	c12D4(c)
	c12D5(c, flow)
	for fn := range flow.funcs {
		c.analysed(fn)
	}
}

// ---- D1: join guard -------------------------------------------------------

type c12JoinScenario struct {
	Name    string
	Type    int64
	TypeStr string
	SigOK   bool
	SigErr  bool
	ParseOK bool
}

func c12D1(c *Ctx) {
	w := c.W
	join := w.lookupMethod(pkgRoot, "MetadataStore", "GroupJoin")
	if join == nil || join.Blocks == nil {
		c.undecided("D1", "MetadataStore.GroupJoin", token.NoPos, "exported method MetadataStore.GroupJoin not found")
		return
	}
	c.analysed(join)
	jn := fnName(join)
	gIdx := -1
	for i, p := range join.Params {
		if c12IsGroupStruct(p.Type()) {
			gIdx = i
		}
	}
	evJoined := c12EnumConst(w, pkgTypes, "EventType_EventTypeAccountGroupJoined")
	gt := namedType(w, pkgTypes, "GroupType")
	mm := c12EnumConst(w, pkgTypes, "GroupType_GroupTypeMultiMember")
	if gIdx < 0 || evJoined == nil || gt == nil || mm == nil {
		c.undecided("D1", jn, join.Pos(), "anchors missing: group parameter, EventTypeAccountGroupJoined, GroupType or GroupTypeMultiMember")
		return
	}
	gName := join.Params[gIdx].Name()
	mmVal, _ := constant.Int64Val(mm.Val())
	wantKey := "pub(" + gName + ".PublicKey)"

	run := func(sc c12JoinScenario) (appended, success bool, trunc string, verifies []string, pos token.Pos) {
		cfg := EvalConfig{
			Field: func(path string, t types.Type) (AVal, bool) {
				if path == gName+".GroupType" {
					return aConst{V: constant.MakeInt64(sc.Type), T: t}, true
				}
				if strings.HasPrefix(path, gName+".") && c12IsByteSlice(t) {
					return aSym{Path: path}, true
				}
				return nil, false
			},
			Interesting: func(k string, cc *ssa.CallCommon) bool {
				return k == keyVerify || c12HasConstArg(cc, evJoined)
			},
			Inline: func(fn *ssa.Function) bool { return inModule(fn) },
			Call: func(ev *Evaluator, st *pstate, k string, cc *ssa.CallCommon, args []AVal) ([]AVal, bool) {
				switch {
				case c12HasConstArg(cc, evJoined):
					return make([]AVal, cc.Signature().Results().Len()), true
				case c12IsKeyParser(cc) && len(args) == 1:
					if !sc.ParseOK {
						return []AVal{aNil{}, aNonNil{Tag: "parse error"}}, true
					}
					if s, ok := args[0].(aSym); ok {
						return []AVal{aNonNil{Tag: "pub(" + s.Path + ")"}, aNil{}}, true
					}
					return []AVal{aNonNil{Tag: "pub(?)"}, aNil{}}, true
				case k == keyVerify && len(args) == 3:
					key, _ := args[0].(aNonNil)
					data, _ := args[1].(aSym)
					sig, _ := args[2].(aSym)
					if key.Tag == wantKey && data.Path == gName+".Secret" && sig.Path == gName+".SecretSig" {
						var e AVal = aNil{}
						if sc.SigErr {
							e = aNonNil{Tag: "verify error"}
						}
						return []AVal{aConst{V: constant.MakeBool(sc.SigOK), T: types.Typ[types.Bool]}, e}, true
					}
					return nil, false
				case c12ErrKey(k):
					return []AVal{aNonNil{Tag: "error"}}, true
				}
				return nil, false
			},
		}
		errIdx := errResultIndex(join.Signature)
		for _, o := range c12Eval(w, cfg, join) {
			switch o.Kind {
			case "truncated":
				trunc = o.Why
				continue
			case "panic":
				continue
			}
			app := false
			var vs []string
			for _, e := range o.Trace {
				if e.Key == keyVerify {
					var as []string
					for _, a := range e.Args {
						as = append(as, c12AV(a))
					}
					vs = append(vs, fmt.Sprintf("Verify(%s) at %s", strings.Join(as, ", "), c.pos(e.Pos)))
				} else if e.Kind == "call" {
					app = true
					pos = e.Pos
				}
			}
			ok := errIdx >= 0 && errIdx < len(o.Results) && !c12DefNonNil(o.Results[errIdx])
			if app || ok {
				verifies = vs
			}
			appended = appended || app
			success = success || ok
		}
		return
	}

	// baseline: a valid multi-member invitation reaches the append
	app, _, trunc, _, apos := run(c12JoinScenario{Type: mmVal, SigOK: true, ParseOK: true})
	switch {
	case trunc != "":
		c.undecided("D1", jn+"+join-reachable", join.Pos(), "abstract evaluation truncated: %s", trunc)
		return
	case !app:
		c.undecided("D1", jn+"+join-reachable", join.Pos(), "no call carrying EventTypeAccountGroupJoined is reachable from GroupJoin for a valid multi-member invitation whose key parses from PublicKey and whose Verify(%s, Secret, SecretSig) accepts: the append role was not found", wantKey)
		return
	}
	c.ok("D1", jn+"+join-reachable", apos, "append of AccountGroupJoined located (reachable for a valid multi-member invitation)")

	report := func(construct, what string, scs []c12JoinScenario) {
		var bad []string
		for _, sc := range scs {
			app, succ, trunc, vs, _ := run(sc)
			if trunc != "" {
				c.undecided("D1", construct, join.Pos(), "abstract evaluation truncated in scenario %s: %s", sc.Name, trunc)
				return
			}
			if app || succ {
				how := "the append is reached"
				if !app {
					how = "a nil error is returned"
				}
				seen := "no Verify call on that path"
				if len(vs) > 0 {
					seen = "checks on that path: " + strings.Join(vs, "; ")
				}
				bad = append(bad, fmt.Sprintf("%s: %s (%s)", sc.Name, how, seen))
			}
		}
		if len(bad) == 0 {
			c.ok("D1", construct, join.Pos(), "%s: every path returns an error before the append", what)
		} else {
			c.fail("D1", construct, join.Pos(), "%s is still joined — %s", what, strings.Join(bad, " | "))
		}
	}
	report(jn+"+signature", "an invitation whose Secret is not signed by the group key (Verify(key from PublicKey, Secret, SecretSig) rejects)", []c12JoinScenario{
		{Name: "Verify=false", Type: mmVal, SigOK: false, ParseOK: true},
		{Name: "Verify=false,err", Type: mmVal, SigOK: false, SigErr: true, ParseOK: true},
	})
	report(jn+"+public-key", "an invitation whose PublicKey does not parse as a key", []c12JoinScenario{
		{Name: "UnmarshalEd25519PublicKey fails", Type: mmVal, SigOK: true, ParseOK: false},
	})
	var tsc []c12JoinScenario
	maxV := int64(0)
	for _, k := range enumValues(gt) {
		v, _ := constant.Int64Val(k.Val())
		if v > maxV {
			maxV = v
		}
		if v != mmVal {
			tsc = append(tsc, c12JoinScenario{Name: "GroupType=" + strings.TrimPrefix(k.Name(), "GroupType_"), Type: v, SigOK: true, ParseOK: true})
		}
	}
	tsc = append(tsc, c12JoinScenario{Name: fmt.Sprintf("GroupType=%d (undeclared)", maxV+94), Type: maxV + 94, SigOK: true, ParseOK: true})
	report(jn+"+group-type", "a correctly signed invitation that does not designate a multi-member group", tsc)
	c.count("join_scenarios", 4+len(tsc))

	// the refusal reaches the API: every module caller of GroupJoin rejects when it fails
	nCallers := 0
	for _, cs := range w.callGraph().callers[join] {
		call, ok := cs.Instr.(*ssa.Call)
		if !ok {
			continue
		}
		nCallers++
		c.analysed(cs.Caller)
		construct := fnName(cs.Caller) + "->GroupJoin.err"
		caller := cs.Caller
		cerr := errResultIndex(caller.Signature)
		if cerr < 0 {
			c.fail("D1", construct, posOf(call), "%s calls GroupJoin but cannot report its failure (no error result)", fnName(caller))
			continue
		}
		// deferred closures are not interpreted: make sure none rewrites a captured variable
		rewrites := false
		for _, b := range caller.Blocks {
			for _, in := range b.Instrs {
				d, ok := in.(*ssa.Defer)
				if !ok {
					continue
				}
				if mc, ok := d.Call.Value.(*ssa.MakeClosure); ok {
					for _, cb := range mc.Fn.(*ssa.Function).Blocks {
						for _, ci := range cb.Instrs {
							if st, ok := ci.(*ssa.Store); ok {
								if _, isFV := st.Addr.(*ssa.FreeVar); isFV {
									rewrites = true
								}
							}
						}
					}
				}
			}
		}
		if rewrites {
			c.undecided("D1", construct, posOf(call), "a deferred closure of %s assigns a captured variable (possibly the error result): not modelled", fnName(caller))
			continue
		}
		isJoin := func(cc *ssa.CallCommon) bool { return staticCallee(cc) == join }
		cfg := EvalConfig{
			Inline:      func(*ssa.Function) bool { return false },
			Interesting: func(_ string, cc *ssa.CallCommon) bool { return isJoin(cc) },
			Call: func(_ *Evaluator, _ *pstate, k string, cc *ssa.CallCommon, _ []AVal) ([]AVal, bool) {
				switch {
				case isJoin(cc):
					res := make([]AVal, cc.Signature().Results().Len())
					res[len(res)-1] = aNonNil{Tag: "join refused"}
					return res, true
				case c12ErrKey(k):
					return []AVal{aNonNil{Tag: "error"}}, true
				}
				return nil, false
			},
		}
		bad, trunc := 0, ""
		for _, o := range c12Eval(w, cfg, caller) {
			if o.Kind == "truncated" {
				trunc = o.Why
			}
			if o.Kind != "return" || len(o.Trace) == 0 {
				continue
			}
			if cerr >= len(o.Results) || !c12DefNonNil(o.Results[cerr]) {
				bad++
			}
		}
		switch {
		case trunc != "":
			c.undecided("D1", construct, posOf(call), "abstract evaluation truncated: %s", trunc)
		case bad > 0:
			c.fail("D1", construct, posOf(call), "when GroupJoin refuses the invitation, %s can still return a nil error (%d such paths): the tampered invitation does not make joining fail", fnName(caller), bad)
		default:
			c.ok("D1", construct, posOf(call), "a refused join makes %s return an error on every path", fnName(caller))
		}
	}
	if nCallers == 0 {
		c.note("GroupJoin has no caller inside the module")
	}
	c.count("join_callers", nCallers)
}

// ---- D6: nothing persistent is done with an invitation before it is validated -----

// c12WriteEffect: a datastore / keystore effect that changes persistent state.
func c12WriteEffect(e Effect) bool {
	switch e.Op {
	case "Put", "Delete", "Commit", "KsPut", "KsDelete":
		return true
	}
	return false
}

// c12OpensStore: fn (or a module function it reaches) opens or creates an orbit-db store.
func c12OpensStore(w *World, fn *ssa.Function) bool {
	if v, ok := w.memo["c12opens:"+fn.String()].(bool); ok {
		return v
	}
	res := false
	for f := range w.reachableFuncs([]*ssa.Function{fn}, 6) {
		for _, ci := range callsIn(f, func(k string, cc *ssa.CallCommon) bool {
			if !cc.IsInvoke() || !strings.HasPrefix(k, "("+c12PkgOrbit) {
				return false
			}
			switch cc.Method.Name() {
			case "Open", "Create", "DetermineAddress":
				return true
			}
			return false
		}) {
			_ = ci
			res = true
		}
	}
	w.memo["c12opens:"+fn.String()] = res
	return res
}

func c12D6(c *Ctx) {
	w := c.W
	join := w.lookupMethod(pkgRoot, "MetadataStore", "GroupJoin")
	if join == nil || join.Blocks == nil {
		c.undecided("D6", "MetadataStore.GroupJoin", token.NoPos, "exported method MetadataStore.GroupJoin not found")
		return
	}
	gIdx := -1
	for i, p := range join.Params {
		if c12IsGroupStruct(p.Type()) {
			gIdx = i
		}
	}
	if gIdx < 0 {
		c.undecided("D6", fnName(join), join.Pos(), "GroupJoin has no group parameter")
		return
	}
	ei := w.effects()
	n := 0
	for _, cs := range w.callGraph().callers[join] {
		jcall, ok := cs.Instr.(*ssa.Call)
		if !ok || gIdx >= len(jcall.Common().Args) {
			continue
		}
		caller := cs.Caller
		n++
		c.analysed(caller)
		construct := fnName(caller) + "+uses-before-validation"
		g := jcall.Common().Args[gIdx]
		gPath, gHasPath := accessPath(g)
		same := func(v ssa.Value) bool {
			if stripConv(v) == stripConv(g) {
				return true
			}
			if gHasPath {
				if p, ok := accessPath(v); ok && p == gPath {
					return true
				}
			}
			return false
		}
		// the calls of the caller that receive the same group and may change persistent state
		sinks := map[*ssa.CallCommon]string{}
		bySite := map[ssa.CallInstruction]effectSite{}
		for _, es := range ei.sitesIn(caller) {
			bySite[es.Instr] = es
		}
		cg := w.callGraph()
		for _, b := range caller.Blocks {
			for _, in := range b.Instrs {
				ci, ok := in.(ssa.CallInstruction)
				if !ok || ci == ssa.CallInstruction(jcall) {
					continue
				}
				cc := ci.Common()
				takes := cc.IsInvoke() && same(cc.Value)
				for _, a := range cc.Args {
					if same(a) {
						takes = true
					}
				}
				if !takes {
					continue
				}
				var what []string
				if es, ok := bySite[ci]; ok {
					for _, e := range es.Effects {
						if c12WriteEffect(e) {
							what = append(what, e.String())
						}
					}
				}
				for _, e := range cg.callees[caller] {
					if e.Site == ci && inModule(e.Callee) && c12OpensStore(w, e.Callee) {
						what = append(what, "opens an orbit-db store")
						break
					}
				}
				if len(what) > 0 {
					name := calleeKey(cc)
					if cc.IsInvoke() {
						name = cc.Method.Name()
					} else if f := staticCallee(cc); f != nil {
						name = fnName(f)
					}
					if len(what) > 4 {
						what = append(what[:4], "...")
					}
					sinks[cc] = fmt.Sprintf("%s at %s (%s)", name, c.pos(posOf(ci)), strings.Join(what, ", "))
				}
			}
		}
		if len(sinks) == 0 {
			c.ok("D6", construct, posOf(jcall), "no call of %s other than GroupJoin hands the group to code that writes to the secret store, a keystore or opens a store", fnName(caller))
			continue
		}
		// with GroupJoin refusing, none of them may execute: neither before the validating call,
		// nor on a path without it, nor after its failure
		isJoin := func(cc *ssa.CallCommon) bool { return staticCallee(cc) == join }
		cfg := EvalConfig{
			Inline:      func(*ssa.Function) bool { return false },
			Interesting: func(_ string, cc *ssa.CallCommon) bool { return sinks[cc] != "" },
			Call: func(_ *Evaluator, _ *pstate, k string, cc *ssa.CallCommon, _ []AVal) ([]AVal, bool) {
				switch {
				case isJoin(cc):
					res := make([]AVal, cc.Signature().Results().Len())
					res[len(res)-1] = aNonNil{Tag: "join refused"}
					return res, true
				case c12ErrKey(k):
					return []AVal{aNonNil{Tag: "error"}}, true
				}
				return nil, false
			},
		}
		bad := map[string]bool{}
		trunc := ""
		for _, o := range c12Eval(w, cfg, caller) {
			if o.Kind == "truncated" {
				trunc = o.Why
			}
			for _, e := range o.Trace {
				bad[sinks[e.Site.Common()]] = true // call, go or defer: all execute
			}
		}
		var bl []string
		for k := range bad {
			bl = append(bl, k)
		}
		sort.Strings(bl)
		switch {
		case len(bl) > 0:
			c.fail("D6", construct, posOf(jcall), "the group handed to GroupJoin is given to %s on a path where GroupJoin has not accepted it (before the validating call, without it, or after it failed): a tampered invitation is refused but leaves persistent state behind (a stored group is later activated with the forged secret/type)", strings.Join(bl, "; "))
		case trunc != "":
			c.undecided("D6", construct, posOf(jcall), "abstract evaluation truncated: %s", trunc)
		default:
			c.ok("D6", construct, posOf(jcall), "%d state-changing use(s) of the joined group, all only after GroupJoin accepted it", len(sinks))
		}
	}
	if n == 0 {
		c.note("D6: GroupJoin has no caller inside the module")
	}
	c.count("join_callers_checked_for_early_effects", n)
}

// ---- D7: the group that is validated is the invitation that was received ------

func c12D7(c *Ctx) {
	w := c.W
	join := w.lookupMethod(pkgRoot, "MetadataStore", "GroupJoin")
	gt := namedType(w, pkgTypes, "GroupType")
	grp := namedType(w, pkgTypes, "Group")
	if join == nil || join.Blocks == nil || gt == nil || grp == nil {
		c.undecided("D7", "MetadataStore.GroupJoin", token.NoPos, "MetadataStore.GroupJoin, protocoltypes.Group or GroupType not found")
		return
	}
	gIdx := -1
	for i, p := range join.Params {
		if c12IsGroupStruct(p.Type()) {
			gIdx = i
		}
	}
	gst, _ := grp.Underlying().(*types.Struct)
	if gIdx < 0 || gst == nil {
		c.undecided("D7", fnName(join), join.Pos(), "GroupJoin has no group parameter")
		return
	}
	// the fields an invitation is made of (statement: identifier, secret, signature, type)
	fieldType := map[string]types.Type{}
	for i := 0; i < gst.NumFields(); i++ {
		fieldType[gst.Field(i).Name()] = gst.Field(i).Type()
	}
	checked := []string{"GroupType", "PublicKey", "Secret", "SecretSig"}
	for _, f := range checked {
		if fieldType[f] == nil {
			c.undecided("D7", fnName(join), join.Pos(), "protocoltypes.Group has no field %s", f)
			return
		}
	}
	var typeVals []int64
	typeName := map[int64]string{}
	maxV := int64(0)
	for _, k := range enumValues(gt) {
		v, _ := constant.Int64Val(k.Val())
		typeVals = append(typeVals, v)
		typeName[v] = strings.TrimPrefix(k.Name(), "GroupType_")
		if v > maxV {
			maxV = v
		}
	}
	typeVals = append(typeVals, maxV+94)
	typeName[maxV+94] = fmt.Sprintf("%d (undeclared)", maxV+94)

	mentionsGroup := func(f *ssa.Function) bool {
		sig := f.Signature
		if sig.Recv() != nil && c12IsGroupStruct(sig.Recv().Type()) {
			return true
		}
		for i := 0; i < sig.Params().Len(); i++ {
			if c12IsGroupStruct(sig.Params().At(i).Type()) {
				return true
			}
		}
		for i := 0; i < sig.Results().Len(); i++ {
			if c12IsGroupStruct(sig.Results().At(i).Type()) {
				return true
			}
		}
		return false
	}
	n := 0
	for _, cs := range w.callGraph().callers[join] {
		jcall, ok := cs.Instr.(*ssa.Call)
		if !ok {
			continue
		}
		caller := cs.Caller
		n++
		c.analysed(caller)
		construct := fnName(caller) + "+joined-group-is-the-invitation"
		// where an invitation can come in: a group parameter, or a group field of a request
		var sources []string
		for _, p := range caller.Params {
			if c12IsGroupStruct(p.Type()) {
				sources = append(sources, p.Name())
				continue
			}
			if pt, ok := p.Type().Underlying().(*types.Pointer); ok {
				if st, ok := pt.Elem().Underlying().(*types.Struct); ok {
					for i := 0; i < st.NumFields(); i++ {
						if _, isPtr := st.Field(i).Type().Underlying().(*types.Pointer); isPtr && c12IsGroupStruct(st.Field(i).Type()) {
							sources = append(sources, p.Name()+"."+st.Field(i).Name())
						}
					}
				}
			}
		}
		if len(sources) == 0 {
			c.ok("D7", construct, posOf(jcall), "%s receives no group from its caller: the group it joins is built locally", fnName(caller))
			continue
		}
		bad := map[string]bool{}
		reached, opaque := 0, 0
		trunc := ""
		for _, tv := range typeVals {
			tv := tv
			cfg := EvalConfig{
				Field: func(path string, t types.Type) (AVal, bool) {
					for _, src := range sources {
						if path == src+".GroupType" {
							return aConst{V: constant.MakeInt64(tv), T: t}, true
						}
						if strings.HasPrefix(path, src+".") && c12IsByteSlice(t) {
							return aSym{Path: path}, true
						}
					}
					return nil, false
				},
				Inline: func(f *ssa.Function) bool { return inModule(f) && f != join && mentionsGroup(f) },
				Call: func(ev *Evaluator, st *pstate, k string, cc *ssa.CallCommon, args []AVal) ([]AVal, bool) {
					switch {
					case staticCallee(cc) == join:
						res := make([]AVal, cc.Signature().Results().Len())
						if gIdx >= len(args) {
							return res, true
						}
						reached++
						p, ok := args[gIdx].(aPtr)
						if !ok {
							opaque++
							return res, true
						}
						// compare with each possible source; the group is fine if it agrees with one
						var best []string
						for si, src := range sources {
							var diffs []string
							for _, f := range checked {
								got := ev.load(st, aPtr{ID: p.ID, Sym: p.Sym, Path: p.Path + "." + f}, fieldType[f])
								if got == nil {
									continue // unknown: not a known-bad shape
								}
								if f == "GroupType" {
									if gc, ok := got.(aConst); ok && gc.V.Kind() == constant.Int {
										if gv, _ := constant.Int64Val(gc.V); gv != tv {
											name := typeName[gv]
											if name == "" {
												name = gc.V.String()
											}
											diffs = append(diffs, fmt.Sprintf("GroupType is set to %s when the invitation says %s", name, typeName[tv]))
										}
									}
									continue
								}
								if gs, ok := got.(aSym); ok {
									if gs.Path != src+"."+f {
										diffs = append(diffs, fmt.Sprintf("%s is taken from %s", f, gs.Path))
									}
								} else {
									diffs = append(diffs, fmt.Sprintf("%s is replaced by %s", f, c12AV(got)))
								}
							}
							if si == 0 || len(diffs) < len(best) {
								best = diffs
							}
						}
						for _, d := range best {
							bad[d] = true
						}
						return res, true
					case c12ErrKey(k):
						return []AVal{aNonNil{Tag: "error"}}, true
					}
					return nil, false
				},
			}
			for _, o := range c12Eval(w, cfg, caller) {
				if o.Kind == "truncated" {
					trunc = o.Why
				}
			}
		}
		var bl []string
		for k := range bad {
			bl = append(bl, k)
		}
		sort.Strings(bl)
		switch {
		case len(bl) > 0:
			c.fail("D7", construct, posOf(jcall), "the group %s hands to GroupJoin is not the invitation it received (%s): %s — the validation then no longer sees the change made to the invitation, and joining does not fail", fnName(caller), strings.Join(sources, " / "), strings.Join(bl, "; "))
		case trunc != "":
			c.undecided("D7", construct, posOf(jcall), "abstract evaluation truncated: %s", trunc)
		case reached == 0:
			c.undecided("D7", construct, posOf(jcall), "the call of GroupJoin was not reached by the abstract evaluation of %s", fnName(caller))
		default:
			if opaque > 0 {
				c.note("D7: in %s the group given to GroupJoin is opaque to the evaluator on %d of %d evaluated paths (built by library code): not compared", fnName(caller), opaque, reached)
			}
			c.ok("D7", construct, posOf(jcall), "for every group type the group validated by GroupJoin has the type, id, secret and signature of the invitation received (%s)", strings.Join(sources, " / "))
		}
	}
	if n == 0 {
		c.note("D7: GroupJoin has no caller inside the module")
	}
	c.count("join_callers_checked_for_rewritten_invitation", n)
}

// ---- D8: an identity obtained for one group is not cached outside that group -----

// c12IdentityCall: a call that returns the own member/device pair of a group: some result
// implements secretstore.OwnMemberDevice and some parameter is the group. Returns the group
// argument.
func c12IdentityCall(cc *ssa.CallCommon, omd *types.Interface) (ssa.Value, bool) {
	sig := cc.Signature()
	hasRes := false
	for i := 0; i < sig.Results().Len(); i++ {
		t := sig.Results().At(i).Type()
		if _, isIface := t.Underlying().(*types.Interface); isIface {
			if types.Identical(t.Underlying(), omd) {
				hasRes = true
			}
			continue
		}
		if types.Implements(t, omd) {
			hasRes = true
		}
	}
	if !hasRes {
		return nil, false
	}
	off := 0
	if !cc.IsInvoke() && sig.Recv() != nil {
		off = 1
	}
	for i := 0; i < sig.Params().Len(); i++ {
		if c12IsGroupStruct(sig.Params().At(i).Type()) && i+off < len(cc.Args) {
			return cc.Args[i+off], true
		}
	}
	return nil, false
}

func c12D8(c *Ctx) {
	w := c.W
	var omd *types.Interface
	if p := w.typesPkg(pkgSecret); p != nil {
		if o := p.Scope().Lookup("OwnMemberDevice"); o != nil {
			omd, _ = o.Type().Underlying().(*types.Interface)
		}
	}
	if omd == nil {
		c.undecided("D8", "secretstore.OwnMemberDevice", token.NoPos, "interface secretstore.OwnMemberDevice not found")
		return
	}
	nSites := 0
	for _, fn := range w.ModFuncs {
		type site struct {
			call  *ssa.Call
			group ssa.Value
		}
		var sites []site
		for _, b := range fn.Blocks {
			for _, in := range b.Instrs {
				if call, ok := in.(*ssa.Call); ok {
					if g, ok := c12IdentityCall(call.Common(), omd); ok {
						sites = append(sites, site{call, g})
					}
				}
			}
		}
		if len(sites) == 0 {
			continue
		}
		c.analysed(fn)
		for _, s := range sites {
			nSites++
			// values that carry the identity: the result, what its methods return, conversions of
			// those, local variable cells holding them
			der := map[ssa.Value]bool{s.call: true}
			for changed := true; changed; {
				changed = false
				mark := func(v ssa.Value) {
					if v != nil && !der[v] {
						der[v] = true
						changed = true
					}
				}
				for _, b := range fn.Blocks {
					for _, in := range b.Instrs {
						switch x := in.(type) {
						case *ssa.Store:
							if !der[x.Val] {
								continue
							}
							if al, ok := x.Addr.(*ssa.Alloc); ok {
								if _, isStruct := al.Type().Underlying().(*types.Pointer).Elem().Underlying().(*types.Struct); !isStruct {
									mark(al) // a local variable cell
								}
							}
						case *ssa.Call:
							if x == s.call {
								continue
							}
							cc := x.Common()
							if _, isB := cc.Value.(*ssa.Builtin); isB {
								continue
							}
							hit := cc.IsInvoke() && der[cc.Value]
							for _, a := range cc.Args {
								if der[a] {
									hit = true
								}
							}
							if hit {
								mark(x)
							}
						case *ssa.Extract:
							if der[x.Tuple] {
								mark(x)
							}
						case *ssa.Phi:
							for _, e := range x.Edges {
								if der[e] {
									mark(x)
								}
							}
						case *ssa.UnOp:
							if x.Op == token.MUL && der[x.X] {
								mark(x)
							}
						case *ssa.MakeInterface:
							if der[x.X] {
								mark(x)
							}
						case *ssa.ChangeInterface:
							if der[x.X] {
								mark(x)
							}
						case *ssa.ChangeType:
							if der[x.X] {
								mark(x)
							}
						case *ssa.Convert:
							if der[x.X] {
								mark(x)
							}
						case *ssa.TypeAssert:
							if der[x.X] {
								mark(x)
							}
						case *ssa.Slice:
							if der[x.X] {
								mark(x)
							}
						}
					}
				}
			}
			gPath, gOK := accessPath(s.group)
			var bad []string
			for _, b := range fn.Blocks {
				for _, in := range b.Instrs {
					st, ok := in.(*ssa.Store)
					if !ok || !der[st.Val] || isErrorType(st.Val.Type()) {
						continue
					}
					where, root := "", ""
					if ap, ok := accessPath(st.Addr); ok {
						if _, isAlloc := st.Addr.(*ssa.Alloc); isAlloc {
							continue
						}
						where = ap
						root = ap
						if i := strings.Index(ap, "."); i >= 0 {
							root = ap[:i]
						}
					} else {
						base := st.Addr
						for {
							if fa, ok := base.(*ssa.FieldAddr); ok {
								base = fa.X
							} else if ia, ok := base.(*ssa.IndexAddr); ok {
								base = ia.X
							} else {
								break
							}
						}
						gl, isGlobal := base.(*ssa.Global)
						if !isGlobal {
							continue // fresh object under construction, or memory not named
						}
						where = "package variable " + gl.Name()
					}
					if root != "" && gOK && strings.HasPrefix(gPath, root+".") {
						continue // the object that keeps the identity is the one that holds the group
					}
					bad = append(bad, fmt.Sprintf("%s at %s", where, c.pos(st.Pos())))
				}
			}
			name := "call"
			if s.call.Common().IsInvoke() {
				name = s.call.Common().Method.Name()
			} else if f := staticCallee(s.call.Common()); f != nil {
				name = f.Name()
			}
			construct := fnName(fn) + "+" + name
			gDesc := "a group that is not a field of that object"
			if gOK {
				gDesc = "group " + gPath
			}
			if len(bad) > 0 {
				sort.Strings(bad)
				c.fail("D8", construct, posOf(s.call), "the member/device identity obtained for %s is kept in %s, memory that is not bound to that group (no per-group key, the group is not held by the same object): it is then used for whichever group comes next, so a group joined by invitation is operated under another group's — possibly the account's — keys", gDesc, strings.Join(bad, "; "))
			} else {
				c.ok("D8", construct, posOf(s.call), "identity obtained for %s is used locally, put into an object under construction, a per-group map, or an object that holds that group", gDesc)
			}
		}
	}
	if nSites == 0 {
		c.undecided("D8", "GetOwnMemberDeviceForGroup", token.NoPos, "no call returning an OwnMemberDevice for a group found in the module")
	}
	c.count("own_identity_call_sites", nSites)
}

// ---- D9: the log address of a store does not depend on which store was opened before ----

func c12IsCreateDBOptions(t types.Type) bool {
	if p, ok := t.Underlying().(*types.Pointer); ok {
		t = p.Elem()
	}
	nt, ok := types.Unalias(t).(*types.Named)
	return ok && nt.Obj().Name() == "CreateDBOptions" && nt.Obj().Pkg() != nil && strings.HasPrefix(nt.Obj().Pkg().Path(), c12PkgOrbit)
}

func c12IsManifestParams(t types.Type) bool {
	nt, ok := types.Unalias(t).(*types.Named)
	return ok && nt.Obj().Name() == "ManifestParams" && nt.Obj().Pkg() != nil && strings.HasPrefix(nt.Obj().Pkg().Path(), c12PkgOrbit)
}

// c12Origins: the values v may be (through phis and conversions).
func c12Origins(v ssa.Value, seen map[ssa.Value]bool, out *[]ssa.Value) {
	if v == nil || seen[v] {
		return
	}
	seen[v] = true
	switch x := v.(type) {
	case *ssa.Phi:
		for _, e := range x.Edges {
			c12Origins(e, seen, out)
		}
	case *ssa.ChangeType:
		c12Origins(x.X, seen, out)
	case *ssa.Const:
	default:
		*out = append(*out, v)
	}
}

func c12D9(c *Ctx) {
	w := c.W
	opts := w.lookupFunc(pkgRoot, "DefaultOrbitDBOptions")
	if opts == nil || opts.Blocks == nil {
		c.undecided("D9", "DefaultOrbitDBOptions", token.NoPos, "exported function DefaultOrbitDBOptions not found")
		return
	}
	on := fnName(opts)
	oIdx := -1
	for i, p := range opts.Params {
		if _, isPtr := p.Type().Underlying().(*types.Pointer); isPtr && c12IsCreateDBOptions(p.Type()) {
			oIdx = i
		}
	}
	if oIdx < 0 || opts.Signature.Results().Len() < 1 || !c12IsCreateDBOptions(opts.Signature.Results().At(0).Type()) {
		c.undecided("D9", on, opts.Pos(), "DefaultOrbitDBOptions no longer maps a *CreateDBOptions to a *CreateDBOptions")
		return
	}
	c.analysed(opts)
	oName := opts.Params[oIdx].Name()
	var acType types.Type
	if st, ok := types.Unalias(opts.Params[oIdx].Type().Underlying().(*types.Pointer).Elem()).Underlying().(*types.Struct); ok {
		for i := 0; i < st.NumFields(); i++ {
			if st.Field(i).Name() == "AccessController" {
				acType = st.Field(i).Type()
			}
		}
	}
	if acType == nil {
		c.undecided("D9", on, opts.Pos(), "CreateDBOptions has no AccessController field")
		return
	}
	// the defaults are computed twice in a row for the same caller-owned options value (no
	// access controller chosen by the caller): the second result must carry the manifest
	// computed by the second call
	manifests := 0
	mentionsOptions := func(f *ssa.Function) bool {
		sig := f.Signature
		for i := 0; i < sig.Params().Len(); i++ {
			if c12IsCreateDBOptions(sig.Params().At(i).Type()) {
				return true
			}
		}
		return false
	}
	cfg := EvalConfig{
		MaxDepth: 6, MaxPaths: 20000, MaxVisits: 3,
		Field: func(path string, t types.Type) (AVal, bool) {
			if path == oName+".AccessController" {
				return aNil{}, true
			}
			return nil, false
		},
		Inline: func(f *ssa.Function) bool { return inModule(f) && mentionsOptions(f) },
		Call: func(_ *Evaluator, _ *pstate, k string, cc *ssa.CallCommon, _ []AVal) ([]AVal, bool) {
			sig := cc.Signature()
			if sig.Results().Len() >= 1 && c12IsManifestParams(sig.Results().At(0).Type()) {
				manifests++
				res := make([]AVal, sig.Results().Len())
				res[0] = aNonNil{Tag: fmt.Sprintf("manifest#%d", manifests)}
				if len(res) > 1 {
					res[len(res)-1] = aNil{}
				}
				return res, true
			}
			if c12ErrKey(k) {
				return []AVal{aNonNil{Tag: "error"}}, true
			}
			return nil, false
		},
	}
	ev := &Evaluator{W: w, Cfg: cfg}
	args := ev.SymbolicArgs(opts)
	st0 := ev.st0
	ev.st0 = nil
	errIdx := errResultIndex(opts.Signature)
	stale, fresh, unknown, second := 0, 0, 0, 0
	trunc := ""
	ev.call(opts, args, nil, 0, st0, func(res1 []AVal, st1 *pstate, kind, why string) {
		if kind == "truncated" {
			trunc = why
		}
		if kind != "return" || (errIdx >= 0 && errIdx < len(res1) && c12DefNonNil(res1[errIdx])) {
			return
		}
		mark := manifests
		ev.call(opts, args, nil, 0, st1, func(res2 []AVal, st2 *pstate, kind, why string) {
			if kind == "truncated" {
				trunc = why
			}
			if kind != "return" || (errIdx >= 0 && errIdx < len(res2) && c12DefNonNil(res2[errIdx])) {
				return
			}
			second++
			p, ok := res2[0].(aPtr)
			if !ok {
				unknown++
				return
			}
			got := ev.load(st2, aPtr{ID: p.ID, Sym: p.Sym, Path: p.Path + ".AccessController"}, acType)
			nn, ok := got.(aNonNil)
			n := 0
			if !ok || !strings.HasPrefix(nn.Tag, "manifest#") {
				unknown++
				return
			}
			fmt.Sscanf(nn.Tag, "manifest#%d", &n)
			if n <= mark {
				stale++
			} else {
				fresh++
			}
		})
	})
	construct := on + "+per-store-options"
	switch {
	case trunc != "":
		c.undecided("D9", construct, opts.Pos(), "abstract evaluation truncated: %s", trunc)
		return
	case second == 0 || fresh+stale == 0:
		c.undecided("D9", construct, opts.Pos(), "the access controller of the options returned by two successive calls could not be followed (%d second-call outcomes, %d opaque)", second, unknown)
		return
	case stale == 0:
		c.ok("D9", construct, opts.Pos(), "called twice with the same options value, each call returns the manifest it computed itself (%d paths): the log address is a function of the group and the store type only", fresh)
		return
	}
	// the function keeps per-store state in its caller's options: harmless only if no caller
	// hands one options value to two store opens
	type tp struct {
		fn  *ssa.Function
		idx int
	}
	tainted := map[tp]bool{{opts, oIdx}: true}
	work := []tp{{opts, oIdx}}
	cg := w.callGraph()
	type use struct {
		site ssa.CallInstruction
		org  ssa.Value
	}
	uses := map[*ssa.Function][]use{}
	for len(work) > 0 {
		cur := work[0]
		work = work[1:]
		for _, cs := range cg.callers[cur.fn] {
			cargs := cs.Instr.Common().Args
			if cs.Instr.Common().IsInvoke() || cur.idx >= len(cargs) {
				continue
			}
			var orgs []ssa.Value
			c12Origins(cargs[cur.idx], map[ssa.Value]bool{}, &orgs)
			for _, o := range orgs {
				uses[cs.Caller] = append(uses[cs.Caller], use{cs.Instr, o})
				if par, ok := o.(*ssa.Parameter); ok {
					for j, pp := range cs.Caller.Params {
						if pp == par && !tainted[tp{cs.Caller, j}] {
							tainted[tp{cs.Caller, j}] = true
							work = append(work, tp{cs.Caller, j})
						}
					}
				}
			}
		}
	}
	var sharers []*ssa.Function
	for fn := range uses {
		sharers = append(sharers, fn)
	}
	sort.Slice(sharers, func(i, j int) bool { return sharers[i].String() < sharers[j].String() })
	nShared := 0
	for _, fn := range sharers {
		us := uses[fn]
		var pairs []string
		for i := 0; i < len(us); i++ {
			for j := i + 1; j < len(us); j++ {
				if us[i].org != us[j].org || us[i].site == us[j].site {
					continue
				}
				a, b := us[i].site.(ssa.Instruction), us[j].site.(ssa.Instruction)
				switch {
				case instrReaches(a, b):
					pairs = append(pairs, fmt.Sprintf("%s then %s", c.pos(posOf(a)), c.pos(posOf(b))))
				case instrReaches(b, a):
					pairs = append(pairs, fmt.Sprintf("%s then %s", c.pos(posOf(b)), c.pos(posOf(a))))
				}
			}
		}
		if len(pairs) == 0 {
			continue
		}
		nShared++
		c.analysed(fn)
		sort.Strings(pairs)
		if len(pairs) > 3 {
			pairs = pairs[:3]
		}
		c.fail("D9", fnName(fn)+"+shared-store-options", fn.Pos(), "one options value is handed to two store opens (%s) while %s keeps the access-controller manifest it computed in the options it was given: the second store is opened with the first store's manifest, so its log address differs from the one the replication descriptor (and a restore) computes for the same group", strings.Join(pairs, "; "), on)
	}
	if nShared > 0 {
		c.fail("D9", construct, opts.Pos(), "%s fills the per-store defaults into its caller's options instead of a value of its own: called twice with the same options it returns the FIRST call's access-controller manifest (%d of %d paths), and %d caller(s) reuse one options value for two stores", on, stale, stale+fresh, nShared)
	} else {
		c.note("D9: %s returns the first call's manifest when called twice with the same options value, but no module caller hands one options value to two store opens", on)
		c.ok("D9", construct, opts.Pos(), "%s keeps state in its caller's options, but every caller passes a distinct options value per store", on)
	}
}

// ---- D2 / D3: descriptor and log address inputs ----------------------------

func c12D2D3(c *Ctx, flow *c12Flow) {
	w := c.W
	const allowedAddr = c12PublicKey | c12SignPub | c12OneWay
	filter := w.lookupFunc(pkgRoot, "FilterGroupForReplication")
	if filter == nil || filter.Blocks == nil {
		c.undecided("D2", "FilterGroupForReplication", token.NoPos, "exported function FilterGroupForReplication not found")
	} else {
		fnm := fnName(filter)
		in, n := c12GroupParams(filter)
		if n != 1 || filter.Signature.Results().Len() < 1 || !c12IsGroupStruct(filter.Signature.Results().At(0).Type()) {
			c.undecided("D2", fnm, filter.Pos(), "FilterGroupForReplication no longer maps one group to a group")
		} else {
			type visited struct {
				fn  *ssa.Function
				sum *c12Sum
			}
			var reached []visited
			seenSum := map[*c12Sum]bool{}
			flow.visit = func(fn *ssa.Function, sum *c12Sum) {
				if !seenSum[sum] {
					seenSum[sum] = true
					reached = append(reached, visited{fn, sum})
				}
			}
			sum := flow.run(filter, in, 0)
			flow.visit = nil
			var res c12L
			for _, r := range returnsOf(filter) {
				if isSuccessReturn(r) {
					res |= sum.vals[retResults(r)[0]]
				}
			}
			switch {
			case res&c12Whole != 0:
				c.fail("D2", fnm+"+result", filter.Pos(), "the descriptor returned is the input group itself (or a wrapper/serialisation of it): it carries the secret")
			case res&c12Raw != 0:
				c.fail("D2", fnm+"+result", filter.Pos(), "the descriptor returned can be computed back to the raw group secret: it carries %v", res)
			default:
				c.ok("D2", fnm+"+result", filter.Pos(), "descriptor is a fresh value carrying %v; the secret reaches it only through one-way functions", res)
			}
			// per field of the group values built by this function or by the module functions it
			// uses (a constructor helper, Copy, ...)
			type fstore struct {
				name string
				l    c12L
				pos  token.Pos
			}
			var stores []fstore
			for _, vs := range reached {
				for _, b := range vs.fn.Blocks {
					for _, in := range b.Instrs {
						st, ok := in.(*ssa.Store)
						if !ok {
							continue
						}
						fa, ok := st.Addr.(*ssa.FieldAddr)
						if !ok || !c12IsGroupStruct(fa.X.Type()) {
							continue
						}
						if _, isAlloc := fa.X.(*ssa.Alloc); !isAlloc {
							continue
						}
						stt := fa.X.Type().Underlying().(*types.Pointer).Elem().Underlying().(*types.Struct)
						stores = append(stores, fstore{stt.Field(fa.Field).Name(), vs.sum.vals[st.Val], st.Pos()})
					}
				}
			}
			sort.Slice(stores, func(i, j int) bool { return stores[i].name < stores[j].name })
			var pkL, spL c12L
			pkSeen, spSeen := false, false
			for _, s := range stores {
				l := s.l
				construct := fnm + "+" + s.name
				switch {
				case s.name == "Secret":
					c.fail("D2", construct, s.pos, "the descriptor's Secret field is written (with %v)", l)
				case l&(c12Raw|c12Whole) != 0:
					c.fail("D2", construct, s.pos, "descriptor field %s receives %v: the raw secret can be read back from it", s.name, l)
				default:
					c.ok("D2", construct, s.pos, "descriptor field %s receives %v", s.name, l)
				}
				switch s.name {
				case "PublicKey":
					pkL |= l
					pkSeen = true
				case "SignPub":
					spL |= l
					spSeen = true
				}
			}
			// D3 (descriptor side): it carries the two address inputs
			if len(stores) > 0 {
				c.check(pkSeen && pkL == c12PublicKey, "D3", fnm+"+PublicKey", filter.Pos(),
					"descriptor keeps the group id (PublicKey copied from the input)",
					fmt.Sprintf("descriptor PublicKey is %v, not the input's PublicKey: it designates another group id", pkL))
				c.check(spSeen && spL&c12OneWay != 0 && spL&^(c12OneWay|c12SignPub) == 0, "D3", fnm+"+SignPub", filter.Pos(),
					"descriptor SignPub is the signing public key (one-way image of Secret, or SignPub when already set)",
					fmt.Sprintf("descriptor SignPub is computed from %v instead of the signing public key derived from Secret: log addresses computed from the descriptor differ from the full group's (or cannot be computed)", spL))
			} else {
				c.undecided("D3", fnm+"+PublicKey", filter.Pos(), "no field-by-field construction of a group value found in %s or the module functions it uses: cannot see which address inputs the descriptor carries", fnm)
			}
		}
	}

	// D3 (address side): access-controller manifest behind DefaultOrbitDBOptions
	opts := w.lookupFunc(pkgRoot, "DefaultOrbitDBOptions")
	if opts == nil || opts.Blocks == nil {
		c.undecided("D3", "DefaultOrbitDBOptions", token.NoPos, "exported function DefaultOrbitDBOptions not found")
	} else {
		on := fnName(opts)
		in, n := c12GroupParams(opts)
		if n == 0 {
			c.undecided("D3", on, opts.Pos(), "DefaultOrbitDBOptions has no group parameter")
		} else {
			sum := flow.run(opts, in, 0)
			found := 0
			for _, b := range opts.Blocks {
				for _, ins := range b.Instrs {
					st, ok := ins.(*ssa.Store)
					if !ok {
						continue
					}
					fa, ok := st.Addr.(*ssa.FieldAddr)
					if !ok {
						continue
					}
					pt := types.Unalias(fa.X.Type().Underlying().(*types.Pointer).Elem())
					if nt, ok := pt.(*types.Named); !ok || nt.Obj().Name() != "CreateDBOptions" || nt.Obj().Pkg() == nil || !strings.HasPrefix(nt.Obj().Pkg().Path(), c12PkgOrbit) {
						continue
					}
					name := pt.Underlying().(*types.Struct).Field(fa.Field).Name()
					if name != "AccessController" && name != "AccessControllerAddress" {
						continue
					}
					l := sum.vals[st.Val]
					if l == 0 {
						continue // copied from the caller's options
					}
					found++
					c.check(l&^allowedAddr == 0, "D3", on+"+"+name, st.Pos(),
						fmt.Sprintf("access-controller manifest depends on %v of the group only", l),
						fmt.Sprintf("access-controller manifest (log address) depends on %v: fields beyond PublicKey and the signing public key are absent from (or differ in) the replication descriptor, so it designates other addresses%s", l,
							map[bool]string{true: "; the raw secret is published in the manifest", false: ""}[l&c12Raw != 0]))
				}
			}
			if found == 0 {
				c.undecided("D3", on+"+AccessController", opts.Pos(), "no access controller computed from the group is stored into the CreateDBOptions")
			}
		}
	}
	// D3: store name handed to DetermineAddress
	nSites := 0
	for _, fn := range w.ModFuncs {
		in, n := c12GroupParams(fn)
		if n == 0 {
			continue
		}
		sites := callsIn(fn, func(k string, cc *ssa.CallCommon) bool {
			return cc.IsInvoke() && cc.Method.Name() == "DetermineAddress" && strings.HasPrefix(k, "(berty.tech/go-orbit-db/")
		})
		if len(sites) == 0 {
			continue
		}
		sum := flow.run(fn, in, 0)
		for _, ci := range sites {
			args := ci.Common().Args
			if len(args) < 2 {
				continue
			}
			nSites++
			l := sum.vals[args[1]]
			c.check(l != 0 && l&^c12PublicKey == 0, "D3", fnName(fn)+"+DetermineAddress.name", posOf(ci),
				"store name depends on the group id (PublicKey) only",
				fmt.Sprintf("store name given to DetermineAddress depends on %v of the group, not on PublicKey alone: the descriptor designates another log address", l))
		}
	}
	if nSites == 0 {
		c.undecided("D3", "DetermineAddress", token.NoPos, "no DetermineAddress call in a function receiving the group")
	}
	c.count("determine_address_sites", nSites)
}

// ---- D4: identity used in a joined group ------------------------------------

func c12D4(c *Ctx) {
	w := c.W
	var entry *ssa.Function
	if p := w.typesPkg(pkgSecret); p != nil {
		if o := p.Scope().Lookup("SecretStore"); o != nil {
			if it, ok := o.Type().Underlying().(*types.Interface); ok {
				for _, t := range w.implementersOf(it) {
					if m := w.methodOf(t, "GetOwnMemberDeviceForGroup"); m != nil && m.Blocks != nil && inModule(m) && fnPkg(m).Path() == pkgSecret {
						entry = m
					}
				}
			}
		}
	}
	gt := namedType(w, pkgTypes, "GroupType")
	mm := c12EnumConst(w, pkgTypes, "GroupType_GroupTypeMultiMember")
	if entry == nil || gt == nil || mm == nil {
		c.undecided("D4", "SecretStore.GetOwnMemberDeviceForGroup", token.NoPos, "implementation of SecretStore.GetOwnMemberDeviceForGroup (or the GroupType enum) not found")
		return
	}
	c.analysed(entry)
	en := fnName(entry)
	gIdx := -1
	for i, p := range entry.Params {
		if c12IsGroupStruct(p.Type()) {
			gIdx = i
		}
	}
	if gIdx < 0 {
		c.undecided("D4", en, entry.Pos(), "no group parameter")
		return
	}
	gName := entry.Params[gIdx].Name()
	type result struct {
		trunc     string
		successes int
		opaque    int
		constKeys map[string]bool // slot -> key name, keys stored under a constant name
		groupKeys map[string]bool
	}
	run := func(typ int64) result {
		r := result{constKeys: map[string]bool{}, groupKeys: map[string]bool{}}
		cfg := EvalConfig{
			Field: func(path string, t types.Type) (AVal, bool) {
				if path == gName+".GroupType" {
					return aConst{V: constant.MakeInt64(typ), T: t}, true
				}
				if strings.HasPrefix(path, gName+".") && c12IsByteSlice(t) {
					return aSym{Path: path}, true
				}
				return nil, false
			},
			Inline: func(fn *ssa.Function) bool { return inModule(fn) },
			Call: func(ev *Evaluator, st *pstate, k string, cc *ssa.CallCommon, args []AVal) ([]AVal, bool) {
				switch {
				case c12IsKeyParser(cc) && len(args) == 1:
					return []AVal{aNonNil{Tag: "pub(" + c12AV(args[0]) + ")"}, aNil{}}, true
				case k == "(github.com/libp2p/go-libp2p/core/crypto.PubKey).Raw" || k == "(github.com/libp2p/go-libp2p/core/crypto.Key).Raw":
					if n, ok := args[0].(aNonNil); ok && strings.HasPrefix(n.Tag, "pub(") {
						return []AVal{aSym{Path: "raw(" + n.Tag + ")"}, aNil{}}, true
					}
					return nil, false
				case k == "encoding/hex.EncodeToString" && len(args) == 1:
					switch a := args[0].(type) {
					case aSym:
						return []AVal{aSym{Path: "hex(" + a.Path + ")"}}, true
					case aNil:
						return []AVal{aConst{V: constant.MakeString(""), T: types.Typ[types.String]}}, true
					}
					return nil, false
				case k == c12KeyJoin && len(args) == 2:
					elems, ok := ev.sliceElems(st, args[0])
					if !ok {
						return []AVal{aSym{Path: "*"}}, true
					}
					var parts []string
					allConst := true
					for _, e := range elems {
						if kc, ok := e.(aConst); ok && kc.V.Kind() == constant.String {
							parts = append(parts, constant.StringVal(kc.V))
						} else if sy, ok := e.(aSym); ok {
							parts = append(parts, sy.Path)
							allConst = false
						} else {
							parts = append(parts, "*")
							allConst = false
						}
					}
					sep := "_"
					if kc, ok := args[1].(aConst); ok && kc.V.Kind() == constant.String {
						sep = constant.StringVal(kc.V)
					}
					if allConst {
						return []AVal{aConst{V: constant.MakeString(strings.Join(parts, sep)), T: types.Typ[types.String]}}, true
					}
					return []AVal{aSym{Path: strings.Join(parts, sep)}}, true
				case k == c12KeyKeystoreGet && len(args) == 2:
					switch n := args[1].(type) {
					case aConst:
						if n.V.Kind() == constant.String {
							return []AVal{aNonNil{Tag: "key:const:" + constant.StringVal(n.V)}, aNil{}}, true
						}
					case aSym:
						return []AVal{aNonNil{Tag: "key:var:" + n.Path}, aNil{}}, true
					}
					return []AVal{aNonNil{Tag: "key:var:?"}, aNil{}}, true
				case c12ErrKey(k):
					return []AVal{aNonNil{Tag: "error"}}, true
				}
				return nil, false
			},
		}
		errIdx := errResultIndex(entry.Signature)
		for _, o := range c12Eval(w, cfg, entry) {
			if o.Kind == "truncated" {
				r.trunc = o.Why
				continue
			}
			if o.Kind != "return" || errIdx < 0 || errIdx >= len(o.Results) || c12DefNonNil(o.Results[errIdx]) {
				continue
			}
			r.successes++
			v := o.Results[0]
			if iv, ok := v.(aIface); ok {
				v = iv.V
			}
			p, ok := v.(aPtr)
			if !ok || o.Heap[p.ID] == nil {
				r.opaque++
				continue
			}
			seen := false
			for slot, sv := range o.Heap[p.ID].Slots {
				nn, ok := sv.(aNonNil)
				if !ok {
					continue
				}
				switch {
				case strings.HasPrefix(nn.Tag, "key:const:"):
					r.constKeys[strings.TrimPrefix(slot, p.Path)+"="+strings.TrimPrefix(nn.Tag, "key:const:")] = true
					seen = true
				case strings.HasPrefix(nn.Tag, "key:var:"):
					r.groupKeys[strings.TrimPrefix(slot, p.Path)+"="+strings.TrimPrefix(nn.Tag, "key:var:")] = true
					seen = true
				}
			}
			if !seen {
				r.opaque++
			}
		}
		return r
	}
	keys := func(m map[string]bool) string {
		var s []string
		for k := range m {
			s = append(s, k)
		}
		sort.Strings(s)
		return strings.Join(s, ", ")
	}
	mmVal, _ := constant.Int64Val(mm.Val())
	r := run(mmVal)
	construct := en + "+GroupTypeMultiMember"
	switch {
	case r.trunc != "":
		c.undecided("D4", construct, entry.Pos(), "abstract evaluation truncated: %s", r.trunc)
	case len(r.constKeys) > 0:
		c.fail("D4", construct, entry.Pos(), "in a multi-member group the account acts under keystore key(s) stored under a constant, account-wide name (%s) instead of keys derived for that group", keys(r.constKeys))
	case r.successes == 0:
		c.undecided("D4", construct, entry.Pos(), "no successful outcome for a multi-member group: the key selection was not found")
	case r.opaque > 0 || len(r.groupKeys) == 0:
		c.undecided("D4", construct, entry.Pos(), "the keys of the member/device pair returned for a multi-member group could not be traced to keystore entries (%d opaque outcomes)", r.opaque)
	default:
		per := 0
		for k := range r.groupKeys {
			if strings.Contains(k, gName+".PublicKey") {
				per++
			}
		}
		if per < len(r.groupKeys) {
			c.note("D4: %d of the keystore names used for a multi-member group are not constant but could not be shown to contain the group id: %s", len(r.groupKeys)-per, keys(r.groupKeys))
		}
		c.ok("D4", construct, entry.Pos(), "multi-member group: keys are keystore entries whose names are not constant (%d of %d shown to embed the group id): %s", per, len(r.groupKeys), keys(r.groupKeys))
	}
	// reference: the other declared types, for the evidence
	for _, k := range enumValues(gt) {
		v, _ := constant.Int64Val(k.Val())
		if v == mmVal {
			continue
		}
		rr := run(v)
		if len(rr.constKeys) > 0 || len(rr.groupKeys) > 0 {
			c.note("D4 reference: %s -> const-named keys {%s}, group-named keys {%s}", k.Name(), keys(rr.constKeys), keys(rr.groupKeys))
		}
	}
	c.count("key_selection_scenarios", len(enumValues(gt)))
}

// ---- D5: box keys derive from the raw secret ---------------------------------

func c12D5(c *Ctx, flow *c12Flow) {
	w := c.W
	n := 0
	// the sealed parts of the two group-level envelopes (data format, T3)
	boxRole := func(v ssa.Value) string {
		lp, ok := accessPathLocal(v)
		if !ok {
			return ""
		}
		switch {
		case lp.Path == ".Event" && isNamed(lp.Base.Type(), pkgTypes, "GroupEnvelope"):
			return "metadata event (GroupEnvelope.Event)"
		case lp.Path == ".MessageHeaders" && isNamed(lp.Base.Type(), pkgTypes, "MessageEnvelope"):
			return "message headers (MessageEnvelope.MessageHeaders)"
		}
		return ""
	}
	for _, fn := range w.ModFuncs {
		sites := callsIn(fn, keyIs(keySBOpen))
		if len(sites) == 0 {
			continue
		}
		in, np := c12GroupParams(fn)
		var sum *c12Sum
		if np > 0 {
			sum = flow.run(fn, in, 0)
		}
		for _, ci := range sites {
			args := ci.Common().Args
			if len(args) != 4 {
				continue
			}
			role := boxRole(args[1])
			construct := fnName(fn) + "+secretbox.Open.key"
			if sum == nil {
				if role != "" {
					n++
					c.undecided("D5", construct, posOf(ci), "%s is opened in a function that does not receive the group: the origin of the key is not followed", role)
				}
				continue
			}
			l := sum.vals[args[3]]
			if role == "" {
				if l == 0 {
					continue // a box that is not keyed on the group at all (message payload: chain key)
				}
				role = "a box keyed on the group"
			}
			n++
			c.check(l&(c12Raw|c12Whole) != 0, "D5", construct, posOf(ci),
				fmt.Sprintf("%s: box key is computed from the raw group secret (%v), which the replication descriptor lacks", role, l),
				fmt.Sprintf("%s: box key is computed from %v, not from the raw group secret: everything it depends on is present in (or derivable from) the replication descriptor, which can then open this envelope", role, l))
		}
	}
	c.count("group_box_open_sites", n)
}
