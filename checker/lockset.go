package main

// A4: must-hold lockset. Lock identity is a class: named owner type + field path
// ("secretStore.messageMutex", "GroupStatus.notify.L"), mode W or R. Exact for the singleton
// locks it is used on (one store / one manager per analysed object); documented as such.

import (
	"go/token"
	"go/types"
	"sort"
	"strings"

	"golang.org/x/tools/go/ssa"
)

type lockOp struct {
	Class    string
	Mode     byte // 'W' or 'R'
	Acquire  bool
	Deferred bool
	Instr    ssa.CallInstruction
}

// lockClass computes the class of the lock value recv (the receiver of Lock/Unlock).
func lockClass(recv ssa.Value) string {
	path := ""
	v := recv
	for i := 0; i < 12; i++ {
		switch x := v.(type) {
		case *ssa.FieldAddr:
			st := x.X.Type().Underlying().(*types.Pointer).Elem().Underlying().(*types.Struct)
			path = "." + st.Field(x.Field).Name() + path
			v = x.X
			continue
		case *ssa.Field:
			st := x.X.Type().Underlying().(*types.Struct)
			path = "." + st.Field(x.Field).Name() + path
			v = x.X
			continue
		case *ssa.UnOp:
			if x.Op == token.MUL {
				v = x.X
				continue
			}
		case *ssa.MakeInterface:
			v = x.X
			continue
		case *ssa.ChangeInterface:
			v = x.X
			continue
		case *ssa.Phi:
			// all edges must agree on a class
			cls := ""
			for _, e := range x.Edges {
				c := lockClass(e)
				if cls == "" {
					cls = c
				} else if c != cls {
					return ""
				}
			}
			if cls == "" {
				return ""
			}
			return cls + path
		}
		break
	}
	t := v.Type()
	for {
		// captured variables are **T: strip every pointer level
		p, ok := t.Underlying().(*types.Pointer)
		if !ok {
			break
		}
		t = p.Elem()
	}
	if n, ok := t.(*types.Named); ok {
		name := n.Obj().Name()
		if n.TypeArgs() != nil && n.TypeArgs().Len() > 0 {
			name = n.Origin().Obj().Name()
		}
		return name + path
	}
	if g, ok := v.(*ssa.Global); ok {
		return "global:" + g.Name() + path
	}
	if al, ok := v.(*ssa.Alloc); ok {
		return "local:" + al.Comment + path
	}
	return ""
}

func lockOpOf(ci ssa.CallInstruction) (lockOp, bool) {
	cc := ci.Common()
	key := calleeKey(cc)
	var recv ssa.Value
	name := ""
	switch {
	case strings.HasPrefix(key, "(*sync.RWMutex).") || strings.HasPrefix(key, "(*sync.Mutex)."):
		name = key[strings.LastIndex(key, ".")+1:]
		if len(cc.Args) > 0 {
			recv = cc.Args[0]
		}
	case strings.HasPrefix(key, "(sync.Locker)."):
		name = cc.Method.Name()
		recv = cc.Value
	default:
		return lockOp{}, false
	}
	op := lockOp{Instr: ci}
	switch name {
	case "Lock":
		op.Mode, op.Acquire = 'W', true
	case "Unlock":
		op.Mode, op.Acquire = 'W', false
	case "RLock":
		op.Mode, op.Acquire = 'R', true
	case "RUnlock":
		op.Mode, op.Acquire = 'R', false
	default:
		return lockOp{}, false
	}
	_, op.Deferred = ci.(*ssa.Defer)
	op.Class = lockClass(recv)
	if op.Class == "" {
		op.Class = "?"
	}
	return op, true
}

type lockSet map[string]bool // "class/W"

func (l lockSet) clone() lockSet {
	n := lockSet{}
	for k := range l {
		n[k] = true
	}
	return n
}
func (l lockSet) list() []string {
	var out []string
	for k := range l {
		out = append(out, k)
	}
	sort.Strings(out)
	return out
}
func (l lockSet) holds(class string, mode byte) bool {
	if l[class+"/W"] {
		return true
	}
	return mode == 'R' && l[class+"/R"]
}

func intersect(a, b lockSet) lockSet {
	n := lockSet{}
	for k := range a {
		if b[k] {
			n[k] = true
		}
	}
	return n
}

// localLocksets computes, for every instruction of fn, the locks that must be held just
// before it, considering only acquisitions inside fn. Deferred unlocks keep the lock to exit.
func localLocksets(fn *ssa.Function) map[ssa.Instruction]lockSet {
	in := map[*ssa.BasicBlock]lockSet{}
	out := map[*ssa.BasicBlock]lockSet{}
	res := map[ssa.Instruction]lockSet{}
	if len(fn.Blocks) == 0 {
		return res
	}
	transfer := func(b *ssa.BasicBlock, s lockSet, record bool) lockSet {
		cur := s.clone()
		for _, instr := range b.Instrs {
			if record {
				res[instr] = cur.clone()
			}
			if ci, ok := instr.(ssa.CallInstruction); ok {
				if op, ok := lockOpOf(ci); ok && !op.Deferred {
					k := op.Class + "/" + string(op.Mode)
					if op.Acquire {
						cur[k] = true
					} else {
						delete(cur, k)
					}
				}
			}
		}
		return cur
	}
	// iterate to fixpoint (optimistic: unknown = not yet computed)
	in[fn.Blocks[0]] = lockSet{}
	changed := true
	for iter := 0; changed && iter < 50; iter++ {
		changed = false
		for _, b := range fn.Blocks {
			var s lockSet
			if b == fn.Blocks[0] {
				s = lockSet{}
			} else {
				first := true
				for _, p := range b.Preds {
					po, ok := out[p]
					if !ok {
						continue
					}
					if first {
						s = po.clone()
						first = false
					} else {
						s = intersect(s, po)
					}
				}
				if first {
					continue // no computed pred yet
				}
			}
			o := transfer(b, s, false)
			if prev, ok := out[b]; !ok || !sameSet(prev, o) {
				out[b] = o
				changed = true
			}
			in[b] = s
		}
	}
	for _, b := range fn.Blocks {
		if s, ok := in[b]; ok {
			transfer(b, s, true)
		}
	}
	return res
}

func sameSet(a, b lockSet) bool {
	if len(a) != len(b) {
		return false
	}
	for k := range a {
		if !b[k] {
			return false
		}
	}
	return true
}

// lockInfo caches local locksets and locks held at entry for module functions.
type lockInfo struct {
	w     *World
	local map[*ssa.Function]map[ssa.Instruction]lockSet
	entry map[*ssa.Function]lockSet
}

func (w *World) locks() *lockInfo {
	if li, ok := w.memo["lockinfo"].(*lockInfo); ok {
		return li
	}
	li := &lockInfo{w: w, local: map[*ssa.Function]map[ssa.Instruction]lockSet{}, entry: map[*ssa.Function]lockSet{}}
	w.memo["lockinfo"] = li
	li.computeEntries()
	return li
}

func (li *lockInfo) localOf(fn *ssa.Function) map[ssa.Instruction]lockSet {
	if m, ok := li.local[fn]; ok {
		return m
	}
	m := localLocksets(fn)
	li.local[fn] = m
	return m
}

// computeEntries: locks held at entry of fn on every module call path. Functions with no
// module caller, exported functions/methods, interface implementations, closures started
// with go, and functions whose address is taken start with the empty set.
func (li *lockInfo) computeEntries() {
	cg := li.w.callGraph()
	// A closure (or function value) handed to a module helper that calls its func parameter
	// - the withLock(func()) idiom - is entered with the locks the helper holds at that call.
	// Such a function has no static call site; it gets one pseudo site per helper call, provided
	// the function value is used for nothing else.
	type pseudoSite struct {
		helper *ssa.Function
		at     ssa.Instruction // the call of the func parameter inside the helper
	}
	pseudo := map[*ssa.Function][]pseudoSite{}
	for _, h := range li.w.ModFuncs {
		if h.Blocks == nil {
			continue
		}
		for pi, prm := range h.Params {
			if _, isSig := prm.Type().Underlying().(*types.Signature); !isSig || prm.Referrers() == nil {
				continue
			}
			var calls []ssa.Instruction
			onlyCalled := true
			for _, r := range *prm.Referrers() {
				if c, isCall := r.(*ssa.Call); isCall && c.Common().Value == ssa.Value(prm) {
					calls = append(calls, c)
					continue
				}
				if _, isDbg := r.(*ssa.DebugRef); isDbg {
					continue
				}
				onlyCalled = false
			}
			if !onlyCalled || len(calls) == 0 {
				continue
			}
			for _, cs := range cg.callers[h] {
				call, isCall := cs.Instr.(*ssa.Call)
				if !isCall || pi >= len(call.Common().Args) {
					continue
				}
				var target *ssa.Function
				var holder ssa.Value
				switch a := call.Common().Args[pi].(type) {
				case *ssa.MakeClosure:
					target, _ = a.Fn.(*ssa.Function)
					holder = a
				case *ssa.Function:
					target = a
				}
				if target == nil || target.Blocks == nil {
					continue
				}
				if holder != nil && holder.Referrers() != nil {
					other := false
					for _, r := range *holder.Referrers() {
						if r != cs.Instr {
							if _, isDbg := r.(*ssa.DebugRef); !isDbg {
								other = true
							}
						}
					}
					if other {
						continue
					}
				}
				for _, c := range calls {
					pseudo[target] = append(pseudo[target], pseudoSite{h, c})
				}
			}
		}
	}
	isRoot := func(fn *ssa.Function) bool {
		if len(cg.callers[fn]) == 0 && len(pseudo[fn]) == 0 {
			return true
		}
		if obj := fn.Object(); obj != nil && obj.Exported() {
			return true
		}
		return false
	}
	// universe = all lock keys seen
	top := lockSet{"*": true}
	for _, fn := range li.w.ModFuncs {
		if isRoot(fn) {
			li.entry[fn] = lockSet{}
		} else {
			li.entry[fn] = top
		}
	}
	changed := true
	for iter := 0; changed && iter < 30; iter++ {
		changed = false
		for _, fn := range li.w.ModFuncs {
			if isRoot(fn) {
				continue
			}
			var acc lockSet
			first := true
			for _, cs := range cg.callers[fn] {
				var at lockSet
				if _, isGo := cs.Instr.(*ssa.Go); isGo {
					at = lockSet{}
				} else if d, isDefer := cs.Instr.(*ssa.Defer); isDefer {
					_ = d
					at = lockSet{}
				} else {
					ce := li.entry[cs.Caller]
					if ce["*"] {
						continue // caller not yet resolved: optimistic
					}
					at = li.localOf(cs.Caller)[cs.Instr].clone()
					for k := range ce {
						at[k] = true
					}
				}
				if first {
					acc, first = at, false
				} else {
					acc = intersect(acc, at)
				}
			}
			for _, ps := range pseudo[fn] {
				he := li.entry[ps.helper]
				if he["*"] {
					continue
				}
				at := li.localOf(ps.helper)[ps.at].clone()
				for k := range he {
					at[k] = true
				}
				if first {
					acc, first = at, false
				} else {
					acc = intersect(acc, at)
				}
			}
			if first {
				continue
			}
			if prev := li.entry[fn]; prev["*"] || !sameSet(prev, acc) {
				li.entry[fn] = acc
				changed = true
			}
		}
	}
	for fn, e := range li.entry {
		if e["*"] {
			li.entry[fn] = lockSet{}
		}
	}
}

// heldAt returns the locks that must be held just before instr (entry locks + local).
func (li *lockInfo) heldAt(instr ssa.Instruction) lockSet {
	fn := instr.Parent()
	s := li.localOf(fn)[instr].clone()
	for k := range li.entry[fn] {
		s[k] = true
	}
	return s
}
