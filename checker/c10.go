package main

import (
	"fmt"
	"go/token"
	"go/types"
	"strings"

	"golang.org/x/tools/go/ssa"
)

// namespaces and key names of the secret store (T3: on-disk format constants, matched by value)
const (
	nsChainKey    = "chainKeyForDeviceOnGroup"
	nsPrecomputed = "precomputedMessageKeys"
	nsByCID       = "messageKeyForCIDs"
	nsHint        = "outOfStoreGroupHint"
	nsHintCtr     = "outOfStoreGroupHintCounters"
	nsGroup       = "groupByPublicKey"
)

func init() {
	register(&PropertyDef{
		ID:          "C10",
		Title:       "A crash at any write leaves the secret store consistent and usable",
		Explanation: "Decides write-order and persistence constraints from the SSA of pkg/secretstore, with datastore/keystore effects labelled by the namespace constant that reaches the key argument: (D1) on the open path the key is stored under the message CID before the precomputed key is deleted, and the next precomputed key is written before the chain key is advanced, in every function where two such writes are distinct sites; (D2) every success return of SealEnvelope is dominated by an accepted Put of the chain key (the only tolerated early return is the monotone counter guard), and the precomputed key is written before the chain key; (D3) registration writes/commits the precomputed window before the chain key; (D4) get-or-generate named keys: the generated key is returned only after keystore.Put of that same value succeeded, and the lookup precedes the generation; (D5) errors of the mutating operations on these namespaces are tested and reject. Each constraint covers every crash point between the two writes. Not decided: atomicity of datastore batches, partial non-batched window writes, exhaustive crash-point x workload exploration.",
		Trusted:     []string{"go/packages+go/ssa (x/tools v0.29.0)", "go-datastore Put/Delete/Commit are durable when they return nil", "ipfs keystore Put/Get semantics"},
		Assumptions: []string{"one secret store instance per datastore; effects identified by the namespace constants of pkg/secretstore"},
		Floors:      map[string]int{"D1": 2, "D2": 2, "D3": 1, "D4": 2, "D5": 6, "D6": 6},
		Run:         runC10,
	})
}

// secretStoreImpl returns the module type implementing secretstore.SecretStore.
func secretStoreImpl(w *World) types.Type {
	iface := namedType(w, pkgSecret, "SecretStore")
	if iface == nil {
		return nil
	}
	it, ok := iface.Underlying().(*types.Interface)
	if !ok {
		return nil
	}
	for _, t := range w.implementersOf(it) {
		if n := typeNamed(t); n != nil && n.Obj().Pkg().Path() == pkgSecret {
			return t
		}
	}
	return nil
}

func typeNamed(t types.Type) *types.Named {
	if p, ok := t.(*types.Pointer); ok {
		t = p.Elem()
	}
	n, _ := t.(*types.Named)
	return n
}

func secretStoreMethod(w *World, name string) *ssa.Function {
	t := secretStoreImpl(w)
	if t == nil {
		return nil
	}
	return w.methodOf(t, name)
}

// counterGuard returns a predicate: r is dominated by the side of a comparison between the
// Counter of a candidate chain key and the Counter of the stored chain key (a value obtained
// from a Get on the chain-key namespace) on which candidate <= stored — the monotone "never
// move backwards" guard, the only early success return tolerated in an updater.
func counterGuard(w *World) ExemptReturn {
	return func(r *ssa.Return) bool {
		fn := r.Parent()
		for _, b := range fn.Blocks {
			if len(b.Instrs) == 0 {
				continue
			}
			ifi, ok := b.Instrs[len(b.Instrs)-1].(*ssa.If)
			if !ok {
				continue
			}
			side, ok := staleSide(w, ifi.Cond)
			if !ok {
				continue
			}
			if edgeDominates(edge{b, b.Succs[side]}, r.Block()) {
				return true
			}
		}
		return false
	}
}

// staleSide analyses cond as a comparison of two chain-key counters, one of them read from the
// stored chain key. It returns the successor index (0 = true edge, 1 = false edge) taken when
// candidate <= stored (or <).
func staleSide(w *World, cond ssa.Value) (int, bool) {
	bo, ok := cond.(*ssa.BinOp)
	if !ok || !isChainCounterLoad(bo.X) || !isChainCounterLoad(bo.Y) {
		return 0, false
	}
	xs, ys := isStoredChainKey(w, counterBase(bo.X)), isStoredChainKey(w, counterBase(bo.Y))
	if xs == ys {
		return 0, false // cannot tell which is the stored one
	}
	// normalise to: candidate OP stored
	op := bo.Op
	if xs { // stored OP candidate  ==> candidate (flipped OP) stored
		switch op {
		case token.LSS:
			op = token.GTR
		case token.LEQ:
			op = token.GEQ
		case token.GTR:
			op = token.LSS
		case token.GEQ:
			op = token.LEQ
		}
	}
	switch op {
	case token.LSS, token.LEQ:
		return 0, true
	case token.GTR, token.GEQ:
		return 1, true
	}
	return 0, false
}

func counterBase(v ssa.Value) ssa.Value {
	switch x := v.(type) {
	case *ssa.UnOp:
		if fa, ok := x.X.(*ssa.FieldAddr); ok {
			return fa.X
		}
	case *ssa.Call:
		if len(x.Common().Args) == 1 {
			return x.Common().Args[0]
		}
	}
	return nil
}

// isStoredChainKey: v is (a result of) a call whose effects include a Get on the chain-key namespace.
func isStoredChainKey(w *World, v ssa.Value) bool {
	if v == nil {
		return false
	}
	var call *ssa.Call
	switch x := v.(type) {
	case *ssa.Extract:
		call, _ = x.Tuple.(*ssa.Call)
	case *ssa.Call:
		call = x
	}
	if call == nil {
		return false
	}
	ei := w.effects()
	for _, s := range ei.sitesIn(call.Parent()) {
		if s.Instr == ssa.CallInstruction(call) && s.has(eff("Get", nsChainKey)) {
			return true
		}
	}
	return false
}

// isChainCounterLoad: v reads the Counter field of a protocoltypes.DeviceChainKey.
func isChainCounterLoad(v ssa.Value) bool {
	switch x := v.(type) {
	case *ssa.UnOp:
		if x.Op != token.MUL {
			return false
		}
		fa, ok := x.X.(*ssa.FieldAddr)
		if !ok {
			return false
		}
		pt, ok := fa.X.Type().Underlying().(*types.Pointer)
		if !ok || !isNamed(pt.Elem(), pkgTypes, "DeviceChainKey") {
			return false
		}
		return pt.Elem().Underlying().(*types.Struct).Field(fa.Field).Name() == "Counter"
	case *ssa.Call:
		if f := staticCallee(x.Common()); f != nil && f.Name() == "GetCounter" && len(x.Common().Args) == 1 {
			return isNamed(x.Common().Args[0].Type(), pkgTypes, "DeviceChainKey")
		}
	}
	return false
}

func sortedFuncs(m map[*ssa.Function]int) []*ssa.Function {
	var out []*ssa.Function
	for f := range m {
		out = append(out, f)
	}
	for i := 0; i < len(out); i++ {
		for j := i + 1; j < len(out); j++ {
			if out[j].String() < out[i].String() {
				out[i], out[j] = out[j], out[i]
			}
		}
	}
	return out
}

// orderRule checks e1 before e2 in every function of scope where both have distinct sites.
func orderRule(c *Ctx, rule, label string, scope map[*ssa.Function]int, e1, e2 EffPred, n1name, n2name string) int {
	ei := c.W.effects()
	instances := 0
	for _, fn := range sortedFuncs(scope) {
		bad, n1, n2 := ei.orderViolations(fn, e1, e2)
		if n1 == 0 || n2 == 0 {
			continue
		}
		// need at least one pair of distinct sites
		distinct := false
		for _, a := range ei.sitesWith(fn, e1) {
			for _, b := range ei.sitesWith(fn, e2) {
				if a.Instr != b.Instr {
					distinct = true
				}
			}
		}
		if !distinct {
			continue
		}
		instances++
		c.analysed(fn)
		construct := fnName(fn) + "+" + label
		if len(bad) > 0 {
			c.fail(rule, construct, posOf(bad[0][0].Instr), "%s at %s can be followed by %s at %s: a crash between them breaks the store", n2name, c.pos(posOf(bad[0][0].Instr)), n1name, c.pos(posOf(bad[0][1].Instr)))
		} else {
			c.ok(rule, construct, fn.Pos(), "%s always precedes %s (%d/%d sites)", n1name, n2name, n1, n2)
		}
	}
	return instances
}

func runC10(c *Ctx) {
	w := c.W
	ei := w.effects()
	open := secretStoreMethod(w, "OpenEnvelopePayload")
	seal := secretStoreMethod(w, "SealEnvelope")
	reg := secretStoreMethod(w, "RegisterChainKey")
	if open == nil || seal == nil || reg == nil {
		c.undecided("D1", "SecretStore", token.NoPos, "SecretStore implementation / entry points not found")
		return
	}
	putByCID := eff("Put", nsByCID)
	delPre := eff("Delete", nsPrecomputed)
	putPre := eff("Put|Commit", nsPrecomputed)
	putPreOrCommit := func(e Effect) bool { return putPre(e) || e.Op == "Commit" }
	putChain := eff("Put", nsChainKey)

	// ---- D1 open path
	openScope := w.reachableFuncs([]*ssa.Function{open}, 6)
	n := orderRule(c, "D1", "byCID<delete", openScope, putByCID, delPre, "Put[messageKeyForCIDs]", "Delete[precomputedMessageKeys]")
	if n == 0 {
		c.fail("D1", "open-path+byCID<delete", open.Pos(), "no function on the open path both saves the key by CID and deletes the precomputed key: one of the two writes is missing")
	}
	n = orderRule(c, "D1", "next<chainkey", openScope, putPreOrCommit, putChain, "Put[precomputedMessageKeys]", "Put[chainKeyForDeviceOnGroup]")
	if n == 0 {
		c.fail("D1", "open-path+next<chainkey", open.Pos(), "no function on the open path writes both the next precomputed key and the chain key")
	}
	// the opened message must be re-openable: the open entry point must (be able to) reach Put[byCID]
	if len(ei.sitesWith(open, putByCID)) == 0 {
		c.fail("D1", fnName(open)+"+saves-key", open.Pos(), "opening a message never stores its key by CID")
	}

	// ---- D2 seal path
	okSeal, by := ei.mustPerform(seal, putChain, counterGuard(w), 0)
	c.analysed(seal)
	c.check(okSeal, "D2", fnName(seal)+"+persist-before-return", seal.Pos(),
		"every success return is dominated by an accepted Put of the chain key", "an envelope can be returned before the chain key it used is durable (returns at "+describeReturns(c, by)+")")
	sealScope := w.reachableFuncs([]*ssa.Function{seal}, 6)
	n = orderRule(c, "D2", "next<chainkey", sealScope, putPreOrCommit, putChain, "Put[precomputedMessageKeys]", "Put[chainKeyForDeviceOnGroup]")
	if n == 0 {
		c.fail("D2", "seal-path+next<chainkey", seal.Pos(), "no function on the seal path writes both the precomputed key and the chain key")
	}

	// ---- D3 registration
	regScope := w.reachableFuncs([]*ssa.Function{reg}, 6)
	n = orderRule(c, "D3", "window<chainkey", regScope, putPreOrCommit, putChain, "Put/Commit[precomputedMessageKeys]", "Put[chainKeyForDeviceOnGroup]")
	if n == 0 {
		c.fail("D3", "register-path+window<chainkey", reg.Pos(), "no function on the registration path writes both the precomputed window and the chain key")
	}

	// ---- D6 a registration interrupted after the window commit and retried after restart
	// recomputes the same state: the window function derives every key of the window even when
	// the keys are already cached, so the chain key it returns is fully ratcheted
	checkWindowFunction(c, "D6", regScope, reg)

	// ---- D4 named keys: get-or-generate / get-or-compute
	ksGet := func(e Effect) bool { return e.Op == "KsGet" }
	ksPut := func(e Effect) bool { return e.Op == "KsPut" }
	for _, fn := range w.ModFuncs {
		if fnPkg(fn).Path() != pkgSecret {
			continue
		}
		var gets, puts []effectSite
		for _, s := range ei.sitesIn(fn) {
			if !s.Direct {
				continue
			}
			if s.has(ksGet) {
				gets = append(gets, s)
			}
			if s.has(ksPut) {
				puts = append(puts, s)
			}
		}
		if len(gets) == 0 || len(puts) == 0 {
			continue
		}
		c.analysed(fn)
		construct := fnName(fn)
		// (a) lookup first: no Put can be followed by the Get
		bad, _, _ := ei.orderViolations(fn, ksGet, ksPut)
		c.check(len(bad) == 0, "D4", construct+"+get<put", fn.Pos(), "keystore lookup precedes generation and store", "the key is stored before the keystore lookup")
		// (b) every success return of a value that is not the looked-up key is dominated by an
		// accepted Put of that same value, under the same name as the lookup
		for _, r := range returnsOf(fn) {
			if !isSuccessReturn(r) || len(retResults(r)) == 0 {
				continue
			}
			rv := retResults(r)[0]
			fromGet := false
			for _, g := range gets {
				if v := resultValue(g.Instr, 0); v != nil && stripConv(rv) == stripConv(v) {
					// must be on the accepting side of the get
					if ev := errVerdict(g.Instr); ev != nil {
						for _, e := range edgesOfVerdict(ev).Accept {
							if edgeDominates(e, r.Block()) {
								fromGet = true
							}
						}
					}
				}
			}
			if fromGet {
				c.ok("D4", construct+"+return-looked-up", posOf(r), "returns the stored key on a hit")
				continue
			}
			okPut := false
			why := "the returned key was never given to keystore.Put"
			for _, p := range puts {
				args := p.Instr.Common().Args
				if len(args) < 2 || stripConv(args[1]) != stripConv(rv) {
					continue
				}
				ev := errVerdict(p.Instr)
				if ev == nil {
					why = "keystore.Put error discarded"
					continue
				}
				dom := false
				for _, e := range edgesOfVerdict(ev).Accept {
					if edgeDominates(e, r.Block()) {
						dom = true
					}
				}
				if !dom {
					why = "the key is returned on a path where keystore.Put did not succeed"
					continue
				}
				// same name as looked up
				sameName := false
				for _, g := range gets {
					if ga := g.Instr.Common().Args; len(ga) >= 1 && ga[0] == args[0] {
						sameName = true
					}
				}
				if !sameName {
					why = "the key is stored under a different name than the one looked up"
					continue
				}
				okPut = true
			}
			c.check(okPut, "D4", construct+"+return-generated", posOf(r), "a generated key is returned only after it was stored under the looked-up name", why)
		}
	}

	// ---- D5 errors of mutating effects propagate
	interesting := func(e Effect) bool {
		switch e.Op {
		case "Put", "Delete":
			return eff(e.Op, nsChainKey)(e) || eff(e.Op, nsPrecomputed)(e) || eff(e.Op, nsByCID)(e)
		case "Commit", "KsPut":
			return true
		}
		return false
	}
	for _, fn := range w.ModFuncs {
		if fnPkg(fn).Path() != pkgSecret {
			continue
		}
		for _, s := range ei.sitesIn(fn) {
			if !s.Direct || !s.has(interesting) {
				continue
			}
			c.analysed(fn)
			construct := fmt.Sprintf("%s+%s", fnName(fn), s.Effects[0])
			if _, isCall := s.Instr.(*ssa.Call); !isCall {
				c.fail("D5", construct, posOf(s.Instr), "mutating store operation started with go/defer: its error cannot be observed")
				continue
			}
			r := rejectOnFailure(fn, errVerdict(s.Instr))
			c.check(r.OK, "D5", construct, posOf(s.Instr), "write error is tested and rejects", "write error not propagated: "+r.Why)
		}
	}
	_ = strings.Join
}
