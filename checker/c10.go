package main

import (
	"fmt"
	"go/token"
	"go/types"
	"strings"

	"golang.org/x/tools/go/ssa"
)

// namespaces and key names of the secret store (T3: on-disk format constants, matched by value)
const (
	nsChainKey    = "chainKeyForDeviceOnGroup"
	nsPrecomputed = "precomputedMessageKeys"
	nsByCID       = "messageKeyForCIDs"
	nsHint        = "outOfStoreGroupHint"
	nsHintCtr     = "outOfStoreGroupHintCounters"
	nsGroup       = "groupByPublicKey"
)

func init() {
	register(&PropertyDef{
		ID:          "C10",
		Title:       "A crash at any write leaves the secret store consistent and usable",
		Explanation: "Decides write-order and persistence constraints from the SSA of pkg/secretstore, with datastore/keystore effects labelled by the namespace constant that reaches the key argument: (D1) on the open path the key is stored under the message CID before the precomputed key is deleted, and the next precomputed key is written before the chain key is advanced, in every function where two such writes are distinct sites; (D2) every success return of SealEnvelope is dominated by an accepted Put of the chain key (the only tolerated early return is the monotone counter guard), and the precomputed key is written before the chain key; (D3) registration writes/commits the precomputed window before the chain key; (D4) get-or-generate named keys (the lookup being keystore.Get or a read-only module helper around it): the generated key is returned only after keystore.Put of that same value succeeded under the looked-up name, and the lookup precedes the generation; (D5) errors of the mutating operations on these namespaces are tested and reject; (D7, same analysis as C09.D7, for the keystore) a named key is generated only when the keystore lookup reported exactly keystore.ErrNoSuchKey (tested on the lookup's error directly, or inside a read-only module helper that hands the result on as a (found=false, err=nil) outcome: then the creator must have tested the helper's error nil and found false, and every such return of the helper must be on the sentinel side), and every module keystore implementation returns that sentinel only for the datastore's not-found outcome (or after a successful read): a read fault never makes the device mint new account/device keys over the stored ones; (D8, who may wrap) every constructor of a datastore (or keystore) value called on the construction path of the secret store - the functions reachable from the exported constructors, plus the argument expressions of their module callers - is one of the known write-through ones (keytransform.Wrap, namespace.Wrap, sync.MutexWrap, the NewMapDatastore leaf); module types on that path that are datastores/keystores themselves take Put/Delete from the embedded datastore interface or perform the write on the wrapped store before returning success; anything else (autobatch.NewAutoBatching, delayed, a home-made buffer) is reported, so keys are never handed out while they exist only in a write buffer; (D9) every success return that follows a successful Batch() passes a Commit that succeeded. Each constraint covers every crash point between the two writes. Steps held in a local table of closures run by a forward loop over the whole table (for range, or for i := 0; i < len(t); i++) count as the sequence of the table's elements (element k before element k+1); a table run from the last index down to 0 counts as the reversed sequence; any other start, stride or bound counts as unordered. Not decided: atomicity of datastore batches, partial non-batched window writes, exhaustive crash-point x workload exploration.",
		Trusted:     []string{"go/packages+go/ssa (x/tools v0.29.0)", "go-datastore Put/Delete/Commit are durable when they return nil", "ipfs keystore Put/Get semantics", "go-datastore keytransform/namespace/sync wrappers and MapDatastore perform each write before returning (read from their source, v0.9.1)"},
		Assumptions: []string{"one secret store instance per datastore; effects identified by the namespace constants of pkg/secretstore"},
		Floors:      map[string]int{"D1": 2, "D2": 2, "D3": 1, "D4": 2, "D5": 6, "D6": 6, "D7": 2, "D8": 5, "D9": 1},
		Borrows: []Borrow{
			{From: "C11", Rules: []string{"D6"}, Why: "a named key is looked up, generated on a miss and stored in one locked section: otherwise two first uses both generate, the second store overwrites the first, and one caller goes on using a key that is not the one found in the store after a restart"},
		},
		Run: runC10,
	})
}

// secretStoreImpl returns the module type implementing secretstore.SecretStore.
func secretStoreImpl(w *World) types.Type {
	iface := namedType(w, pkgSecret, "SecretStore")
	if iface == nil {
		return nil
	}
	it, ok := iface.Underlying().(*types.Interface)
	if !ok {
		return nil
	}
	for _, t := range w.implementersOf(it) {
		if n := typeNamed(t); n != nil && n.Obj().Pkg().Path() == pkgSecret {
			return t
		}
	}
	return nil
}

func typeNamed(t types.Type) *types.Named {
	if p, ok := t.(*types.Pointer); ok {
		t = p.Elem()
	}
	n, _ := t.(*types.Named)
	return n
}

func secretStoreMethod(w *World, name string) *ssa.Function {
	t := secretStoreImpl(w)
	if t == nil {
		return nil
	}
	return w.methodOf(t, name)
}

// counterGuard returns a predicate: r is dominated by the side of a comparison between the
// Counter of a candidate chain key and the Counter of the stored chain key (a value obtained
// from a Get on the chain-key namespace) on which candidate <= stored — the monotone "never
// move backwards" guard, the only early success return tolerated in an updater.
func counterGuard(w *World) ExemptReturn {
	return func(r *ssa.Return) bool {
		fn := r.Parent()
		for _, b := range fn.Blocks {
			if len(b.Instrs) == 0 {
				continue
			}
			ifi, ok := b.Instrs[len(b.Instrs)-1].(*ssa.If)
			if !ok {
				continue
			}
			side, ok := staleSide(w, ifi.Cond)
			if !ok {
				continue
			}
			if edgeDominates(edge{b, b.Succs[side]}, r.Block()) {
				return true
			}
		}
		return false
	}
}

// staleSide analyses cond as a comparison of two chain-key counters, one of them read from the
// stored chain key. It returns the successor index (0 = true edge, 1 = false edge) taken when
// candidate <= stored (or <).
func staleSide(w *World, cond ssa.Value) (int, bool) {
	bo, ok := cond.(*ssa.BinOp)
	if !ok || !isChainCounterLoad(bo.X) || !isChainCounterLoad(bo.Y) {
		return 0, false
	}
	xs, ys := isStoredChainKey(w, counterBase(bo.X)), isStoredChainKey(w, counterBase(bo.Y))
	if xs == ys {
		return 0, false // cannot tell which is the stored one
	}
	// normalise to: candidate OP stored
	op := bo.Op
	if xs { // stored OP candidate  ==> candidate (flipped OP) stored
		switch op {
		case token.LSS:
			op = token.GTR
		case token.LEQ:
			op = token.GEQ
		case token.GTR:
			op = token.LSS
		case token.GEQ:
			op = token.LEQ
		}
	}
	switch op {
	case token.LSS, token.LEQ:
		return 0, true
	case token.GTR, token.GEQ:
		return 1, true
	}
	return 0, false
}

func counterBase(v ssa.Value) ssa.Value {
	switch x := v.(type) {
	case *ssa.UnOp:
		if fa, ok := x.X.(*ssa.FieldAddr); ok {
			return fa.X
		}
	case *ssa.Call:
		if len(x.Common().Args) == 1 {
			return x.Common().Args[0]
		}
	}
	return nil
}

// isStoredChainKey: v is (a result of) a call whose effects include a Get on the chain-key namespace.
func isStoredChainKey(w *World, v ssa.Value) bool {
	if v == nil {
		return false
	}
	var call *ssa.Call
	switch x := v.(type) {
	case *ssa.Extract:
		call, _ = x.Tuple.(*ssa.Call)
	case *ssa.Call:
		call = x
	}
	if call == nil {
		return false
	}
	ei := w.effects()
	for _, s := range ei.sitesIn(call.Parent()) {
		if s.Instr == ssa.CallInstruction(call) && s.has(eff("Get", nsChainKey)) {
			return true
		}
	}
	return false
}

// isChainCounterLoad: v reads the Counter field of a protocoltypes.DeviceChainKey.
func isChainCounterLoad(v ssa.Value) bool {
	switch x := v.(type) {
	case *ssa.UnOp:
		if x.Op != token.MUL {
			return false
		}
		fa, ok := x.X.(*ssa.FieldAddr)
		if !ok {
			return false
		}
		pt, ok := fa.X.Type().Underlying().(*types.Pointer)
		if !ok || !isNamed(pt.Elem(), pkgTypes, "DeviceChainKey") {
			return false
		}
		return pt.Elem().Underlying().(*types.Struct).Field(fa.Field).Name() == "Counter"
	case *ssa.Call:
		if f := staticCallee(x.Common()); f != nil && f.Name() == "GetCounter" && len(x.Common().Args) == 1 {
			return isNamed(x.Common().Args[0].Type(), pkgTypes, "DeviceChainKey")
		}
	}
	return false
}

func sortedFuncs(m map[*ssa.Function]int) []*ssa.Function {
	var out []*ssa.Function
	for f := range m {
		out = append(out, f)
	}
	for i := 0; i < len(out); i++ {
		for j := i + 1; j < len(out); j++ {
			if out[j].String() < out[i].String() {
				out[i], out[j] = out[j], out[i]
			}
		}
	}
	return out
}

// c10VSite is an effect site, or - for a call through a local table of closures (see
// c09Tables) - one element of the table: the loop over the table is the sequence of its
// elements.
type c10VSite struct {
	effectSite
	Seq   int // element index in the table, -1 for an ordinary site
	Table *c09TableCall
}

func c10VirtualSites(w *World, fn *ssa.Function) []c10VSite {
	ei := w.effects()
	ti := c09Tables(w)
	var out []c10VSite
	for _, s := range ei.sitesIn(fn) {
		tc := ti.bySite[s.Instr]
		if tc == nil {
			out = append(out, c10VSite{effectSite: s, Seq: -1})
			continue
		}
		for k, el := range tc.Elems {
			var effs []Effect
			for e := range ei.summaryOf(el) {
				effs = append(effs, e)
			}
			if len(effs) == 0 {
				continue
			}
			out = append(out, c10VSite{effectSite: effectSite{Instr: s.Instr, Effects: effs, Callee: el}, Seq: k, Table: tc})
		}
	}
	return out
}

// c10After: y can execute after x.
func c10After(x, y c10VSite) bool {
	if x.Instr == y.Instr && x.Table != nil {
		if x.Table.Ordered {
			return y.Seq > x.Seq // a forward loop over the literal: each element once, in order
		}
		if x.Table.Reversed {
			return y.Seq < x.Seq // last to first
		}
		return y.Seq != x.Seq
	}
	return instrReaches(x.Instr.(ssa.Instruction), y.Instr.(ssa.Instruction))
}

// orderRule checks e1 before e2 in every function of scope where both have distinct sites.
func orderRule(c *Ctx, rule, label string, scope map[*ssa.Function]int, e1, e2 EffPred, n1name, n2name string) int {
	instances := 0
	for _, fn := range sortedFuncs(scope) {
		var s1, s2 []c10VSite
		for _, v := range c10VirtualSites(c.W, fn) {
			if v.has(e1) {
				s1 = append(s1, v)
			}
			if v.has(e2) {
				s2 = append(s2, v)
			}
		}
		if len(s1) == 0 || len(s2) == 0 {
			continue
		}
		// need at least one pair of distinct sites (a single site carrying both is ordered
		// inside its callee)
		distinct := false
		var bad [][2]c10VSite
		for _, b := range s2 {
			for _, a := range s1 {
				if a.Instr == b.Instr && a.Seq == b.Seq {
					continue
				}
				distinct = true
				if c10After(b, a) {
					bad = append(bad, [2]c10VSite{b, a})
				}
			}
		}
		if !distinct {
			continue
		}
		instances++
		c.analysed(fn)
		construct := fnName(fn) + "+" + label
		where := func(v c10VSite) string {
			if v.Table != nil {
				return fmt.Sprintf("%s (step %d of the table run at %s)", c.pos(v.Callee.Pos()), v.Seq+1, c.pos(posOf(v.Instr)))
			}
			return c.pos(posOf(v.Instr))
		}
		if len(bad) > 0 {
			c.fail(rule, construct, posOf(bad[0][0].Instr), "%s at %s can be followed by %s at %s: a crash between them breaks the store", n2name, where(bad[0][0]), n1name, where(bad[0][1]))
		} else {
			c.ok(rule, construct, fn.Pos(), "%s always precedes %s (%d/%d sites)", n1name, n2name, len(s1), len(s2))
		}
	}
	return instances
}

func runC10(c *Ctx) {
	w := c.W
	c.count("local_closure_tables", len(c09Tables(w).bySite)) // completes the call graph: must come first
	ei := w.effects()
	open := secretStoreMethod(w, "OpenEnvelopePayload")
	seal := secretStoreMethod(w, "SealEnvelope")
	reg := secretStoreMethod(w, "RegisterChainKey")
	if open == nil || seal == nil || reg == nil {
		c.undecided("D1", "SecretStore", token.NoPos, "SecretStore implementation / entry points not found")
		return
	}
	putByCID := eff("Put", nsByCID)
	delPre := eff("Delete", nsPrecomputed)
	putPre := eff("Put|Commit", nsPrecomputed)
	putPreOrCommit := func(e Effect) bool { return putPre(e) || e.Op == "Commit" }
	putChain := eff("Put", nsChainKey)

	// ---- D1 open path
	openScope := w.reachableFuncs([]*ssa.Function{open}, 6)
	n := orderRule(c, "D1", "byCID<delete", openScope, putByCID, delPre, "Put[messageKeyForCIDs]", "Delete[precomputedMessageKeys]")
	if n == 0 {
		c.fail("D1", "open-path+byCID<delete", open.Pos(), "no function on the open path both saves the key by CID and deletes the precomputed key: one of the two writes is missing")
	}
	n = orderRule(c, "D1", "next<chainkey", openScope, putPreOrCommit, putChain, "Put[precomputedMessageKeys]", "Put[chainKeyForDeviceOnGroup]")
	if n == 0 {
		c.fail("D1", "open-path+next<chainkey", open.Pos(), "no function on the open path writes both the next precomputed key and the chain key")
	}
	// the opened message must be re-openable: the open entry point must (be able to) reach Put[byCID]
	if len(ei.sitesWith(open, putByCID)) == 0 {
		c.fail("D1", fnName(open)+"+saves-key", open.Pos(), "opening a message never stores its key by CID")
	}

	// ---- D2 seal path
	okSeal, by := ei.mustPerform(seal, putChain, counterGuard(w), 0)
	c.analysed(seal)
	c.check(okSeal, "D2", fnName(seal)+"+persist-before-return", seal.Pos(),
		"every success return is dominated by an accepted Put of the chain key", "an envelope can be returned before the chain key it used is durable (returns at "+describeReturns(c, by)+")")
	sealScope := w.reachableFuncs([]*ssa.Function{seal}, 6)
	n = orderRule(c, "D2", "next<chainkey", sealScope, putPreOrCommit, putChain, "Put[precomputedMessageKeys]", "Put[chainKeyForDeviceOnGroup]")
	if n == 0 {
		c.fail("D2", "seal-path+next<chainkey", seal.Pos(), "no function on the seal path writes both the precomputed key and the chain key")
	}

	// ---- D3 registration
	regScope := w.reachableFuncs([]*ssa.Function{reg}, 6)
	n = orderRule(c, "D3", "window<chainkey", regScope, putPreOrCommit, putChain, "Put/Commit[precomputedMessageKeys]", "Put[chainKeyForDeviceOnGroup]")
	if n == 0 {
		c.fail("D3", "register-path+window<chainkey", reg.Pos(), "no function on the registration path writes both the precomputed window and the chain key")
	}

	// ---- D6 a registration interrupted after the window commit and retried after restart
	// recomputes the same state: the window function derives every key of the window even when
	// the keys are already cached, so the chain key it returns is fully ratcheted
	checkWindowFunction(c, "D6", regScope, reg)

	// ---- D4 named keys: get-or-generate / get-or-compute
	ksGet := func(e Effect) bool { return e.Op == "KsGet" }
	ksPut := func(e Effect) bool { return e.Op == "KsPut" }
	for _, fn := range w.ModFuncs {
		if fnPkg(fn).Path() != pkgSecret {
			continue
		}
		// the lookup may be the keystore Get itself or a module helper that only reads (its
		// first result is the stored key, its error result the outcome of the read)
		var gets, puts []effectSite
		for _, s := range ei.sitesIn(fn) {
			if s.has(ksGet) && (s.Direct || s.pureLookup()) {
				gets = append(gets, s)
			}
			if s.Direct && s.has(ksPut) {
				puts = append(puts, s)
			}
		}
		if len(gets) == 0 || len(puts) == 0 {
			continue
		}
		c.analysed(fn)
		construct := fnName(fn)
		// (a) lookup first: no Put can be followed by the Get
		bad, _, _ := ei.orderViolations(fn, ksGet, ksPut)
		c.check(len(bad) == 0, "D4", construct+"+get<put", fn.Pos(), "keystore lookup precedes generation and store", "the key is stored before the keystore lookup")
		// (b) every success return of a value that is not the looked-up key is dominated by an
		// accepted Put of that same value, under the same name as the lookup
		for _, r := range returnsOf(fn) {
			if !isSuccessReturn(r) || len(retResults(r)) == 0 {
				continue
			}
			rv := retResults(r)[0]
			fromGet := false
			for _, g := range gets {
				if v := resultValue(g.Instr, 0); v != nil && stripConv(rv) == stripConv(v) {
					// must be on the accepting side of the get
					if ev := errVerdict(g.Instr); ev != nil {
						for _, e := range edgesOfVerdict(ev).Accept {
							if edgeDominates(e, r.Block()) {
								fromGet = true
							}
						}
					}
				}
			}
			if fromGet {
				c.ok("D4", construct+"+return-looked-up", posOf(r), "returns the stored key on a hit")
				continue
			}
			okPut := false
			why := "the returned key was never given to keystore.Put"
			for _, p := range puts {
				args := p.Instr.Common().Args
				if len(args) < 2 || stripConv(args[1]) != stripConv(rv) {
					continue
				}
				ev := errVerdict(p.Instr)
				if ev == nil {
					why = "keystore.Put error discarded"
					continue
				}
				dom := false
				for _, e := range edgesOfVerdict(ev).Accept {
					if edgeDominates(e, r.Block()) {
						dom = true
					}
				}
				if !dom {
					why = "the key is returned on a path where keystore.Put did not succeed"
					continue
				}
				// same name as looked up
				sameName := false
				for _, g := range gets {
					for _, ga := range g.Instr.Common().Args {
						if ga == args[0] {
							sameName = true
						}
					}
				}
				if !sameName {
					why = "the key is stored under a different name than the one looked up"
					continue
				}
				okPut = true
			}
			c.check(okPut, "D4", construct+"+return-generated", posOf(r), "a generated key is returned only after it was stored under the looked-up name", why)
		}
	}

	// ---- D5 errors of mutating effects propagate
	interesting := func(e Effect) bool {
		switch e.Op {
		case "Put", "Delete":
			return eff(e.Op, nsChainKey)(e) || eff(e.Op, nsPrecomputed)(e) || eff(e.Op, nsByCID)(e)
		case "Commit", "KsPut":
			return true
		}
		return false
	}
	for _, fn := range w.ModFuncs {
		if fnPkg(fn).Path() != pkgSecret {
			continue
		}
		for _, s := range ei.sitesIn(fn) {
			if !s.Direct || !s.has(interesting) {
				continue
			}
			c.analysed(fn)
			construct := fmt.Sprintf("%s+%s", fnName(fn), s.Effects[0])
			if _, isCall := s.Instr.(*ssa.Call); !isCall {
				c.fail("D5", construct, posOf(s.Instr), "mutating store operation started with go/defer: its error cannot be observed")
				continue
			}
			r := rejectOnFailure(fn, errVerdict(s.Instr))
			c.check(r.OK, "D5", construct, posOf(s.Instr), "write error is tested and rejects", "write error not propagated: "+r.Why)
		}
	}

	// ---- D7 "no such key" is reported only for the datastore's not-found outcome: a read
	// fault never makes the device generate new account / device keys (shared with C09.D7)
	checkMissSentinel(c, "D7", c09RoleNamedKey)

	// ---- D8 only write-through wrappers between the given datastore and the stores written
	checkDatastoreWrappers(c, "D8")

	// ---- D9 every batch obtained is committed on every success path
	checkBatchesCommitted(c, "D9")
}

// ---------------------------------------------------------------------------
// D8 who may wrap the datastore

// c10WriteThroughCtors: constructors of go-datastore values known not to defer writes.
// Wrappers pass every Put/Delete to the child before returning; NewMapDatastore is the
// volatile leaf of the in-memory store.
var c10WriteThroughCtors = map[string]string{
	pkgDatastore + "/keytransform.Wrap": "key prefixing, writes passed through",
	pkgDatastore + "/namespace.Wrap":    "key prefixing, writes passed through",
	pkgDatastore + "/sync.MutexWrap":    "mutex around every operation, writes passed through",
	pkgDatastore + ".NewMapDatastore":   "in-memory leaf",
}

// c10IsDatastoreType: t offers the datastore read/write operations.
func c10IsDatastoreType(t types.Type) bool {
	if t == nil {
		return false
	}
	has := func(t types.Type) bool {
		ms := types.NewMethodSet(t)
		for _, m := range []string{"Put", "Get", "Delete", "Has"} {
			found := false
			for i := 0; i < ms.Len(); i++ {
				if ms.At(i).Obj().Name() == m {
					found = true
				}
			}
			if !found {
				return false
			}
		}
		return true
	}
	if has(t) {
		return true
	}
	if _, isPtr := t.(*types.Pointer); !isPtr {
		if _, isIface := t.Underlying().(*types.Interface); !isIface {
			return has(types.NewPointer(t))
		}
	}
	return false
}

// c10DatastoreCtorCall: ci calls a function outside the module that yields a datastore.
func c10DatastoreCtorCall(ci ssa.CallInstruction) (string, bool) {
	cc := ci.Common()
	if cc.IsInvoke() {
		return "", false
	}
	f := staticCallee(cc)
	if f == nil || inModule(f) {
		return "", false
	}
	res := f.Signature.Results()
	for i := 0; i < res.Len(); i++ {
		if c10IsDatastoreType(res.At(i).Type()) {
			return calleeKey(cc), true
		}
	}
	return "", false
}

func checkDatastoreWrappers(c *Ctx, rule string) {
	w := c.W
	iface := namedType(w, pkgSecret, "SecretStore")
	sp := w.pkg(pkgSecret)
	if iface == nil || sp == nil {
		c.undecided(rule, "SecretStore", token.NoPos, "secretstore.SecretStore not found")
		return
	}
	// constructors: exported functions of the package that return a SecretStore
	var roots []*ssa.Function
	for _, m := range sp.Members {
		fn, ok := m.(*ssa.Function)
		if !ok || fn.Object() == nil || !fn.Object().Exported() || fn.Signature.Recv() != nil {
			continue
		}
		res := fn.Signature.Results()
		if res.Len() > 0 && types.Identical(res.At(0).Type(), iface) {
			roots = append(roots, fn)
		}
	}
	if len(roots) == 0 {
		c.undecided(rule, "constructors", token.NoPos, "no exported function returning a SecretStore found")
		return
	}
	rootSet := map[*ssa.Function]bool{}
	for _, r := range roots {
		rootSet[r] = true
	}
	scope := w.reachableFuncs(roots, 5)
	// the expressions handed to the constructors by module callers belong to the path as well:
	// walk them back through calls
	extra := map[*ssa.Function]bool{}
	var argCalls []ssa.CallInstruction
	var back func(v ssa.Value, depth int, seen map[ssa.Value]bool)
	back = func(v ssa.Value, depth int, seen map[ssa.Value]bool) {
		v = stripConv(v)
		if v == nil || seen[v] || depth > 6 {
			return
		}
		seen[v] = true
		switch x := v.(type) {
		case *ssa.Phi:
			for _, e := range x.Edges {
				back(e, depth+1, seen)
			}
		case *ssa.Extract:
			back(x.Tuple, depth+1, seen)
		case *ssa.UnOp:
			if al, ok := x.X.(*ssa.Alloc); ok && x.Op == token.MUL && al.Referrers() != nil {
				for _, r := range *al.Referrers() {
					if st, ok := r.(*ssa.Store); ok && st.Addr == ssa.Value(al) {
						back(st.Val, depth+1, seen)
					}
				}
			}
		case *ssa.Call:
			if f := staticCallee(x.Common()); f != nil && inModule(f) && f.Blocks != nil {
				if !rootSet[f] {
					extra[f] = true
				}
			} else if _, ok := c10DatastoreCtorCall(x); ok {
				argCalls = append(argCalls, x)
			}
			for _, a := range x.Common().Args {
				if c10IsDatastoreType(a.Type()) {
					back(a, depth+1, seen)
				}
			}
		}
	}
	nSites := 0
	for _, fn := range w.ModFuncs {
		for _, ci := range callsIn(fn, func(k string, cc *ssa.CallCommon) bool { f := staticCallee(cc); return f != nil && rootSet[f] }) {
			if rootSet[fn] {
				continue
			}
			nSites++
			for _, a := range ci.Common().Args {
				if c10IsDatastoreType(a.Type()) {
					back(a, 0, map[ssa.Value]bool{})
				}
			}
		}
	}
	c.count("secret_store_constructor_calls", nSites)
	var extraRoots []*ssa.Function
	for f := range extra {
		extraRoots = append(extraRoots, f)
	}
	for f, d := range w.reachableFuncs(extraRoots, 3) {
		if _, ok := scope[f]; !ok {
			scope[f] = d
		}
	}
	report := func(fn *ssa.Function, ci ssa.CallInstruction, key string) {
		c.analysed(fn)
		why, ok := c10WriteThroughCtors[key]
		c.check(ok, rule, fnName(fn)+"+"+key, posOf(ci), "known write-through datastore constructor ("+why+")",
			"the datastore the secret store / its keystore writes through is built with "+key+", which is not one of the known write-through wrappers: if it buffers or defers writes, keys and chain keys are handed out while they exist only in memory, and a crash before the flush loses them (new account/device keys after restart, orphaned chain keys)")
	}
	n := 0
	for _, fn := range sortedFuncs(scope) {
		for _, b := range fn.Blocks {
			for _, in := range b.Instrs {
				ci, ok := in.(ssa.CallInstruction)
				if !ok {
					continue
				}
				if key, ok := c10DatastoreCtorCall(ci); ok {
					n++
					report(fn, ci, key)
				}
			}
		}
	}
	for _, ci := range argCalls {
		if _, in := scope[ci.Parent()]; in {
			continue
		}
		n++
		report(ci.Parent(), ci, calleeKey(ci.Common()))
	}
	// module types that are datastores themselves and are built on the path: their own
	// Put/Delete/Batch/Sync must come from the wrapped datastore (promoted), or pass the write on
	for _, fn := range sortedFuncs(scope) {
		for _, b := range fn.Blocks {
			for _, in := range b.Instrs {
				al, ok := in.(*ssa.Alloc)
				if !ok {
					continue
				}
				nt, ok := types.Unalias(al.Type().(*types.Pointer).Elem()).(*types.Named)
				if !ok || nt.Obj().Pkg() == nil || !strings.HasPrefix(nt.Obj().Pkg().Path(), modulePath) || !c10IsDatastoreType(nt) {
					continue
				}
				n++
				c10CheckModuleWrapper(c, rule, nt, al)
			}
		}
	}
	if n == 0 {
		c.undecided(rule, "datastore constructors", token.NoPos, "no datastore constructor found on the construction path of the secret store")
	}
}

// c10CheckModuleWrapper: a module-defined datastore type writes through.
func c10CheckModuleWrapper(c *Ctx, rule string, nt *types.Named, at ssa.Instruction) {
	w := c.W
	ei := w.effects()
	construct := types.TypeString(nt, func(p *types.Package) string { return strings.TrimPrefix(p.Path(), modulePath+"/") }) + "+writes"
	bad := ""
	ms := types.NewMethodSet(types.NewPointer(nt))
	for i := 0; i < ms.Len(); i++ {
		sel := ms.At(i)
		name := sel.Obj().Name()
		if name != "Put" && name != "Delete" && name != "Batch" {
			continue
		}
		if len(sel.Index()) > 1 {
			// promoted from an embedded field: fine when that field is a datastore interface
			// (its value is built by a constructor checked above)
			st, _ := nt.Underlying().(*types.Struct)
			if st != nil {
				ft := st.Field(sel.Index()[0]).Type()
				if _, isIface := ft.Underlying().(*types.Interface); !isIface {
					if fn, ok := types.Unalias(ft).(*types.Named); ok && fn.Obj().Pkg() != nil && !strings.HasPrefix(fn.Obj().Pkg().Path(), modulePath) {
						if p, ok := ft.(*types.Pointer); ok {
							ft = p.Elem()
						}
						bad = fmt.Sprintf("%s is promoted from the embedded concrete type %s, which is not known to write through", name, types.TypeString(ft, nil))
					}
				}
			}
			continue
		}
		fo, ok := sel.Obj().(*types.Func)
		if !ok {
			continue
		}
		fn := w.Prog.FuncValue(fo)
		if fn == nil || fn.Blocks == nil {
			continue
		}
		c.analysed(fn)
		if name == "Batch" {
			continue // the batch contract (Commit) is D9 / D5
		}
		op := name
		if ok, _ := ei.mustPerform(fn, func(e Effect) bool { return e.Op == op }, nil, 0); !ok {
			bad = fmt.Sprintf("%s declares its own %s, which can return success without having performed %s on the wrapped datastore (write deferred or dropped)", nt.Obj().Name(), name, name)
		}
	}
	c.check(bad == "", rule, construct, posOf(at), "module datastore/keystore wrapper: Put/Delete come from the wrapped datastore or pass the write on before returning", "module datastore/keystore wrapper on the secret store's write path does not write through: "+bad)
}

// ---------------------------------------------------------------------------
// D9 batches are committed

func checkBatchesCommitted(c *Ctx, rule string) {
	w := c.W
	ei := w.effects()
	commit := func(e Effect) bool { return e.Op == "Commit" }
	n := 0
	for _, fn := range w.ModFuncs {
		if fnPkg(fn) == nil || fnPkg(fn).Path() != pkgSecret {
			continue
		}
		for _, ci := range callsIn(fn, func(k string, cc *ssa.CallCommon) bool {
			if !cc.IsInvoke() || cc.Method.Name() != "Batch" {
				return false
			}
			n, ok := types.Unalias(cc.Value.Type()).(*types.Named)
			return ok && n.Obj().Pkg() != nil && n.Obj().Pkg().Path() == pkgDatastore
		}) {
			handedOn := false
			for i := 0; i < fn.Signature.Results().Len(); i++ {
				if isNamed(fn.Signature.Results().At(i).Type(), pkgDatastore, "Batch") {
					handedOn = true
				}
			}
			if handedOn {
				c.note("%s: %s returns the batch it obtains; committing it is its callers' duty (not followed)", rule, fnName(fn))
				continue
			}
			n++
			c.analysed(fn)
			construct := fnName(fn) + "+Batch->Commit"
			in := ci.(ssa.Instruction)
			e := errVerdict(ci)
			// returns that need no commit: not after the Batch call, or on a side where Batch failed
			var failed []edge
			if e != nil {
				failed = append(failed, edgesOfVerdict(e).Reject...)
				for _, t := range c09SentinelTests(fn, e) {
					failed = append(failed, t.Is)
				}
			}
			exempt := func(r *ssa.Return) bool {
				if r.Parent() != fn {
					return false // returns of callees: no exemption
				}
				if !instrReaches(in, r) {
					return true
				}
				for _, fe := range failed {
					if edgeDominates(fe, r.Block()) {
						return true
					}
				}
				return false
			}
			ok, by := ei.mustPerform(fn, commit, exempt, 0)
			msg := "the batch obtained here is never committed"
			if len(by) > 0 {
				msg = "success is returned at " + describeReturns(c, by) + " without a successful Commit of the batch obtained here"
			}
			c.check(ok, rule, construct, posOf(ci), "every success return after Batch() passes a Commit that succeeded", msg+": the writes put into the batch are lost although the caller goes on to store the chain key that depends on them")
		}
	}
	if n == 0 {
		c.note("%s: no datastore batch is obtained in %s", rule, pkgSecret)
	}
}
