package main

import (
	"encoding/json"
	"flag"
	"fmt"
	"os"
	"sort"
	"strings"
	"time"
)

func usage() {
	fmt.Fprintln(os.Stderr, `usage:
  wvcheck -p C07 [-tier quick|thorough] [-repo /repo]   decide one property, write evidence/<id>.json
  wvcheck -all [-tier quick]                             decide every registered property in one load
  wvcheck selftest [-p C07] [-repo /repo]                fixtures + overlay mutants + negative controls only
  wvcheck explain <violations.json>                      re-print a recorded violation file`)
	os.Exit(2)
}

func main() {
	if len(os.Args) > 1 && os.Args[1] == "explain" {
		explain(os.Args[2:])
		return
	}
	if len(os.Args) > 1 && os.Args[1] == "describe" {
		// the registered properties with what their rules decide (used to generate MANIFEST.json)
		type desc struct {
			ID          string         `json:"id"`
			Title       string         `json:"title"`
			Explanation string         `json:"explanation"`
			Floors      map[string]int `json:"floors"`
			Borrows     []Borrow       `json:"borrows,omitempty"`
		}
		var out []desc
		for _, id := range sortedIDs() {
			p := registry[id]
			out = append(out, desc{p.ID, p.Title, p.Explanation, p.Floors, p.Borrows})
		}
		b, _ := json.MarshalIndent(out, "", " ")
		os.Stdout.Write(b)
		fmt.Println()
		return
	}
	selftestOnly := false
	args := os.Args[1:]
	if len(args) > 0 && args[0] == "selftest" {
		selftestOnly = true
		args = args[1:]
	}
	fs := flag.NewFlagSet("wvcheck", flag.ExitOnError)
	prop := fs.String("p", "", "property id")
	all := fs.Bool("all", false, "all properties")
	tier := fs.String("tier", "", "quick|thorough")
	repo := fs.String("repo", "/repo", "repository working tree")
	verbose := fs.Bool("v", false, "print every obligation")
	noEvidence := fs.Bool("no-evidence", false, "do not write evidence/violation files")
	fs.Parse(args)
	if *tier == "" {
		*tier = os.Getenv("VERIF_TIER")
	}
	if *tier != "thorough" {
		*tier = "quick"
	}
	var ids []string
	if *all || (*prop == "" && selftestOnly) {
		for id := range registry {
			ids = append(ids, id)
		}
		sort.Strings(ids)
	} else if *prop != "" {
		ids = strings.Split(*prop, ",")
	} else {
		usage()
	}
	for _, id := range ids {
		if registry[id] == nil {
			fmt.Printf("VIOLATION property=%s replay=%s/out/%s/violations.json\n", id, verifDir, id)
			fmt.Fprintf(os.Stderr, "unknown property %s\n", id)
			os.Exit(1)
		}
	}
	known := loadKnown()
	t0 := time.Now()
	w, err := baselineWorld(*repo)
	exit := 0
	if err != nil {
		// a check that could not look never reports "held"
		for _, id := range ids {
			p := registry[id]
			res := runResult{Failures: []Obligation{{Rule: id + ".LOAD", Construct: "loader", Verdict: VUndecided, Msg: err.Error()}}}
			res.Obs = res.Failures
			path, _ := writeViolations(p, res)
			if !*noEvidence {
				writeEvidence(p, *tier, res, &World{}, nil, time.Since(t0), strings.Join(os.Args, " "))
			}
			fmt.Fprintln(os.Stderr, err)
			fmt.Printf("VIOLATION property=%s replay=%s\n", id, path)
		}
		os.Exit(1)
	}
	loadDur := time.Since(t0)
	for _, id := range ids {
		p := registry[id]
		t1 := time.Now()
		var res runResult
		if !selftestOnly {
			res = runProperty(w, p, known)
		}
		var st *selfTestSummary
		if !selftestOnly && *tier != "thorough" && *repo == "/repo" {
			// quick tier: the canary variants only (a positive example per rule family on every run)
			st = runSelfTest(p, *repo, known, true)
		}
		if selftestOnly || *tier == "thorough" {
			st = runSelfTest(p, *repo, known, false)
		}
		if st != nil {
			for _, s := range st.MutantsSurvived {
				res.Failures = append(res.Failures, Obligation{Rule: id + ".SELFTEST", Construct: "mutant:" + s, Verdict: VUndecided, Msg: "self-test mutant not reported by the rule it targets"})
			}
			for _, s := range st.ControlsNoisy {
				res.Failures = append(res.Failures, Obligation{Rule: id + ".SELFTEST", Construct: "control:" + s, Verdict: VUndecided, Msg: "behaviour-preserving control variant raised a report"})
			}
			if st.FixturesFired < st.FixturesTotal {
				res.Failures = append(res.Failures, Obligation{Rule: id + ".SELFTEST", Construct: "fixtures", Verdict: VUndecided, Msg: fmt.Sprintf("only %d of %d positive fixtures fired", st.FixturesFired, st.FixturesTotal)})
			}
		}
		wall := loadDur + time.Since(t1)
		if *verbose {
			for _, o := range res.Obs {
				fmt.Printf("  [%s] %s %s @%s: %s\n", o.Verdict, o.Rule, o.Construct, o.Pos, o.Msg)
			}
			for _, n := range res.Notes {
				fmt.Printf("  note: %s\n", n)
			}
		}
		for _, o := range res.Known {
			fmt.Printf("KNOWN-FINDING: property=%s %s %s @%s: %s\n", id, o.Rule, o.Construct, o.Pos, o.Msg)
		}
		bad := len(res.Violations)+len(res.Failures) > 0
		if !*noEvidence {
			if err := writeEvidence(p, *tier, res, w, st, wall, strings.Join(os.Args, " ")); err != nil {
				fmt.Fprintln(os.Stderr, "evidence:", err)
				bad = true
			}
		}
		nOK := 0
		for _, o := range res.Obs {
			if o.Verdict == VOK {
				nOK++
			}
		}
		fmt.Printf("%s: %d obligations, %d discharged, %d known findings, %d violations, %d analysis failures; %d packages, %d functions analysed (%.1fs)\n",
			id, len(res.Obs), nOK, len(res.Known), len(res.Violations), len(res.Failures), w.PkgCount, len(res.Funcs), wall.Seconds())
		if st != nil {
			fmt.Printf("%s self-test: fixtures %d/%d, mutants killed %d/%d (skipped %d), controls silent %d/%d\n", id, st.FixturesFired, st.FixturesTotal, st.MutantsKilled, st.MutantsTotal, len(st.MutantsSkipped), st.ControlsSilent, st.ControlsTotal)
		}
		if bad {
			for _, o := range res.Violations {
				fmt.Printf("  violation %s %s @%s: %s\n", o.Rule, o.Construct, o.Pos, o.Msg)
			}
			for _, o := range res.Failures {
				fmt.Printf("  analysis-failure %s %s @%s: %s\n", o.Rule, o.Construct, o.Pos, o.Msg)
			}
			path := verifDir + "/out/" + id + "/violations.json"
			if !*noEvidence {
				path, _ = writeViolations(p, res)
			}
			fmt.Printf("VIOLATION property=%s replay=%s\n", id, path)
			exit = 1
		}
	}
	os.Exit(exit)
}

func sortedIDs() []string {
	var ids []string
	for id := range registry {
		ids = append(ids, id)
	}
	sort.Strings(ids)
	return ids
}

func explain(args []string) {
	if len(args) < 1 {
		usage()
	}
	b, err := os.ReadFile(args[0])
	if err != nil {
		fmt.Fprintln(os.Stderr, err)
		os.Exit(2)
	}
	os.Stdout.Write(b)
	fmt.Println()
}
