package main

// C17 — rendezvous points are deterministic, agreed between peers, and rotate on time.
//
// D1 digest inputs (dependency query), D2 expiry predicate direction (finite-domain
// evaluation over the ordering of deadline and clock), D3 rotate-on-expiry (evaluation over a
// period lattice + structural cache discipline), D4 marshaler agreement (provenance + A2/A3),
// D5 direction of the clock-driven rebuild tests (swiper loops, NextPoint).

import (
	"fmt"
	"go/constant"
	"go/token"
	"go/types"
	"sort"
	"strconv"
	"strings"

	"golang.org/x/tools/go/ssa"
)

const (
	c17PkgRdv  = modulePath + "/pkg/rendezvous"
	c17KeyGen  = c17PkgRdv + ".GenerateRendezvousPointForPeriod"
	c17KeyRnd  = c17PkgRdv + ".RoundTimePeriod"
	c17KeyNxt  = c17PkgRdv + ".NextTimePeriod"
	c17KeyAFun = "time.AfterFunc"
)

func init() {
	register(&PropertyDef{
		ID:          "C17",
		Title:       "Rendezvous points are deterministic, agreed between peers, and rotate on time",
		Explanation: "Decides, from the type-checked SSA of /repo and without executing it: (D1) by a backward, order-aware dependency query, that the digest returned by GenerateRendezvousPointForPeriod depends on each of topic, seed and date and on no clock, randomness or mutable package state, that on the way from Time.Unix* to the MAC input the period start is never converted to an integer type narrower than 64 bits (int/uint count as narrow: 32-bit platforms) and that a constant-bounds PutUint64 region is entirely inside the bytes written to the hash (a hand-written shift/mask encoder is not modelled), and that RoundTimePeriod/NextTimePeriod are pure functions of (date, interval); (D2) by abstract evaluation over the ordering of deadline and clock (representatives: deadline 2 s / 1 h before and after now), that Point.IsExpired is true exactly for a passed deadline and Point.TTL has the sign of deadline-now; (D3) by abstract evaluation over a period lattice (instant -> period index relative to a base instant, aligned to the period start or not), with IsExpired/TTL replaced by the contract D2 checks: NextTimePeriod is RoundTimePeriod plus one interval for either sign of the interval; NewRendezvousPointForPeriod digests (topic, seed, start of the period containing its time argument), sets the deadline to the end of that period and stores topic, seed and owner unchanged; NextPoint of an expired point builds the point of the period containing the clock with the same topic and seed; every exported lookup returns on a hit the cached point while it is live and, once it is expired, a newly built point of the current period that has been passed to the function storing points in both caches, and refuses a miss with an error; structurally: points are stored in both caches on the same path, under their own topic and their own encoded rotation value; the raw-rotation lookup encodes exactly like Point.RotationTopic; cache entries are deleted only in timer callbacks (never synchronously on the rotation path, never with a constant delay <= 0), only from the rotation cache, only under the key of the replaced point; every cache access holds the cache mutex in the required mode, including in callers and the timer callback; (D4) Marshal resolves the point for the message address, fails when the lookup fails, and sends that point's raw rotation value; Unmarshal (in its own body or in a module function it calls, depth <= 2, with the payload parameter and the error traced through the calls) looks up the RawRotation of the message decoded from the payload, fails on every path when the lookup fails, and opens the sealed box under the resolved point's topic; the store-opening path registers rotation and shared key under the same topic, and from every registration of the shared key (which overwrites) no successful return is reachable without RegisterRotation except on the equal side of a comparison of the cached point's Seed() with the seed being registered; (D5) every site that rebuilds a point for time.Now() behind a test of a point's deadline (swiper announce/watch loops, NextPoint) is reached on the deadline-passed side of the test; (D6) at every module call site of a lookup by rotation value (the lookups that read the rotation cache), no branch whose condition is computed from both the value looked up and the returned point's rotation value (directly or through a module helper) has a side that only fails: the lookup answers a previous-period value with the current point, so such a rejection would cancel the grace period for that consumer. (D7) in every loop outside the rendezvous package that renews a point (constructor, NextPoint or a lookup called on a CFG cycle), each topic handed to the discovery service in that loop (string argument of an exported tinder.Service method, directly, through a module helper parameter, or through a struct field that another function passes on) derives from a renewal call of that loop, following locals and captured variables through all their stores; a topic fixed outside the loop is reported; a wait received from inside such a loop (Done() of a context.WithDeadline/WithTimeout, time.Sleep, time.After) whose deadline or duration is the point's Deadline()/TTL() plus a duration of positive sign (constants, negation, products, initial value of a module package variable) is reported, a wait not waited on in the loop or of undecided sign is not claimed (flow-insensitive: a topic computed in the loop before the renewal of the same iteration is not distinguished). Indirections resolved by the structural clauses: a cache map handed to a module helper as an argument, or obtained by calling a getter statically or through a function value stored in a struct literal / package-level selector value / parameter (the origin of an access is the function in which the selector became known); the receiver fields of a method value handed to time.AfterFunc, captured variables and parameters of unexported helpers (to the call sites) when deciding which point a clean-up key belongs to; module helpers that return a point they renew themselves (renewal loops), an unexported helper holding the expiry test standing for each of its callers (D5). Not decided: the arithmetic inside RoundTimePeriod (floor to a multiple of the interval; covered by the project's unit test), HMAC/SHA-256 strength, agreement across real clocks and clock skew, the length of the grace period (only that it is not zero by construction), the cadence of the swiper loops, behaviour for intervals below one second.",
		Trusted:     []string{"golang.org/x/tools go/packages+go/ssa (v0.29.0)", "semantics of package time (Now/Until/Since/Sub/After/Before/Add/Unix*), crypto/hmac, encoding/binary, encoding/base64 as documented", "the checker's abstract evaluator (absint.go)"},
		Assumptions: []string{"dependencies behave as documented; only module code is analysed", "rotation intervals are whole seconds >= 1 s (the quantifier of the property)", "D3 assumes the contract of IsExpired/TTL that D2 checks"},
		Floors:      map[string]int{"D1": 4, "D2": 2, "D3": 16, "D4": 8, "D5": 3, "D6": 2, "D7": 4},
		Run:         runC17,
	})
}

// ---------------------------------------------------------------------------
// anchors

type c17Anchors struct {
	w                                    *World
	point, ri                            *types.Named
	gen, round, next                     *ssa.Function
	isExpired, ttl, deadline, nextPoint  *ssa.Function
	topicAcc, seedAcc, rawRotAcc, rotAcc *ssa.Function
	newPoint                             *ssa.Function
	lookups                              []*ssa.Function // exported methods of RotationInterval returning (*Point, error)
	fTopic, fSeed, fRot, fDeadline, fRp  string          // Point field names by accessor role
	timeT, durT                          types.Type
}

func c17Find(c *Ctx) *c17Anchors {
	w := c.W
	a := &c17Anchors{w: w}
	a.point = namedType(w, c17PkgRdv, "Point")
	a.ri = namedType(w, c17PkgRdv, "RotationInterval")
	a.gen = w.lookupFunc(c17PkgRdv, "GenerateRendezvousPointForPeriod")
	a.round = w.lookupFunc(c17PkgRdv, "RoundTimePeriod")
	a.next = w.lookupFunc(c17PkgRdv, "NextTimePeriod")
	m := func(t, n string) *ssa.Function {
		f := w.lookupMethod(c17PkgRdv, t, n)
		if f != nil && f.Blocks == nil {
			return nil
		}
		return f
	}
	a.isExpired, a.ttl, a.deadline, a.nextPoint = m("Point", "IsExpired"), m("Point", "TTL"), m("Point", "Deadline"), m("Point", "NextPoint")
	a.topicAcc, a.seedAcc, a.rawRotAcc, a.rotAcc = m("Point", "Topic"), m("Point", "Seed"), m("Point", "RawRotationTopic"), m("Point", "RotationTopic")
	a.newPoint = m("RotationInterval", "NewRendezvousPointForPeriod")
	if tp := w.Prog.ImportedPackage("time"); tp != nil {
		if o := tp.Pkg.Scope().Lookup("Time"); o != nil {
			a.timeT = o.Type()
		}
		if o := tp.Pkg.Scope().Lookup("Duration"); o != nil {
			a.durT = o.Type()
		}
	}
	if a.ri != nil && a.point != nil {
		ms := w.Prog.MethodSets.MethodSet(types.NewPointer(a.ri))
		for i := 0; i < ms.Len(); i++ {
			fo, ok := ms.At(i).Obj().(*types.Func)
			if !ok || !fo.Exported() {
				continue
			}
			sig := fo.Type().(*types.Signature)
			if sig.Results().Len() != 2 || !isErrorType(sig.Results().At(1).Type()) || !isNamed(sig.Results().At(0).Type(), c17PkgRdv, "Point") {
				continue
			}
			if fn := w.Prog.FuncValue(fo); fn != nil && fn.Blocks != nil {
				a.lookups = append(a.lookups, fn)
			}
		}
		sort.Slice(a.lookups, func(i, j int) bool { return a.lookups[i].Name() < a.lookups[j].Name() })
	}
	a.fTopic, a.fSeed, a.fRot, a.fDeadline = c17AccessorField(a.topicAcc), c17AccessorField(a.seedAcc), c17AccessorField(a.rawRotAcc), c17AccessorField(a.deadline)
	if a.point != nil {
		if st, ok := a.point.Underlying().(*types.Struct); ok {
			for i := 0; i < st.NumFields(); i++ {
				if isNamed(st.Field(i).Type(), c17PkgRdv, "RotationInterval") {
					a.fRp = st.Field(i).Name()
				}
			}
		}
	}
	return a
}

// c17AccessorField: the receiver field an accessor method returns ("" if it is not a plain
// field read).
func c17AccessorField(fn *ssa.Function) string {
	if fn == nil || len(fn.Params) == 0 {
		return ""
	}
	name := ""
	for _, r := range returnsOf(fn) {
		res := retResults(r)
		if len(res) != 1 {
			return ""
		}
		p, ok := accessPath(res[0])
		if !ok || !strings.HasPrefix(p, fn.Params[0].Name()+".") {
			return ""
		}
		f := strings.TrimPrefix(p, fn.Params[0].Name()+".")
		if strings.Contains(f, ".") || (name != "" && name != f) {
			return ""
		}
		name = f
	}
	return name
}

func c17IsTime(t types.Type) bool {
	n, ok := t.(*types.Named)
	return ok && n.Obj().Pkg() != nil && n.Obj().Pkg().Path() == "time" && n.Obj().Name() == "Time"
}

func c17IsByteSlice(t types.Type) bool {
	s, ok := t.Underlying().(*types.Slice)
	if !ok {
		return false
	}
	b, ok := s.Elem().Underlying().(*types.Basic)
	return ok && b.Kind() == types.Byte
}

func c17IsString(t types.Type) bool {
	b, ok := t.Underlying().(*types.Basic)
	return ok && b.Kind() == types.String
}

// ---------------------------------------------------------------------------
// D1: order-aware backward dependency query

type c17DepSet struct {
	Params  map[int]bool
	Impure  map[string]bool
	Unknown map[string]bool
}

func newC17DepSet() *c17DepSet {
	return &c17DepSet{Params: map[int]bool{}, Impure: map[string]bool{}, Unknown: map[string]bool{}}
}

func c17Keys(m map[string]bool) string {
	var s []string
	for k := range m {
		s = append(s, k)
	}
	sort.Strings(s)
	return strings.Join(s, ", ")
}

type c17Dep struct {
	w     *World
	fn    *ssa.Function
	out   *c17DepSet
	seen  map[[2]any]bool
	depth int
	busy  map[*ssa.Function]bool
	glob  map[*ssa.Global]bool // mutable?
	log   *[]ssa.Value         // every value on the dependency path (shared with callee walkers)
}

var c17PurePrefixes = []string{
	"crypto/hmac.", "crypto/sha256.", "crypto/sha512.", "crypto/sha1.", "crypto/md5.", "crypto/sha3.", "crypto/subtle.",
	"golang.org/x/crypto/", "hash.", "hash/", "encoding/", "bytes.", "strings.", "strconv.", "math.", "math/bits.", "slices.",
	"unicode", "builtin.", "time.Time).", "time.Duration).", "time.Location).", "time.Unix", "time.Date", "fmt.Sprint", "fmt.Append",
}

var c17ImpurePrefixes = map[string]string{
	"time.Now": "the clock", "time.Since": "the clock", "time.Until": "the clock", "time.After": "the clock", "time.Tick": "the clock",
	"time.NewTimer": "the clock", "time.NewTicker": "the clock", "time.Sleep": "the clock",
	"crypto/rand.": "randomness", "math/rand": "randomness", "os.": "the process environment", "runtime.": "the runtime", "sync/atomic.": "shared state",
}

// c17Classify: pure library function of its arguments, known-impure source, or unknown.
func c17Classify(key string) (pure bool, impure string) {
	k := strings.TrimLeft(key, "(*")
	for p, why := range c17ImpurePrefixes {
		if strings.HasPrefix(k, p) {
			return false, why
		}
	}
	for _, p := range c17PurePrefixes {
		if strings.HasPrefix(k, p) {
			return true, ""
		}
	}
	return false, ""
}

func c17IsRef(t types.Type) bool {
	switch t.Underlying().(type) {
	case *types.Pointer, *types.Slice, *types.Map, *types.Interface, *types.Chan:
		return true
	}
	return false
}

// c17GlobalMutable: a module-level variable that is exported or written outside its package
// initializer (or whose address escapes) is mutable package state.
func (d *c17Dep) globalMutable(g *ssa.Global) bool {
	if v, ok := d.glob[g]; ok {
		return v
	}
	mut := false
	if obj := g.Object(); obj != nil && obj.Exported() {
		mut = true
	}
	for _, fn := range d.w.ModFuncs {
		if mut {
			break
		}
		isInit := fn.Synthetic != "" && fn.Name() == "init"
		for _, b := range fn.Blocks {
			for _, in := range b.Instrs {
				var ops [8]*ssa.Value
				for _, op := range in.Operands(ops[:0]) {
					if op == nil || *op != ssa.Value(g) {
						continue
					}
					switch x := in.(type) {
					case *ssa.UnOp:
						if x.Op == token.MUL {
							continue
						}
					case *ssa.Store:
						if x.Addr == ssa.Value(g) && isInit {
							continue
						}
					}
					mut = true
				}
			}
		}
	}
	d.glob[g] = mut
	return mut
}

func (d *c17Dep) visit(v ssa.Value, at ssa.Instruction) {
	if v == nil {
		return
	}
	k := [2]any{v, at}
	if d.seen[k] {
		return
	}
	d.seen[k] = true
	switch x := v.(type) {
	case *ssa.Parameter:
		for i, p := range d.fn.Params {
			if p == x {
				d.out.Params[i] = true
			}
		}
		return
	case *ssa.Const, *ssa.Function, *ssa.Builtin:
		return
	case *ssa.FreeVar:
		d.out.Unknown["captured variable "+x.Name()] = true
		return
	case *ssa.Global:
		path := ""
		if x.Pkg != nil {
			path = x.Pkg.Pkg.Path()
		}
		switch {
		case strings.HasPrefix(path, modulePath):
			if d.globalMutable(x) {
				d.out.Impure["mutable package variable "+x.Name()] = true
			}
		case strings.HasPrefix(path, "encoding/") || strings.HasPrefix(path, "crypto/") && path != "crypto/rand" || strings.HasPrefix(path, "hash") || strings.HasPrefix(path, "unicode"):
		case path == "crypto/rand" || strings.HasPrefix(path, "math/rand") || path == "os" || path == "time" || path == "runtime":
			d.out.Impure["global "+path+"."+x.Name()] = true
		default:
			d.out.Unknown["global "+path+"."+x.Name()] = true
		}
		return
	}
	if d.log != nil {
		*d.log = append(*d.log, v)
	}
	in, isInstr := v.(ssa.Instruction)
	if call, ok := v.(*ssa.Call); ok {
		d.visitCall(call)
	} else if isInstr {
		var ops [12]*ssa.Value
		for _, op := range in.Operands(ops[:0]) {
			if op != nil && *op != nil {
				d.visit(*op, in)
			}
		}
	}
	// content of referenced memory / object handles: earlier stores and calls on any alias
	if c17IsRef(v.Type()) {
		d.visitMutators(v, at)
	}
}

func (d *c17Dep) visitCall(call *ssa.Call) {
	cc := call.Common()
	key := calleeKey(cc)
	// module callee with a body: summarise its results in terms of its parameters
	if f := staticCallee(cc); f != nil && f.Blocks != nil && inModule(f) && d.depth < 5 && !d.busy[f] {
		sub := &c17Dep{w: d.w, fn: f, out: newC17DepSet(), seen: map[[2]any]bool{}, depth: d.depth + 1, busy: d.busy, glob: d.glob, log: d.log}
		d.busy[f] = true
		for _, r := range returnsOf(f) {
			for _, res := range retResults(r) {
				sub.visit(res, r)
			}
		}
		delete(d.busy, f)
		for i := range sub.out.Params {
			if i < len(cc.Args) {
				d.visit(cc.Args[i], call)
			}
		}
		for k := range sub.out.Impure {
			d.out.Impure[k+" (in "+fnName(f)+")"] = true
		}
		for k := range sub.out.Unknown {
			d.out.Unknown[k+" (in "+fnName(f)+")"] = true
		}
		if mc, ok := cc.Value.(*ssa.MakeClosure); ok {
			for _, b := range mc.Bindings {
				d.visit(b, call)
			}
		}
		return
	}
	pure, impure := c17Classify(key)
	switch {
	case impure != "":
		d.out.Impure[impure+" ("+key+")"] = true
	case !pure:
		if key == "" {
			key = "dynamic call"
		}
		d.out.Unknown["call "+key] = true
	}
	var ops [12]*ssa.Value
	for _, op := range call.Operands(ops[:0]) {
		if op != nil && *op != nil {
			d.visit(*op, call)
		}
	}
}

// c17Aliases: v, the memory it is a view of, and the views derived from those.
func c17Aliases(v ssa.Value) []ssa.Value {
	seen := map[ssa.Value]bool{}
	var out []ssa.Value
	var add func(x ssa.Value)
	add = func(x ssa.Value) {
		if x == nil || seen[x] {
			return
		}
		switch x.(type) {
		case *ssa.Const, *ssa.Global, *ssa.Function, *ssa.Builtin:
			return
		}
		seen[x] = true
		out = append(out, x)
		switch b := x.(type) {
		case *ssa.Slice:
			add(b.X)
		case *ssa.IndexAddr:
			add(b.X)
		case *ssa.FieldAddr:
			add(b.X)
		case *ssa.ChangeType:
			add(b.X)
		case *ssa.MakeInterface:
			add(b.X)
		case *ssa.ChangeInterface:
			add(b.X)
		}
		if _, isPar := x.(*ssa.Parameter); isPar || x.Referrers() == nil {
			return
		}
		for _, r := range *x.Referrers() {
			switch u := r.(type) {
			case *ssa.Slice:
				if u.X == x {
					add(u)
				}
			case *ssa.IndexAddr:
				if u.X == x {
					add(u)
				}
			case *ssa.FieldAddr:
				if u.X == x {
					add(u)
				}
			case *ssa.ChangeType:
				add(u)
			case *ssa.MakeInterface:
				add(u)
			case *ssa.ChangeInterface:
				add(u)
			}
		}
	}
	add(v)
	return out
}

func (d *c17Dep) visitMutators(v ssa.Value, at ssa.Instruction) {
	for _, a := range c17Aliases(v) {
		if _, isPar := a.(*ssa.Parameter); isPar || a.Referrers() == nil {
			continue
		}
		for _, r := range *a.Referrers() {
			if r == at {
				continue
			}
			if rv, ok := r.(ssa.Value); ok && rv == v {
				continue
			}
			if at != nil && !instrReaches(r, at) {
				continue
			}
			switch u := r.(type) {
			case *ssa.Store:
				if u.Addr == a {
					d.visit(u.Val, u)
				}
			case *ssa.MapUpdate:
				if u.Map == a {
					d.visit(u.Key, u)
					d.visit(u.Value, u)
				}
			case ssa.CallInstruction:
				cc := u.Common()
				uses := cc.IsInvoke() && cc.Value == a
				for _, arg := range cc.Args {
					if arg == a {
						uses = true
					}
				}
				if !uses {
					continue
				}
				key := calleeKey(cc)
				if strings.HasPrefix(key, "builtin.") && key != "builtin.copy" {
					continue // len, cap, append(a, ...) do not write through a
				}
				pure, impure := c17Classify(key)
				if impure != "" {
					d.out.Impure[impure+" ("+key+")"] = true
				} else if !pure {
					if f := staticCallee(cc); f == nil || !inModule(f) {
						d.out.Unknown["call "+key] = true
					}
				}
				if cc.IsInvoke() && cc.Value != a {
					d.visit(cc.Value, u)
				}
				for _, arg := range cc.Args {
					if arg != a {
						d.visit(arg, u)
					}
				}
			}
		}
	}
}

// c17ResultDeps: what the results of fn depend on.
func c17ResultDeps(w *World, fn *ssa.Function) *c17DepSet {
	out, _ := c17ResultDepsLog(w, fn)
	return out
}

// c17ResultDepsLog also returns every value met on the dependency paths of the results.
func c17ResultDepsLog(w *World, fn *ssa.Function) (*c17DepSet, []ssa.Value) {
	var log []ssa.Value
	d := &c17Dep{w: w, fn: fn, out: newC17DepSet(), seen: map[[2]any]bool{}, busy: map[*ssa.Function]bool{fn: true}, glob: map[*ssa.Global]bool{}, log: &log}
	for _, r := range returnsOf(fn) {
		for _, res := range retResults(r) {
			d.visit(res, r)
		}
	}
	return d.out, log
}

// ---- D1 width: the whole 64-bit period start reaches the MAC input

func c17IsUnixCall(v ssa.Value) bool {
	call, ok := v.(*ssa.Call)
	if !ok {
		return false
	}
	switch calleeKey(call.Common()) {
	case "(time.Time).Unix", "(time.Time).UnixNano", "(time.Time).UnixMilli", "(time.Time).UnixMicro":
		return true
	}
	return false
}

// c17FromUnix: v is the result of Time.Unix* looked at through conversions, phis and type
// changes only (no arithmetic: shifts and masks of a hand-written encoder are not modelled).
func c17FromUnix(v ssa.Value, depth int) bool {
	if depth > 8 {
		return false
	}
	if c17IsUnixCall(v) {
		return true
	}
	switch x := v.(type) {
	case *ssa.Convert:
		return c17FromUnix(x.X, depth+1)
	case *ssa.ChangeType:
		return c17FromUnix(x.X, depth+1)
	case *ssa.Phi:
		for _, e := range x.Edges {
			if c17FromUnix(e, depth+1) {
				return true
			}
		}
	}
	return false
}

// c17NarrowInt: an integer type that cannot hold every int64 on every platform.
func c17NarrowInt(t types.Type) (string, bool) {
	b, ok := t.Underlying().(*types.Basic)
	if !ok {
		return "", false
	}
	switch b.Kind() {
	case types.Int8, types.Uint8, types.Int16, types.Uint16, types.Int32, types.Uint32:
		return b.Name(), true
	case types.Int, types.Uint, types.Uintptr:
		return b.Name() + " (32 bits on 32-bit platforms)", true
	}
	return "", false
}

// c17ConstSliceBounds: [lo, hi) of v inside its base array, when all bounds are constants.
func c17ConstSliceBounds(v ssa.Value) (base ssa.Value, lo, hi int64, ok bool) {
	switch x := v.(type) {
	case *ssa.Slice:
		b, blo, bhi, bok := c17ConstSliceBounds(x.X)
		if !bok {
			return nil, 0, 0, false
		}
		lo, hi = blo, bhi
		if x.Low != nil {
			n, isC := constInt(x.Low)
			if !isC {
				return nil, 0, 0, false
			}
			lo = blo + n
		}
		if x.High != nil {
			n, isC := constInt(x.High)
			if !isC {
				return nil, 0, 0, false
			}
			hi = blo + n
		}
		return b, lo, hi, true
	case *ssa.Alloc:
		if at, isArr := x.Type().(*types.Pointer).Elem().Underlying().(*types.Array); isArr {
			return x, 0, at.Len(), true
		}
	case *ssa.MakeSlice:
		if n, isC := constInt(x.Len); isC {
			return x, 0, n, true
		}
	}
	return nil, 0, 0, false
}

func c17RunD1Width(c *Ctx, a *c17Anchors, log []ssa.Value) {
	fn := a.gen
	construct := fnName(fn) + "+period-width"
	var bad []string
	nUnix, nConv := 0, 0
	seen := map[ssa.Value]bool{}
	for _, v := range log {
		if seen[v] {
			continue
		}
		seen[v] = true
		if c17IsUnixCall(v) {
			nUnix++
		}
		cv, ok := v.(*ssa.Convert)
		if !ok || !c17FromUnix(cv.X, 0) {
			continue
		}
		nConv++
		if name, narrow := c17NarrowInt(cv.Type()); narrow {
			bad = append(bad, fmt.Sprintf("the period start (Time.Unix, 64 bits) is converted to %s at %s before it is hashed: period starts that differ only above that width give the same point, and the point is no longer the digest of the whole period start", name, c.pos(cv.Pos())))
		}
	}
	// a 64-bit put whose bytes are not all handed to the hash
	for _, b := range fn.Blocks {
		for _, in := range b.Instrs {
			put, ok := in.(*ssa.Call)
			if !ok || !strings.HasSuffix(calleeKey(put.Common()), ").PutUint64") || !strings.HasPrefix(calleeKey(put.Common()), "(encoding/binary.") {
				continue
			}
			args := put.Common().Args
			if len(args) != 3 || !c17FromUnix(args[2], 0) {
				continue
			}
			pb, plo, _, pok := c17ConstSliceBounds(args[1])
			if !pok {
				continue
			}
			for _, b2 := range fn.Blocks {
				for _, in2 := range b2.Instrs {
					wr, ok := in2.(*ssa.Call)
					if !ok || !wr.Common().IsInvoke() || wr.Common().Method.Name() != "Write" || len(wr.Common().Args) != 1 {
						continue
					}
					wb, wlo, whi, wok := c17ConstSliceBounds(wr.Common().Args[0])
					if !wok || wb != pb {
						continue
					}
					if wlo > plo || whi < plo+8 {
						bad = append(bad, fmt.Sprintf("the period start is encoded into bytes [%d,%d) of the buffer but only bytes [%d,%d) are written to the hash at %s: part of the period start never reaches the MAC", plo, plo+8, wlo, whi, c.pos(posOf(wr))))
					}
				}
			}
		}
	}
	switch {
	case len(bad) > 0:
		c.fail("D1", construct, fn.Pos(), "%s", strings.Join(c17Uniq(bad), "; "))
	case nUnix == 0:
		c.undecided("D1", construct, fn.Pos(), "the date does not reach the digest through Time.Unix/UnixNano/UnixMilli/UnixMicro: the width of the encoded period start is not modelled")
	default:
		c.ok("D1", construct, fn.Pos(), "the 64-bit period start reaches the MAC input without a narrowing conversion (%d integer conversions on the path, all 64-bit) and every encoded byte is hashed", nConv)
	}
}

func c17RunD1(c *Ctx, a *c17Anchors) {
	type subj struct {
		fn   *ssa.Function
		name string
	}
	for _, s := range []subj{{a.gen, "GenerateRendezvousPointForPeriod"}, {a.round, "RoundTimePeriod"}, {a.next, "NextTimePeriod"}} {
		if s.fn == nil || s.fn.Blocks == nil {
			c.undecided("D1", "rendezvous."+s.name, token.NoPos, "exported function %s.%s not found", c17PkgRdv, s.name)
			continue
		}
		c.analysed(s.fn)
		deps, log := c17ResultDepsLog(c.W, s.fn)
		if s.fn == a.gen {
			defer c17RunD1Width(c, a, log)
		}
		construct := fnName(s.fn)
		var missing []string
		for i, p := range s.fn.Params {
			if !deps.Params[i] {
				missing = append(missing, p.Name())
			}
		}
		switch {
		case len(deps.Impure) > 0:
			c.fail("D1", construct, s.fn.Pos(), "the result depends on %s: two peers (or two calls) with the same arguments can obtain different values", c17Keys(deps.Impure))
		case len(missing) > 0:
			c.fail("D1", construct, s.fn.Pos(), "the result does not depend on parameter(s) %s: the value cannot change with it", strings.Join(missing, ", "))
		case len(deps.Unknown) > 0:
			c.undecided("D1", construct, s.fn.Pos(), "the result flows through constructs whose determinism is not modelled: %s", c17Keys(deps.Unknown))
		default:
			var ps []string
			for _, p := range s.fn.Params {
				ps = append(ps, p.Name())
			}
			c.ok("D1", construct, s.fn.Pos(), "result depends on each of (%s) and on no clock, randomness or mutable package state", strings.Join(ps, ", "))
		}
	}
}

// ---------------------------------------------------------------------------
// evaluation with access to the final heap of each path

type c17Out struct {
	Kind  string
	Res   []AVal
	Heap  map[int]*aObj
	Trace []Event
	Why   string
}

func c17Eval(ev *Evaluator, fn *ssa.Function, args []AVal) []c17Out {
	if ev.Cfg.MaxDepth == 0 {
		ev.Cfg.MaxDepth = 8
	}
	if ev.Cfg.MaxPaths == 0 {
		ev.Cfg.MaxPaths = 20000
	}
	if ev.Cfg.MaxVisits == 0 {
		ev.Cfg.MaxVisits = 3
	}
	ev.paths = 0
	st0 := ev.st0
	if st0 == nil {
		st0 = &pstate{heap: map[int]*aObj{}}
	}
	ev.st0 = nil
	var outs []c17Out
	ev.call(fn, args, nil, 0, st0, func(res []AVal, st *pstate, kind, why string) {
		outs = append(outs, c17Out{Kind: kind, Res: res, Heap: st.heap, Trace: append([]Event(nil), st.trace...), Why: why})
	})
	return outs
}

func (o c17Out) slot(p AVal, field string) (AVal, bool) {
	ptr, ok := p.(aPtr)
	if !ok || ptr.Sym {
		return nil, false
	}
	obj := o.Heap[ptr.ID]
	if obj == nil {
		return nil, false
	}
	v, ok := obj.Slots[ptr.Path+"."+field]
	return v, ok
}

func c17IsErrCtor(key string) bool {
	return key == "fmt.Errorf" || key == "errors.New" || strings.HasSuffix(key, "pkg/errcode.ErrCode).Wrap") || strings.HasPrefix(key, "github.com/pkg/errors.")
}

// ---------------------------------------------------------------------------
// D2: expiry predicate over the ordering of deadline and clock

type c17Inst struct{ NS int64 } // concrete representative instant

const c17Now = int64(1_700_000_000) * 1_000_000_000

func (a *c17Anchors) dur(n int64) AVal { return aConst{V: constant.MakeInt64(n), T: a.durT} }
func c17Bool(b bool) AVal              { return aConst{V: constant.MakeBool(b), T: types.Typ[types.Bool]} }
func c17Int64(n int64) AVal            { return aConst{V: constant.MakeInt64(n), T: types.Typ[types.Int64]} }

func c17ConstInt(v AVal) (int64, bool) {
	c, ok := v.(aConst)
	if !ok || c.V.Kind() != constant.Int {
		return 0, false
	}
	return constant.Int64Val(c.V)
}

// c17ClockCall models package time on representative instants.
func (a *c17Anchors) clockCall(key string, args []AVal) ([]AVal, bool) {
	inst := func(i int) (int64, bool) {
		if i < len(args) {
			if t, ok := args[i].(c17Inst); ok {
				return t.NS, true
			}
		}
		return 0, false
	}
	one := func(v AVal) ([]AVal, bool) { return []AVal{v}, true }
	top := func() ([]AVal, bool) { return []AVal{nil}, true }
	floorDiv := func(x, y int64) int64 {
		q := x / y
		if x%y != 0 && (x < 0) != (y < 0) {
			q--
		}
		return q
	}
	switch key {
	case "time.Now":
		return one(c17Inst{c17Now})
	case "time.Until":
		if t, ok := inst(0); ok {
			return one(a.dur(t - c17Now))
		}
		return top()
	case "time.Since":
		if t, ok := inst(0); ok {
			return one(a.dur(c17Now - t))
		}
		return top()
	case "(time.Time).Sub":
		x, ok1 := inst(0)
		y, ok2 := inst(1)
		if ok1 && ok2 {
			return one(a.dur(x - y))
		}
		return top()
	case "(time.Time).After", "(time.Time).Before", "(time.Time).Equal", "(time.Time).Compare":
		x, ok1 := inst(0)
		y, ok2 := inst(1)
		if !ok1 || !ok2 {
			return top()
		}
		switch key {
		case "(time.Time).After":
			return one(c17Bool(x > y))
		case "(time.Time).Before":
			return one(c17Bool(x < y))
		case "(time.Time).Equal":
			return one(c17Bool(x == y))
		}
		cmp := int64(0)
		if x < y {
			cmp = -1
		} else if x > y {
			cmp = 1
		}
		return one(aConst{V: constant.MakeInt64(cmp), T: types.Typ[types.Int]})
	case "(time.Time).Add":
		x, ok1 := inst(0)
		if ok1 && len(args) > 1 {
			if d, ok := c17ConstInt(args[1]); ok {
				return one(c17Inst{x + d})
			}
		}
		return top()
	case "(time.Time).Unix", "(time.Time).UnixNano", "(time.Time).UnixMilli", "(time.Time).UnixMicro":
		x, ok := inst(0)
		if !ok {
			return top()
		}
		div := map[string]int64{"(time.Time).Unix": 1e9, "(time.Time).UnixNano": 1, "(time.Time).UnixMilli": 1e6, "(time.Time).UnixMicro": 1e3}[key]
		return one(c17Int64(floorDiv(x, div)))
	case "(time.Time).IsZero":
		if _, ok := inst(0); ok {
			return one(c17Bool(false))
		}
		return top()
	case "(time.Time).UTC", "(time.Time).Local", "(time.Time).In":
		if x, ok := inst(0); ok {
			return one(c17Inst{x})
		}
		return top()
	case "(time.Duration).Nanoseconds", "(time.Duration).Microseconds", "(time.Duration).Milliseconds":
		if d, ok := c17ConstInt(args[0]); ok {
			div := map[string]int64{"(time.Duration).Nanoseconds": 1, "(time.Duration).Microseconds": 1e3, "(time.Duration).Milliseconds": 1e6}[key]
			return one(c17Int64(d / div))
		}
		return top()
	}
	return nil, false
}

func c17RunD2(c *Ctx, a *c17Anchors) {
	type scen struct {
		name    string
		off     int64
		expired bool
	}
	scens := []scen{
		{"deadline 2 s in the past", -2e9, true}, {"deadline 1 h in the past", -3600e9, true},
		{"deadline 2 s in the future", 2e9, false}, {"deadline 1 h in the future", 3600e9, false},
	}
	inRdv := func(fn *ssa.Function) bool { p := fnPkg(fn); return p != nil && p.Path() == c17PkgRdv }
	eval := func(fn *ssa.Function, off int64) []c17Out {
		ev := &Evaluator{W: c.W}
		ev.Cfg = EvalConfig{
			Field: func(path string, t types.Type) (AVal, bool) {
				if c17IsTime(t) {
					return c17Inst{c17Now + off}, true
				}
				return nil, false
			},
			Call: func(_ *Evaluator, _ *pstate, key string, _ *ssa.CallCommon, args []AVal) ([]AVal, bool) {
				return a.clockCall(key, args)
			},
			Inline:   inRdv,
			MaxDepth: 6,
		}
		return c17Eval(ev, fn, ev.SymbolicArgs(fn))
	}
	// IsExpired
	if a.isExpired == nil || a.point == nil {
		c.undecided("D2", "rendezvous.(*Point).IsExpired", token.NoPos, "exported method Point.IsExpired not found")
	} else {
		fn := a.isExpired
		c.analysed(fn)
		var bad, und []string
		for _, s := range scens {
			for _, o := range eval(fn, s.off) {
				if o.Kind != "return" || len(o.Res) != 1 {
					und = append(und, fmt.Sprintf("%s: path ends in %s %s", s.name, o.Kind, o.Why))
					continue
				}
				b, ok := o.Res[0].(aConst)
				if !ok || b.V.Kind() != constant.Bool {
					und = append(und, fmt.Sprintf("%s: result is not determined by the ordering of deadline and clock", s.name))
					continue
				}
				if constant.BoolVal(b.V) != s.expired {
					bad = append(bad, fmt.Sprintf("%s: IsExpired() = %v", s.name, constant.BoolVal(b.V)))
				}
			}
		}
		switch {
		case len(bad) > 0:
			c.fail("D2", fnName(fn), fn.Pos(), "expiry predicate has the wrong direction: %s; an expired point is kept (stale rendezvous after the period ends) and a live one is treated as expired", strings.Join(c17Uniq(bad), "; "))
		case len(und) > 0:
			c.undecided("D2", fnName(fn), fn.Pos(), "%s", strings.Join(c17Uniq(und), "; "))
		default:
			c.ok("D2", fnName(fn), fn.Pos(), "IsExpired is true for a passed deadline (2 s, 1 h) and false for a future one (2 s, 1 h)")
		}
	}
	// TTL
	if a.ttl == nil {
		c.undecided("D2", "rendezvous.(*Point).TTL", token.NoPos, "exported method Point.TTL not found")
	} else {
		fn := a.ttl
		c.analysed(fn)
		var bad, und []string
		for _, s := range scens {
			for _, o := range eval(fn, s.off) {
				if o.Kind != "return" || len(o.Res) != 1 {
					und = append(und, fmt.Sprintf("%s: path ends in %s %s", s.name, o.Kind, o.Why))
					continue
				}
				d, ok := c17ConstInt(o.Res[0])
				if !ok {
					und = append(und, fmt.Sprintf("%s: result is not determined by deadline and clock", s.name))
					continue
				}
				if (d < 0) != s.expired || d == 0 {
					bad = append(bad, fmt.Sprintf("%s: TTL() = %dns", s.name, d))
				}
			}
		}
		switch {
		case len(bad) > 0:
			c.fail("D2", fnName(fn), fn.Pos(), "TTL does not have the sign of deadline-now: %s", strings.Join(c17Uniq(bad), "; "))
		case len(und) > 0:
			c.undecided("D2", fnName(fn), fn.Pos(), "%s", strings.Join(c17Uniq(und), "; "))
		default:
			c.ok("D2", fnName(fn), fn.Pos(), "TTL is negative for a passed deadline and positive for a future one")
		}
	}
}

func c17Uniq(s []string) []string {
	seen := map[string]bool{}
	var out []string
	for _, x := range s {
		if !seen[x] {
			seen[x] = true
			out = append(out, x)
		}
	}
	return out
}

// ---------------------------------------------------------------------------
// D3 (a): period lattice. An instant is abstracted to (base instant, period offset, aligned):
// "the start of the period containing base, plus Off periods" when Aligned, otherwise "some
// instant inside that period". Fuzzy = relation to the base's periods unknown.

type c17T struct {
	Base    string // "now", "at", "old" (deadline of the looked-up point)
	Off     int
	Aligned bool
	Fuzzy   bool
	Ival    string // identity of the interval used for alignment ("" unknown)
}

type c17Tag struct{ Name string } // opaque input (seed bytes)

type c17Dig struct { // result of the digest function
	Bytes []AVal // the byte-slice arguments (topic and seed, in any order)
	Date  AVal
	Site  ssa.CallInstruction
	Fn    *ssa.Function // function containing the call
}

func (d c17Dig) has(v AVal) bool {
	for _, b := range d.Bytes {
		if b == v {
			return true
		}
	}
	return false
}

var c17BaseNames = map[string]string{"now": "the clock", "old": "the old point's deadline", "at": "the time argument", "date": "date"}

func c17Base(b string) string {
	if n, ok := c17BaseNames[b]; ok {
		return n
	}
	return b
}

func (t c17T) String() string {
	if t.Fuzzy {
		return "an instant computed from " + c17Base(t.Base) + " whose period is not determined"
	}
	s := "the period containing " + c17Base(t.Base)
	if t.Off != 0 {
		s = fmt.Sprintf("period %+d after the one containing %s", t.Off, c17Base(t.Base))
	}
	if t.Aligned {
		return "the start of " + s
	}
	return "an instant inside " + s
}

func c17Show(v AVal) string {
	switch x := v.(type) {
	case c17T:
		return x.String()
	case c17Tag:
		return x.Name
	case c17Dig:
		parts := []string{}
		for _, b := range x.Bytes {
			parts = append(parts, c17Show(b))
		}
		return "digest(" + strings.Join(parts, ", ") + ", " + c17Show(x.Date) + ")"
	case nil:
		return "an unknown value"
	}
	return avString(v)
}

func c17IvalName(v AVal) string {
	switch x := v.(type) {
	case aSym:
		return x.Path
	case aConst:
		return x.V.String()
	}
	return ""
}

type c17Sym struct {
	a       *c17Anchors
	expired bool // scenario: the deadline of the old point has passed
	hookNew bool // replace the exported point constructor by its contract (checked on its own)
}

// isOld: the receiver is the looked-up / symbolic input point (not one built on this path).
func c17IsOld(v AVal) bool {
	switch x := v.(type) {
	case nil:
		return true
	case aPtr:
		return x.Sym
	}
	return false
}

func (s *c17Sym) call(ev *Evaluator, st *pstate, key string, cc *ssa.CallCommon, args []AVal) ([]AVal, bool) {
	a := s.a
	one := func(v AVal) ([]AVal, bool) { return []AVal{v}, true }
	tm := func(i int) (c17T, bool) {
		if i < len(args) {
			t, ok := args[i].(c17T)
			return t, ok
		}
		return c17T{}, false
	}
	sign := func(t c17T) (int, bool) { // sign of t - now
		switch {
		case t.Fuzzy:
			return 0, false
		case t.Base == "old":
			if t.Off != 0 {
				return 0, false
			}
			if s.expired {
				return -1, true
			}
			return 1, true
		case t.Base == "now" && t.Aligned && t.Off >= 1:
			return 1, true
		case t.Base == "now" && t.Off <= -1:
			return -1, true
		}
		return 0, false
	}
	round := func(t c17T, ival string, ok bool) c17T {
		if !ok {
			return c17T{Base: "an unknown instant", Fuzzy: true}
		}
		if t.Fuzzy {
			return t
		}
		if t.Aligned && t.Ival != ival {
			return c17T{Base: t.Base, Fuzzy: true}
		}
		return c17T{Base: t.Base, Off: t.Off, Aligned: true, Ival: ival}
	}
	if f := staticCallee(cc); f != nil {
		switch f {
		case a.newPoint:
			if !s.hookNew || len(args) != len(f.Params) {
				return nil, false
			}
			obj := ev.newObj(st, "")
			dig := c17Dig{}
			at := c17T{Base: "an unknown instant", Fuzzy: true}
			for i, p := range f.Params {
				switch {
				case isNamed(p.Type(), c17PkgRdv, "RotationInterval"):
					obj.Slots["."+a.fRp] = args[i]
				case c17IsTime(p.Type()):
					if t, ok := args[i].(c17T); ok {
						at = t
					}
				case c17IsString(p.Type()):
					obj.Slots["."+a.fTopic] = args[i]
					dig.Bytes = append(dig.Bytes, args[i])
				case c17IsByteSlice(p.Type()):
					obj.Slots["."+a.fSeed] = args[i]
					dig.Bytes = append(dig.Bytes, args[i])
				}
			}
			start := round(at, "contract", true)
			end := start
			if !end.Fuzzy {
				end.Off++
			}
			dig.Date = start
			obj.Slots["."+a.fRot] = dig
			obj.Slots["."+a.fDeadline] = end
			return one(aPtr{ID: obj.ID})
		case a.isExpired:
			if len(args) == 1 && c17IsOld(args[0]) {
				return one(c17Bool(s.expired))
			}
			return nil, false
		case a.ttl:
			if len(args) == 1 && c17IsOld(args[0]) {
				if s.expired {
					return one(a.dur(-3600e9))
				}
				return one(a.dur(3600e9))
			}
			return nil, false
		case a.deadline:
			if len(args) == 1 && args[0] == nil {
				return one(c17T{Base: "old"})
			}
			return nil, false
		}
	}
	switch key {
	case "time.Now":
		return one(c17T{Base: "now"})
	case c17KeyRnd, c17KeyNxt:
		t, ok := tm(0)
		ival := ""
		if len(args) > 1 {
			ival = c17IvalName(args[1])
		}
		r := round(t, ival, ok)
		if key == c17KeyNxt && !r.Fuzzy {
			r.Off++
		}
		return one(r)
	case c17KeyGen:
		d := c17Dig{}
		for i, arg := range args {
			if i < len(cc.Args) && c17IsTime(cc.Args[i].Type()) {
				d.Date = arg
			} else {
				d.Bytes = append(d.Bytes, arg)
			}
		}
		return one(d)
	case "(time.Time).Add":
		t, ok := tm(0)
		if !ok {
			return one(nil)
		}
		if len(args) > 1 && !t.Fuzzy {
			if iv := c17IvalName(args[1]); iv != "" && (t.Ival == iv || !t.Aligned && strings.HasSuffix(iv, ".interval")) {
				if _, isSym := args[1].(aSym); isSym {
					t.Off++
					return one(t)
				}
			}
			// a constant that is the alignment interval up to sign
			if d, ok := c17ConstInt(args[1]); ok && d != 0 && t.Aligned {
				if iv, err := strconv.ParseInt(t.Ival, 10, 64); err == nil && (iv == d || iv == -d) {
					if d > 0 {
						t.Off++
					} else {
						t.Off--
					}
					return one(t)
				}
			}
		}
		return one(c17T{Base: t.Base, Fuzzy: true})
	case "time.Until", "time.Since":
		if t, ok := tm(0); ok {
			if sg, ok := sign(t); ok {
				if key == "time.Since" {
					sg = -sg
				}
				return one(a.dur(int64(sg) * 3600e9))
			}
		}
		return one(nil)
	case "(time.Time).After", "(time.Time).Before":
		x, ok1 := tm(0)
		y, ok2 := tm(1)
		if ok1 && ok2 {
			isNow := func(t c17T) bool { return t.Base == "now" && !t.Aligned && !t.Fuzzy && t.Off == 0 }
			var sg int
			var ok bool
			switch {
			case isNow(x): // now ? y
				sg, ok = sign(y)
				sg = -sg
			case isNow(y):
				sg, ok = sign(x)
			}
			if ok {
				if key == "(time.Time).After" {
					return one(c17Bool(sg > 0))
				}
				return one(c17Bool(sg < 0))
			}
		}
		return one(nil)
	case "(time.Time).UTC", "(time.Time).Local", "(time.Time).In":
		if t, ok := tm(0); ok {
			return one(t)
		}
		return one(nil)
	case c17KeyAFun:
		return one(nil)
	}
	if c17IsErrCtor(key) {
		return one(aNonNil{Tag: "error"})
	}
	return nil, false
}

func (s *c17Sym) field(path string, t types.Type) (AVal, bool) {
	switch {
	case c17IsTime(t):
		if strings.Contains(path, ".") {
			return c17T{Base: "old"}, true // the only instant stored in a Point is its deadline
		}
		return c17T{Base: path}, true
	case c17IsByteSlice(t):
		return c17Tag{Name: path}, true
	}
	return nil, false
}

func (a *c17Anchors) symEval(w *World, fn *ssa.Function, expired bool, args func(ev *Evaluator) []AVal) []c17Out {
	s := &c17Sym{a: a, expired: expired, hookNew: fn != a.newPoint && a.newPoint != nil}
	ev := &Evaluator{W: w}
	ev.Cfg = EvalConfig{
		Field:  s.field,
		Call:   s.call,
		Inline: func(f *ssa.Function) bool { p := fnPkg(f); return p != nil && p.Path() == c17PkgRdv },
		Interesting: func(key string, cc *ssa.CallCommon) bool {
			if key == c17KeyAFun {
				return true
			}
			f := staticCallee(cc)
			return f != nil && inModule(f)
		},
		MaxDepth: 8,
	}
	var av []AVal
	if args != nil {
		av = args(ev)
	} else {
		av = ev.SymbolicArgs(fn)
	}
	return c17Eval(ev, fn, av)
}

// c17PointFacts reads the role fields of a point built on the evaluated path.
type c17PointFacts struct {
	Fresh                          bool
	Rot, Deadline, Topic, Seed, Rp AVal
}

func (a *c17Anchors) facts(o c17Out, p AVal) c17PointFacts {
	var f c17PointFacts
	ptr, ok := p.(aPtr)
	if !ok || ptr.Sym {
		return f
	}
	f.Fresh = true
	f.Rot, _ = o.slot(p, a.fRot)
	f.Deadline, _ = o.slot(p, a.fDeadline)
	f.Topic, _ = o.slot(p, a.fTopic)
	f.Seed, _ = o.slot(p, a.fSeed)
	f.Rp, _ = o.slot(p, a.fRp)
	return f
}

// periodProblems: the point must digest the start of the period containing base and expire at its end.
func c17PeriodProblems(f c17PointFacts, base string) []string {
	var out []string
	d, ok := f.Rot.(c17Dig)
	if !ok {
		return []string{"its rotation value is " + c17Show(f.Rot) + ", not a result of GenerateRendezvousPointForPeriod"}
	}
	dt, ok := d.Date.(c17T)
	switch {
	case !ok || dt.Fuzzy || dt.Base != base:
		out = append(out, fmt.Sprintf("the point is built for %s, not for the period containing %s", c17Show(d.Date), c17Base(base)))
	case dt.Off != 0:
		out = append(out, fmt.Sprintf("the digest is taken over %s: peers resolving at the same time obtain the point of a different period", dt))
	case !dt.Aligned:
		out = append(out, fmt.Sprintf("the digest is taken over %s instead of the start of that period: two peers in the same period compute different points", dt))
	}
	dl, ok := f.Deadline.(c17T)
	switch {
	case !ok || dl.Fuzzy || dl.Base != base:
		out = append(out, fmt.Sprintf("the deadline is %s, not the end of the period containing %s", c17Show(f.Deadline), c17Base(base)))
	case dl.Off != 1 || !dl.Aligned:
		out = append(out, fmt.Sprintf("the deadline is %s instead of the end of the digested period (start of the next one)", dl))
	case ok && dt.Aligned && dt.Ival != dl.Ival:
		out = append(out, "digest period and deadline are computed with different intervals")
	}
	return out
}

func c17RunD3Eval(c *Ctx, a *c17Anchors) {
	w := c.W
	if a.point == nil || a.ri == nil {
		c.undecided("D3", "rendezvous.Point", token.NoPos, "types Point / RotationInterval not found in %s", c17PkgRdv)
		return
	}
	if a.fTopic == "" || a.fSeed == "" || a.fRot == "" || a.fDeadline == "" || a.fRp == "" {
		c.undecided("D3", "rendezvous.Point accessors", a.point.Obj().Pos(), "cannot map the accessors Topic/Seed/RawRotationTopic/Deadline (and the back pointer) to fields of Point: got %q %q %q %q %q", a.fTopic, a.fSeed, a.fRot, a.fDeadline, a.fRp)
		return
	}
	// ---- NextTimePeriod relative to RoundTimePeriod
	if fn := a.next; fn != nil && fn.Blocks != nil && a.round != nil {
		c.analysed(fn)
		var bad, und []string
		for _, iv := range []int64{3600e9, -3600e9} {
			shape := true
			s := &c17Sym{a: a}
			ev := &Evaluator{W: w}
			ev.Cfg = EvalConfig{Field: s.field, Call: s.call, Inline: func(f *ssa.Function) bool { return f != a.round && fnPkg(f) != nil && fnPkg(f).Path() == c17PkgRdv }, MaxDepth: 4}
			av := make([]AVal, len(fn.Params))
			for i, p := range fn.Params {
				switch {
				case c17IsTime(p.Type()):
					av[i] = c17T{Base: "date"}
				case a.durT != nil && types.Identical(p.Type(), a.durT):
					av[i] = a.dur(iv)
				default:
					shape = false
				}
			}
			if !shape {
				und = append(und, "signature is not (time, duration)")
				break
			}
			for _, o := range c17Eval(ev, fn, av) {
				if o.Kind != "return" || len(o.Res) != 1 {
					und = append(und, "a path ends in "+o.Kind+" "+o.Why)
					continue
				}
				t, ok := o.Res[0].(c17T)
				if !ok || t.Fuzzy || t.Base != "date" || !t.Aligned || t.Off != 1 {
					bad = append(bad, fmt.Sprintf("for an interval of %v the result is %s, not the start of the period after the one containing date", a.dur(iv).(aConst).V, c17Show(o.Res[0])))
				}
			}
		}
		c17Verdict(c, "D3", fnName(fn), fn.Pos(), bad, und, "NextTimePeriod(date, i) is RoundTimePeriod(date, |i|) plus one interval, for positive and negative i")
	} else {
		c.undecided("D3", "rendezvous.NextTimePeriod", token.NoPos, "exported functions NextTimePeriod / RoundTimePeriod not found")
	}
	// ---- NewRendezvousPointForPeriod
	if fn := a.newPoint; fn == nil {
		c.undecided("D3", "rendezvous.(*RotationInterval).NewRendezvousPointForPeriod", token.NoPos, "exported constructor not found")
	} else {
		c.analysed(fn)
		var rArg AVal
		shape := len(fn.Params) == 4
		outs := a.symEval(w, fn, false, func(ev *Evaluator) []AVal {
			ev.st0 = &pstate{heap: map[int]*aObj{}}
			av := make([]AVal, len(fn.Params))
			for i, p := range fn.Params {
				switch {
				case isNamed(p.Type(), c17PkgRdv, "RotationInterval"):
					av[i] = aPtr{ID: ev.newObj(ev.st0, "r").ID, Sym: true}
					rArg = av[i]
				case c17IsTime(p.Type()):
					av[i] = c17T{Base: "at"}
				case c17IsString(p.Type()):
					av[i] = aSym{Path: "topic"}
				case c17IsByteSlice(p.Type()):
					av[i] = c17Tag{Name: "seed"}
				default:
					shape = false
				}
			}
			return av
		})
		var bad, und []string
		if !shape {
			und = append(und, "signature is not (receiver, time, topic string, seed []byte)")
		}
		for _, o := range outs {
			if o.Kind != "return" || len(o.Res) != 1 {
				und = append(und, "a path ends in "+o.Kind+" "+o.Why)
				continue
			}
			f := a.facts(o, o.Res[0])
			if !f.Fresh {
				und = append(und, "the returned point is not built in the evaluated code")
				continue
			}
			bad = append(bad, c17PeriodProblems(f, "at")...)
			if d, ok := f.Rot.(c17Dig); ok {
				if !d.has(c17Tag{Name: "seed"}) {
					bad = append(bad, "the seed argument is not an input of the digest ("+c17Show(d)+")")
				}
				if !d.has(aSym{Path: "topic"}) {
					// string -> []byte conversions are opaque to the evaluator: decide by provenance at the call
					okTopic := false
					for _, e := range o.Trace {
						if e.Key != c17KeyGen || e.Fn != fn {
							continue
						}
						for _, arg := range e.Site.Common().Args {
							if !c17IsByteSlice(arg.Type()) {
								continue
							}
							rs := paramRoots(rootsOf(provCfg{W: w}, arg), fn)
							if len(rs) == 1 && c17ParamIdx(rs[0]) < len(fn.Params) && c17IsString(fn.Params[c17ParamIdx(rs[0])].Type()) {
								okTopic = true
							}
						}
					}
					if !okTopic {
						bad = append(bad, "the topic argument is not an input of the digest ("+c17Show(d)+")")
					}
				}
			}
			if f.Topic != AVal(aSym{Path: "topic"}) {
				bad = append(bad, "the stored topic is "+c17Show(f.Topic)+", not the topic argument")
			}
			if f.Seed != AVal(c17Tag{Name: "seed"}) {
				bad = append(bad, "the stored seed is "+c17Show(f.Seed)+", not the seed argument")
			}
			if f.Rp != rArg {
				bad = append(bad, "the point does not refer back to the interval that built it")
			}
		}
		if len(outs) == 0 {
			und = append(und, "no path evaluated")
		}
		c17Verdict(c, "D3", fnName(fn), fn.Pos(), bad, und, "digest over (topic, seed, start of the period containing the time argument); deadline = end of that period; topic and seed stored unchanged")
	}
	// ---- NextPoint
	if fn := a.nextPoint; fn == nil {
		c.undecided("D3", "rendezvous.(*Point).NextPoint", token.NoPos, "exported method Point.NextPoint not found")
	} else {
		c.analysed(fn)
		var bad, und []string
		outs := a.symEval(w, fn, true, nil)
		pn := fn.Params[0].Name()
		for _, o := range outs {
			if o.Kind != "return" || len(o.Res) != 1 {
				und = append(und, "a path ends in "+o.Kind+" "+o.Why)
				continue
			}
			f := a.facts(o, o.Res[0])
			if !f.Fresh {
				bad = append(bad, "for an expired point it does not build a new point")
				continue
			}
			bad = append(bad, c17PeriodProblems(f, "now")...)
			if f.Topic != AVal(aSym{Path: pn + "." + a.fTopic}) {
				bad = append(bad, "the new point's topic is "+c17Show(f.Topic)+", not the old point's topic")
			}
			if f.Seed != AVal(c17Tag{Name: pn + "." + a.fSeed}) {
				bad = append(bad, "the new point's seed is "+c17Show(f.Seed)+", not the old point's seed")
			}
			if d, ok := f.Rot.(c17Dig); ok && !d.has(c17Tag{Name: pn + "." + a.fSeed}) {
				bad = append(bad, "the old point's seed is not an input of the new digest ("+c17Show(d)+")")
			}
		}
		if len(outs) == 0 {
			und = append(und, "no path evaluated")
		}
		c17Verdict(c, "D3", fnName(fn)+"[expired]", fn.Pos(), bad, und, "the successor of an expired point is the point of the period containing the clock, same topic and seed")
	}
	// ---- exported lookups
	regs := c17Registrars(c, a)
	if len(a.lookups) == 0 {
		c.undecided("D3", "rendezvous.(*RotationInterval) lookups", token.NoPos, "no exported method of RotationInterval returns (*Point, error)")
	}
	for _, fn := range a.lookups {
		c.analysed(fn)
		var bad, und []string
		for _, expired := range []bool{true, false} {
			outs := a.symEval(w, fn, expired, nil)
			refusals, successes, fresh, stale := 0, 0, 0, 0
			for _, o := range outs {
				if o.Kind != "return" || len(o.Res) != 2 {
					und = append(und, "a path ends in "+o.Kind+" "+o.Why)
					continue
				}
				switch e := o.Res[1].(type) {
				case aNonNil:
					refusals++
					continue
				case aNil:
					_ = e
				default:
					und = append(und, "a path returns an error value that is not modelled")
					continue
				}
				successes++
				if _, isNil := o.Res[0].(aNil); isNil {
					bad = append(bad, "a path returns neither a point nor an error")
					continue
				}
				f := a.facts(o, o.Res[0])
				if !f.Fresh {
					stale++
					continue
				}
				fresh++
				if !expired {
					continue
				}
				bad = append(bad, c17PeriodProblems(f, "now")...)
				// registered?
				registered := false
				for _, e := range o.Trace {
					callee := staticCallee(e.Site.Common())
					if idx, ok := regs[callee]; ok && idx < len(e.Args) && e.Args[idx] == o.Res[0] {
						registered = true
					}
				}
				if len(regs) == 0 {
					und = append(und, "no function stores its point argument in both caches: registration of the rotated point is not modelled")
				} else if !registered {
					bad = append(bad, "the rotated point is returned without having been registered in the caches: the rotation values other peers send for the current period are refused")
				}
			}
			switch {
			case expired && fresh == 0 && stale > 0:
				bad = append(bad, "when the cached point is expired the stale point is returned instead of the point of the current period")
			case expired && fresh > 0 && stale > 0:
				und = append(und, "with an expired cached point some paths return the rotated point and others the stale one: the expiry test is not of a modelled form (IsExpired, TTL, or Deadline compared with the clock)")
			case !expired && fresh > 0 && stale == 0:
				bad = append(bad, "a live cached point is replaced on lookup: the peer leaves the current period's point before its deadline")
			case !expired && fresh > 0:
				und = append(und, "with a live cached point some paths build a new point: the expiry test is not of a modelled form")
			}
			if refusals == 0 {
				bad = append(bad, "no path refuses: a value that is not registered is not rejected with an error")
			}
			if successes == 0 {
				und = append(und, "no successful path found")
			}
		}
		c17Verdict(c, "D3", fnName(fn), fn.Pos(), bad, und, "hit: live cached point, or when expired the registered point of the period containing the clock; miss: error")
	}
}

func c17ParamIdx(s string) int { // "p2.x" -> 2
	n := 0
	fmt.Sscanf(s, "p%d", &n)
	return n
}

func c17Verdict(c *Ctx, rule, construct string, pos token.Pos, bad, und []string, okMsg string) {
	switch {
	case len(bad) > 0:
		c.fail(rule, construct, pos, "%s", strings.Join(c17Uniq(bad), "; "))
	case len(und) > 0:
		c.undecided(rule, construct, pos, "%s", strings.Join(c17Uniq(und), "; "))
	default:
		c.ok(rule, construct, pos, "%s", okMsg)
	}
}

// ---------------------------------------------------------------------------
// D3 (b): structural cache discipline

type c17Access struct {
	Instr ssa.Instruction
	Field int // field index in RotationInterval
	Write bool
	Key   ssa.Value
	Val   ssa.Value // MapUpdate value
	Kind  string    // lookup | update | delete | range | len | other
	// Origin: the function that loaded the map from the RotationInterval field (the access
	// itself may sit in a callee that received the map as an argument)
	Origin *ssa.Function
}

type c17CacheInfo struct {
	st                *types.Struct
	cacheFields       []int
	topicF, rotF, muF int
	acc               map[*ssa.Function][]c17Access
	funcs             []*ssa.Function
}

func (ci *c17CacheInfo) fname(i int) string {
	if i < 0 || i >= ci.st.NumFields() {
		return "?"
	}
	return ci.st.Field(i).Name()
}

func c17IsMutex(t types.Type) bool {
	n, ok := t.(*types.Named)
	return ok && n.Obj().Pkg() != nil && n.Obj().Pkg().Path() == "sync" && (n.Obj().Name() == "RWMutex" || n.Obj().Name() == "Mutex")
}

// c17RIField: v is &x.f with x of type *RotationInterval; returns the field index.
func c17RIField(a *c17Anchors, v ssa.Value) (int, bool) {
	fa, ok := v.(*ssa.FieldAddr)
	if !ok {
		return 0, false
	}
	pt, ok := fa.X.Type().Underlying().(*types.Pointer)
	if !ok || !types.Identical(pt.Elem(), a.ri) {
		return 0, false
	}
	return fa.Field, true
}

func c17Caches(c *Ctx, a *c17Anchors) *c17CacheInfo {
	st, ok := a.ri.Underlying().(*types.Struct)
	if !ok {
		return nil
	}
	ci := &c17CacheInfo{st: st, topicF: -1, rotF: -1, muF: -1, acc: map[*ssa.Function][]c17Access{}}
	isCache := map[int]bool{}
	nMu := 0
	for i := 0; i < st.NumFields(); i++ {
		t := st.Field(i).Type()
		if m, ok := t.Underlying().(*types.Map); ok && c17IsString(m.Key()) && isNamed(m.Elem(), c17PkgRdv, "Point") {
			ci.cacheFields = append(ci.cacheFields, i)
			isCache[i] = true
		}
		if c17IsMutex(t) {
			ci.muF = i
			nMu++
		}
	}
	if nMu != 1 {
		ci.muF = -1
	}
	// uses: the accesses made through map value v (field f, loaded in origin); a map handed to a
	// module function is followed into that function's parameter
	var uses func(v ssa.Value, f int, origin *ssa.Function, depth int)
	visited := map[[3]any]bool{}
	getters := map[*ssa.Function]int{}
	uses = func(v ssa.Value, f int, origin *ssa.Function, depth int) {
		k := [3]any{v, f, origin}
		if v.Referrers() == nil || visited[k] || depth > 3 {
			return
		}
		visited[k] = true
		for _, r := range *v.Referrers() {
			fn := r.Parent()
			ac := c17Access{Instr: r, Field: f, Kind: "other", Write: true, Origin: origin}
			switch u := r.(type) {
			case *ssa.Lookup:
				ac.Kind, ac.Write, ac.Key = "lookup", false, u.Index
			case *ssa.MapUpdate:
				ac.Kind, ac.Key, ac.Val = "update", u.Key, u.Value
			case *ssa.Range:
				ac.Kind, ac.Write = "range", false
			case *ssa.DebugRef:
				continue
			case *ssa.Return:
				// a function that hands the cache map out: its callers are the users
				getters[fn] = f
				continue
			case *ssa.Phi:
				uses(u, f, origin, depth)
				continue
			case ssa.CallInstruction:
				switch calleeKey(u.Common()) {
				case "builtin.delete":
					ac.Kind = "delete"
					if len(u.Common().Args) == 2 {
						ac.Key = u.Common().Args[1]
					}
				case "builtin.len":
					ac.Kind, ac.Write = "len", false
				case "builtin.clear":
					ac.Kind = "delete"
				default:
					callee := staticCallee(u.Common())
					if _, isCall := r.(*ssa.Call); isCall && callee != nil && callee.Blocks != nil && inModule(callee) {
						followed := false
						for i, arg := range u.Common().Args {
							if arg == v && i < len(callee.Params) {
								uses(callee.Params[i], f, origin, depth+1)
								followed = true
							}
						}
						if followed {
							continue
						}
					}
				}
			}
			ci.acc[fn] = append(ci.acc[fn], ac)
		}
	}
	for _, fn := range c.W.ModFuncs {
		if p := fnPkg(fn); p == nil || p.Path() != c17PkgRdv {
			continue
		}
		for _, b := range fn.Blocks {
			for _, in := range b.Instrs {
				ld, ok := in.(*ssa.UnOp)
				if !ok || ld.Op != token.MUL {
					continue
				}
				f, ok := c17RIField(a, ld.X)
				if !ok || !isCache[f] {
					continue
				}
				uses(ld, f, fn, 0)
			}
		}
	}
	// maps obtained by calling a getter, statically or through a function value that resolves
	// (struct literal, package-level selector value, parameter) to a getter: the origin is the
	// function in which the getter became known
	if len(getters) > 0 {
		for _, fn := range c.W.ModFuncs {
			if p := fnPkg(fn); p == nil || p.Path() != c17PkgRdv {
				continue
			}
			for _, b := range fn.Blocks {
				for _, in := range b.Instrs {
					call, ok := in.(*ssa.Call)
					if !ok || call.Common().IsInvoke() {
						continue
					}
					if m, isMap := call.Type().Underlying().(*types.Map); !isMap || !isNamed(m.Elem(), c17PkgRdv, "Point") {
						continue
					}
					if g := staticCallee(call.Common()); g != nil {
						if f, ok := getters[g]; ok {
							uses(call, f, fn, 0)
						}
						continue
					}
					rz := newC17Resolver(c.W)
					for _, res := range rz.val(call.Common().Value, fn, 0) {
						var g *ssa.Function
						switch t := res.V.(type) {
						case *ssa.Function:
							g = t
						case *ssa.MakeClosure:
							g, _ = t.Fn.(*ssa.Function)
						}
						if f, ok := getters[g]; ok && g != nil {
							uses(call, f, res.At, 0)
						}
					}
				}
			}
		}
	}
	for _, fn := range c.W.ModFuncs {
		if len(ci.acc[fn]) > 0 {
			ci.funcs = append(ci.funcs, fn)
		}
	}
	// roles by the exported lookups
	role := func(method string) int {
		fn := c.W.lookupMethod(c17PkgRdv, "RotationInterval", method)
		if fn == nil {
			return -1
		}
		found := -1
		reach := c.W.reachableFuncs([]*ssa.Function{fn}, 2)
		for f := range reach {
			for _, ac := range ci.acc[f] {
				if _, ok := reach[ac.Origin]; ac.Kind == "lookup" && ok {
					if found >= 0 && found != ac.Field {
						return -1
					}
					found = ac.Field
				}
			}
		}
		return found
	}
	ci.topicF, ci.rotF = role("PointForTopic"), role("PointForRotation")
	return ci
}

// ---------------------------------------------------------------------------
// value resolution: follow a value back to its concrete definitions through locals, struct
// fields (composite literals, package-level struct variables set by the initializer),
// parameters (to the arguments at the module call sites), captured variables and bound
// receivers of method values.

type c17Res struct {
	V  ssa.Value
	At *ssa.Function // the function in which the value became concrete
}

type c17Resolver struct {
	w    *World
	seen map[[3]any]bool
	mk   map[*ssa.Function][]*ssa.MakeClosure
}

func newC17Resolver(w *World) *c17Resolver {
	return &c17Resolver{w: w, seen: map[[3]any]bool{}}
}

func (rz *c17Resolver) closuresOf(fn *ssa.Function) []*ssa.MakeClosure {
	if rz.mk == nil {
		rz.mk = map[*ssa.Function][]*ssa.MakeClosure{}
		for _, f := range rz.w.ModFuncs {
			for _, b := range f.Blocks {
				for _, in := range b.Instrs {
					if mc, ok := in.(*ssa.MakeClosure); ok {
						if t, ok := mc.Fn.(*ssa.Function); ok {
							rz.mk[t] = append(rz.mk[t], mc)
						}
					}
				}
			}
		}
	}
	return rz.mk[fn]
}

// storesTo: the stores whose address is addr; for a global the package's functions are scanned.
func (rz *c17Resolver) storesTo(addr ssa.Value) []*ssa.Store {
	var out []*ssa.Store
	if g, ok := addr.(*ssa.Global); ok {
		for _, f := range rz.w.ModFuncs {
			if g.Pkg == nil || fnPkg(f) != g.Pkg.Pkg {
				continue
			}
			for _, b := range f.Blocks {
				for _, in := range b.Instrs {
					if st, ok := in.(*ssa.Store); ok && st.Addr == addr {
						out = append(out, st)
					}
				}
			}
		}
		if g.Pkg != nil {
			if init := g.Pkg.Func("init"); init != nil {
				for _, b := range init.Blocks {
					for _, in := range b.Instrs {
						if st, ok := in.(*ssa.Store); ok && st.Addr == addr {
							dup := false
							for _, o := range out {
								if o == st {
									dup = true
								}
							}
							if !dup {
								out = append(out, st)
							}
						}
					}
				}
			}
		}
		return out
	}
	if addr.Referrers() == nil {
		return nil
	}
	for _, r := range *addr.Referrers() {
		if st, ok := r.(*ssa.Store); ok && st.Addr == addr {
			out = append(out, st)
		}
	}
	return out
}

// fieldAddrs: the &base.f instructions for field idx of base (an alloc or a global).
func (rz *c17Resolver) fieldAddrs(base ssa.Value, idx int) []*ssa.FieldAddr {
	var out []*ssa.FieldAddr
	scan := func(f *ssa.Function) {
		for _, b := range f.Blocks {
			for _, in := range b.Instrs {
				if fa, ok := in.(*ssa.FieldAddr); ok && fa.X == base && fa.Field == idx {
					out = append(out, fa)
				}
			}
		}
	}
	if g, ok := base.(*ssa.Global); ok {
		for _, f := range rz.w.ModFuncs {
			if g.Pkg != nil && fnPkg(f) == g.Pkg.Pkg {
				scan(f)
			}
		}
		if g.Pkg != nil {
			if init := g.Pkg.Func("init"); init != nil && len(out) == 0 {
				scan(init)
			}
		}
		return out
	}
	if base.Referrers() == nil {
		return nil
	}
	for _, r := range *base.Referrers() {
		if fa, ok := r.(*ssa.FieldAddr); ok && fa.X == base && fa.Field == idx {
			out = append(out, fa)
		}
	}
	return out
}

// binding: the value a free variable of fn is bound to, with the function that binds it.
func (rz *c17Resolver) bindings(fv *ssa.FreeVar) []c17Res {
	fn := fv.Parent()
	idx := -1
	for i, f := range fn.FreeVars {
		if f == fv {
			idx = i
		}
	}
	var out []c17Res
	for _, mc := range rz.closuresOf(fn) {
		if idx >= 0 && idx < len(mc.Bindings) {
			out = append(out, c17Res{mc.Bindings[idx], mc.Parent()})
		}
	}
	return out
}

func (rz *c17Resolver) args(par *ssa.Parameter) []c17Res {
	fn := par.Parent()
	idx := -1
	for i, p := range fn.Params {
		if p == par {
			idx = i
		}
	}
	var out []c17Res
	for _, cs := range rz.w.callGraph().callers[fn] {
		cc := cs.Instr.Common()
		args := cc.Args
		if cc.IsInvoke() {
			args = append([]ssa.Value{cc.Value}, args...)
		}
		if idx >= 0 && idx < len(args) {
			out = append(out, c17Res{args[idx], cs.Caller})
		}
	}
	return out
}

// ctx: the context a stored value is attributed to: a package-level variable is set once by
// the initializer, what matters is the function that reads it; a local is written where it lives.
func (rz *c17Resolver) ctx(base ssa.Value, st *ssa.Store, reader *ssa.Function) *ssa.Function {
	if _, isGlobal := base.(*ssa.Global); isGlobal && reader != nil {
		return reader
	}
	// temporaries of the package initializer (a literal built in a local, then copied into the
	// variable) belong to the same reader
	if p := st.Parent(); p != nil && p.Synthetic != "" && p.Name() == "init" && reader != nil {
		return reader
	}
	return st.Parent()
}

// val: the concrete definitions of v.
func (rz *c17Resolver) val(v ssa.Value, at *ssa.Function, depth int) []c17Res {
	k := [3]any{"v", v, 0}
	if v == nil || depth > 10 || rz.seen[k] {
		return nil
	}
	rz.seen[k] = true
	switch x := v.(type) {
	case *ssa.Parameter:
		var out []c17Res
		for _, a := range rz.args(x) {
			out = append(out, rz.val(a.V, a.At, depth+1)...)
		}
		if len(out) == 0 {
			return []c17Res{{v, at}}
		}
		return out
	case *ssa.FreeVar:
		var out []c17Res
		for _, b := range rz.bindings(x) {
			out = append(out, rz.val(b.V, b.At, depth+1)...)
		}
		return out
	case *ssa.Phi:
		var out []c17Res
		for _, e := range x.Edges {
			out = append(out, rz.val(e, at, depth+1)...)
		}
		return out
	case *ssa.ChangeType:
		return rz.val(x.X, at, depth+1)
	case *ssa.MakeInterface:
		return rz.val(x.X, at, depth+1)
	case *ssa.UnOp:
		if x.Op == token.MUL {
			return rz.load(x.X, at, depth+1)
		}
	case *ssa.Field:
		return rz.field(x.X, x.Field, at, depth+1)
	}
	return []c17Res{{v, at}}
}

// load: the values stored at addr.
func (rz *c17Resolver) load(addr ssa.Value, at *ssa.Function, depth int) []c17Res {
	k := [3]any{"l", addr, 0}
	if depth > 10 || rz.seen[k] {
		return nil
	}
	rz.seen[k] = true
	var out []c17Res
	switch x := addr.(type) {
	case *ssa.Alloc, *ssa.Global:
		for _, st := range rz.storesTo(addr) {
			out = append(out, rz.val(st.Val, rz.ctx(addr, st, at), depth+1)...)
		}
	case *ssa.FreeVar:
		for _, b := range rz.bindings(x) {
			out = append(out, rz.load(b.V, b.At, depth+1)...)
		}
	case *ssa.FieldAddr:
		for _, base := range rz.val(x.X, at, depth+1) {
			out = append(out, rz.fieldAt(base.V, x.Field, base.At, depth+1)...)
		}
	case *ssa.Parameter:
		for _, a := range rz.args(x) {
			out = append(out, rz.load(a.V, a.At, depth+1)...)
		}
	}
	return out
}

// fieldAt: the values of field idx of the struct stored at base (alloc, global).
func (rz *c17Resolver) fieldAt(base ssa.Value, idx int, at *ssa.Function, depth int) []c17Res {
	k := [3]any{"f", base, idx}
	if depth > 10 || rz.seen[k] {
		return nil
	}
	rz.seen[k] = true
	var out []c17Res
	switch base.(type) {
	case *ssa.Alloc, *ssa.Global:
		for _, fa := range rz.fieldAddrs(base, idx) {
			for _, st := range rz.storesTo(fa) {
				out = append(out, rz.val(st.Val, rz.ctx(base, st, at), depth+1)...)
			}
		}
		for _, st := range rz.storesTo(base) { // whole-struct stores
			out = append(out, rz.field(st.Val, idx, rz.ctx(base, st, at), depth+1)...)
		}
	}
	return out
}

// field: the values of field idx of the struct value s.
func (rz *c17Resolver) field(s ssa.Value, idx int, at *ssa.Function, depth int) []c17Res {
	k := [3]any{"s", s, idx}
	if s == nil || depth > 10 || rz.seen[k] {
		return nil
	}
	rz.seen[k] = true
	var out []c17Res
	switch x := s.(type) {
	case *ssa.UnOp:
		if x.Op == token.MUL {
			switch b := x.X.(type) {
			case *ssa.Alloc, *ssa.Global:
				return rz.fieldAt(x.X, idx, at, depth+1)
			case *ssa.FreeVar:
				for _, bd := range rz.bindings(b) {
					out = append(out, rz.fieldAt(bd.V, idx, bd.At, depth+1)...)
				}
			default:
				for _, base := range rz.val(x.X, at, depth+1) {
					out = append(out, rz.fieldAt(base.V, idx, base.At, depth+1)...)
				}
			}
		}
	case *ssa.Parameter:
		for _, a := range rz.args(x) {
			out = append(out, rz.field(a.V, idx, a.At, depth+1)...)
		}
	case *ssa.FreeVar: // bound receiver of a method value
		for _, b := range rz.bindings(x) {
			out = append(out, rz.field(b.V, idx, b.At, depth+1)...)
		}
	case *ssa.Phi:
		for _, e := range x.Edges {
			out = append(out, rz.field(e, idx, at, depth+1)...)
		}
	case *ssa.ChangeType:
		return rz.field(x.X, idx, at, depth+1)
	}
	return out
}

// c17PointOfKey: the point whose rotation value a cache key is computed from.
func (a *c17Anchors) pointOfKey(key ssa.Value, depth int) ssa.Value {
	if depth > 6 {
		return nil
	}
	switch x := key.(type) {
	case *ssa.Extract:
		return a.pointOfKey(x.Tuple, depth+1)
	case *ssa.Call:
		f := staticCallee(x.Common())
		args := x.Common().Args
		if f != nil && inModule(f) && f.Signature.Recv() != nil && isNamed(f.Signature.Recv().Type(), c17PkgRdv, "Point") && len(args) > 0 {
			return args[0]
		}
		for _, arg := range args {
			if c17IsByteSlice(arg.Type()) || c17IsString(arg.Type()) {
				if p := a.pointOfKey(arg, depth+1); p != nil {
					return p
				}
			}
		}
	case *ssa.UnOp:
		if x.Op == token.MUL {
			if al, ok := x.X.(*ssa.Alloc); ok && al.Referrers() != nil {
				for _, r := range *al.Referrers() {
					if st, ok := r.(*ssa.Store); ok && st.Addr == ssa.Value(al) {
						if p := a.pointOfKey(st.Val, depth+1); p != nil {
							return p
						}
					}
				}
			}
		}
	}
	return nil
}

// c17Registrars: functions that store one of their parameters in both caches -> parameter index.
func c17Registrars(c *Ctx, a *c17Anchors) map[*ssa.Function]int {
	ci := c17CachesMemo(c, a)
	out := map[*ssa.Function]int{}
	if ci == nil || ci.topicF < 0 || ci.rotF < 0 || ci.topicF == ci.rotF {
		return out
	}
	for _, fn := range ci.funcs {
		byField := map[int]map[int]bool{}
		for _, ac := range ci.acc[fn] {
			if ac.Kind != "update" {
				continue
			}
			for i, p := range fn.Params {
				if ac.Val == ssa.Value(p) {
					if byField[ac.Field] == nil {
						byField[ac.Field] = map[int]bool{}
					}
					byField[ac.Field][i] = true
				}
			}
		}
		for i := range byField[ci.topicF] {
			if byField[ci.rotF][i] {
				out[fn] = i
			}
		}
	}
	return out
}

// c17AlsoExecutes: every execution of fn that executes u also executes v (before u, or after
// it before the function returns).
func c17AlsoExecutes(u, v ssa.Instruction) bool {
	if instrDominates(v, u) {
		return true
	}
	if u.Block() == v.Block() {
		return instrDominates(u, v)
	}
	// a return reachable from u without passing through v's block?
	seen := map[*ssa.BasicBlock]bool{}
	stack := append([]*ssa.BasicBlock(nil), u.Block().Succs...)
	if len(u.Block().Succs) == 0 {
		return false
	}
	for len(stack) > 0 {
		b := stack[len(stack)-1]
		stack = stack[:len(stack)-1]
		if seen[b] || b == v.Block() {
			continue
		}
		seen[b] = true
		if len(b.Succs) == 0 {
			return false
		}
		stack = append(stack, b.Succs...)
	}
	return true
}

func c17CachesMemo(c *Ctx, a *c17Anchors) *c17CacheInfo {
	if ci, ok := c.W.memo["c17caches"].(*c17CacheInfo); ok {
		return ci
	}
	ci := c17Caches(c, a)
	c.W.memo["c17caches"] = ci
	return ci
}

// c17EncSig: the library calls and globals on the way from bytes to a cache key.
func c17EncSig(rs RootSet) string {
	var out []string
	for k := range rs {
		if strings.HasPrefix(k, "call:") || strings.HasPrefix(k, "global:") {
			out = append(out, k)
		}
	}
	sort.Strings(out)
	return strings.Join(out, " ")
}

// c17Brief: the parameter paths and module functions a value derives from (for messages).
func c17Brief(rs RootSet) string {
	var out []string
	for _, k := range rs.list() {
		if strings.HasPrefix(k, "param:") {
			out = append(out, strings.TrimPrefix(k, "param:"))
		} else if strings.HasPrefix(k, "via:") {
			out = append(out, strings.ReplaceAll(strings.TrimPrefix(k, "via:"), modulePath+"/", "")+"()")
		}
	}
	return strings.Join(out, ", ")
}

func c17HasRoot(rs RootSet, pred func(string) bool) bool {
	for k := range rs {
		if pred(k) {
			return true
		}
	}
	return false
}

func c17FreshNames(rs RootSet) string {
	var out []string
	for _, k := range rs.list() {
		if c17FreshRoot(k) {
			out = append(out, strings.ReplaceAll(k[strings.Index(k, ":")+1:], modulePath+"/", "")+"()")
		}
	}
	return strings.Join(out, ", ")
}

func c17FreshRoot(k string) bool {
	return (strings.HasPrefix(k, "via:") || strings.HasPrefix(k, "call:")) && (strings.HasSuffix(k, ").NewRendezvousPointForPeriod") || strings.HasSuffix(k, ").NextPoint"))
}

// ---- lock discipline: must-hold mode of the cache mutex before each instruction

type c17Locks struct {
	a     *c17Anchors
	ci    *c17CacheInfo
	w     *World
	local map[*ssa.Function]map[ssa.Instruction]int // 0 none, 1 R, 2 W
	entry map[*ssa.Function]int
	busy  map[*ssa.Function]bool
}

func (l *c17Locks) opOf(in ssa.Instruction) (mode int, acquire, ok bool) {
	ci, isCall := in.(ssa.CallInstruction)
	if !isCall {
		return
	}
	if _, isDefer := in.(*ssa.Defer); isDefer {
		return
	}
	if _, isGo := in.(*ssa.Go); isGo {
		return
	}
	op, isLock := lockOpOf(ci)
	if !isLock || len(ci.Common().Args) == 0 {
		return
	}
	f, isRI := c17RIField(l.a, ci.Common().Args[0])
	if !isRI || f != l.ci.muF {
		return
	}
	mode = 2
	if op.Mode == 'R' {
		mode = 1
	}
	return mode, op.Acquire, true
}

func (l *c17Locks) localOf(fn *ssa.Function) map[ssa.Instruction]int {
	if m, ok := l.local[fn]; ok {
		return m
	}
	res := map[ssa.Instruction]int{}
	l.local[fn] = res
	if len(fn.Blocks) == 0 {
		return res
	}
	out := map[*ssa.BasicBlock]int{}
	have := map[*ssa.BasicBlock]bool{}
	transfer := func(b *ssa.BasicBlock, s int, rec bool) int {
		for _, in := range b.Instrs {
			if rec {
				res[in] = s
			}
			if mode, acq, ok := l.opOf(in); ok {
				if acq {
					s = mode
				} else {
					s = 0
				}
			}
		}
		return s
	}
	in := map[*ssa.BasicBlock]int{}
	for iter, changed := 0, true; changed && iter < 50; iter++ {
		changed = false
		for _, b := range fn.Blocks {
			s := 0
			if b != fn.Blocks[0] {
				first := true
				for _, p := range b.Preds {
					if !have[p] {
						continue
					}
					if first || out[p] < s {
						s = out[p]
					}
					first = false
				}
				if first {
					continue
				}
			}
			o := transfer(b, s, false)
			if !have[b] || out[b] != o {
				have[b], out[b], changed = true, o, true
			}
			in[b] = s
		}
	}
	for _, b := range fn.Blocks {
		if have[b] {
			transfer(b, in[b], true)
		}
	}
	return res
}

// entryOf: the mode held at every module call site of an unexported function; exported
// functions, function values and functions without callers start with nothing held.
func (l *c17Locks) entryOf(fn *ssa.Function) int {
	if v, ok := l.entry[fn]; ok {
		return v
	}
	if l.busy[fn] {
		return 2 // optimistic on recursion
	}
	l.busy[fn] = true
	defer delete(l.busy, fn)
	callers := l.w.callGraph().callers[fn]
	mode := 0
	if obj := fn.Object(); len(callers) > 0 && fn.Parent() == nil && (obj == nil || !obj.Exported()) {
		mode = 2
		for _, cs := range callers {
			at := 0
			if _, isCall := cs.Instr.(*ssa.Call); isCall {
				at = l.heldAt(cs.Instr)
			}
			if at < mode {
				mode = at
			}
		}
	}
	l.entry[fn] = mode
	return mode
}

func (l *c17Locks) heldAt(in ssa.Instruction) int {
	fn := in.Parent()
	m := l.localOf(fn)[in]
	if e := l.entryOf(fn); e > m {
		// the entry mode survives only while the function has not released it
		released := false
		for _, b := range fn.Blocks {
			for _, x := range b.Instrs {
				if _, acq, ok := l.opOf(x); ok && !acq && instrReaches(x, in) {
					released = true
				}
			}
		}
		if !released {
			m = e
		}
	}
	return m
}

func c17RunD3Cache(c *Ctx, a *c17Anchors) {
	w := c.W
	if a.ri == nil || a.point == nil {
		return
	}
	ci := c17CachesMemo(c, a)
	riName := "rendezvous.RotationInterval"
	if ci == nil || len(ci.cacheFields) < 2 || ci.topicF < 0 || ci.rotF < 0 || ci.topicF == ci.rotF {
		c.undecided("D3", riName+" caches", a.ri.Obj().Pos(), "cannot identify the topic cache (looked up by PointForTopic) and the rotation cache (looked up by PointForRotation) among the map[string]*Point fields of RotationInterval")
		return
	}
	cfg := provCfg{W: w, InlineResults: true}
	var refSig string
	if a.rotAcc != nil {
		for _, r := range returnsOf(a.rotAcc) {
			refSig = c17EncSig(rootsOf(cfg, retResults(r)[0]))
		}
	}
	if a.rotAcc == nil || refSig == "" {
		c.undecided("D3", "rendezvous.(*Point).RotationTopic", token.NoPos, "exported method Point.RotationTopic (the textual form of a rotation value) not found or not an encoding of the rotation bytes")
	}
	// ---- keys of every store into the caches; pairing
	nUpd := 0
	for _, fn := range ci.funcs {
		c.analysed(fn)
		upd := map[int][]c17Access{}
		for _, ac := range ci.acc[fn] {
			if ac.Kind == "other" {
				c.undecided("D3", fnName(fn)+"+"+ci.fname(ac.Field), posOf(ac.Instr), "the cache map is used in a way that is not modelled (%T)", ac.Instr)
			}
			if ac.Kind != "update" {
				continue
			}
			nUpd++
			upd[ac.Field] = append(upd[ac.Field], ac)
			construct := fnName(fn) + "+" + ci.fname(ac.Field) + "[key]"
			vp, ok := accessPath(ac.Val)
			if !ok {
				// a point built here: name it by its constructor call
				vp = ""
			}
			rs := rootsOf(cfg, ac.Key)
			switch ac.Field {
			case ci.topicF:
				want := "param:" + vp + "." + a.fTopic
				if vp != "" && rs[want] && !c17HasRoot(rs, func(k string) bool { return k == "param:"+vp+"."+a.fRot }) {
					c.ok("D3", construct, posOf(ac.Instr), "the topic cache is keyed by the stored point's own topic")
				} else if vp == "" {
					c.undecided("D3", construct, posOf(ac.Instr), "the stored point is not a parameter or captured value: key/value agreement is not modelled")
				} else {
					c.fail("D3", construct, posOf(ac.Instr), "the topic cache entry is keyed by {%s}, not by the topic of the point stored under it: PointForTopic finds nothing or another topic's point", c17Brief(rs))
				}
			case ci.rotF:
				want := "param:" + vp + "." + a.fRot
				switch {
				case vp == "":
					c.undecided("D3", construct, posOf(ac.Instr), "the stored point is not a parameter or captured value: key/value agreement is not modelled")
				case !rs[want] || rs["param:"+vp+"."+a.fTopic]:
					c.fail("D3", construct, posOf(ac.Instr), "the rotation cache entry is keyed by {%s}, not by the rotation value of the point stored under it: rotation values received from peers do not map back to the topic", c17Brief(rs))
				case refSig != "" && c17EncSig(rs) != refSig:
					c.fail("D3", construct, posOf(ac.Instr), "the rotation cache key is encoded with {%s} but Point.RotationTopic uses {%s}: lookups by rotation value miss", c17EncSig(rs), refSig)
				default:
					c.ok("D3", construct, posOf(ac.Instr), "the rotation cache is keyed by the stored point's own encoded rotation value")
				}
			default:
				c.undecided("D3", construct, posOf(ac.Instr), "store into a point cache that neither PointForTopic nor PointForRotation reads")
			}
		}
		if len(upd) > 0 {
			construct := fnName(fn) + "+register"
			paired := true
			why := ""
			for _, pair := range [][2]int{{ci.topicF, ci.rotF}, {ci.rotF, ci.topicF}} {
				for _, u := range upd[pair[0]] {
					found := false
					for _, v := range upd[pair[1]] {
						if v.Val == u.Val && c17AlsoExecutes(u.Instr, v.Instr) {
							found = true
						}
					}
					if !found {
						paired = false
						why = fmt.Sprintf("a point is stored in %s without being stored in %s on the same path", ci.fname(pair[0]), ci.fname(pair[1]))
					}
				}
			}
			if paired {
				c.ok("D3", construct, fn.Pos(), "every point stored in one cache is stored in the other on the same path")
			} else {
				c.fail("D3", construct, fn.Pos(), "%s: the point resolves by topic but its rotation value is refused (or the reverse)", why)
			}
		}
	}
	if nUpd == 0 {
		c.undecided("D3", riName+" caches", a.ri.Obj().Pos(), "no store into the point caches found")
	}
	// ---- raw-rotation lookups encode like the registration
	for _, fn := range a.lookups {
		hasBytes := false
		for _, p := range fn.Params[1:] {
			if c17IsByteSlice(p.Type()) {
				hasBytes = true
			}
		}
		if !hasBytes {
			continue
		}
		construct := fnName(fn) + "+encoding"
		var keys []ssa.Value
		for _, b := range fn.Blocks {
			for _, in := range b.Instrs {
				if call, ok := in.(*ssa.Call); ok {
					if callee := staticCallee(call.Common()); callee != nil {
						for _, l := range a.lookups {
							if l == callee && l != fn {
								for i, p := range callee.Params {
									if i > 0 && c17IsString(p.Type()) && i < len(call.Common().Args) {
										keys = append(keys, call.Common().Args[i])
									}
								}
							}
						}
					}
				}
			}
		}
		for _, ac := range ci.acc[fn] {
			if ac.Kind == "lookup" && ac.Field == ci.rotF {
				keys = append(keys, ac.Key)
			}
		}
		if len(keys) == 0 {
			c.undecided("D3", construct, fn.Pos(), "the lookup by raw rotation value neither reads the rotation cache nor delegates to a lookup by string")
			continue
		}
		okAll := true
		msg := ""
		for _, k := range keys {
			rs := rootsOf(provCfg{W: w, InlineResults: true}, k)
			if sig := c17EncSig(rs); sig != refSig {
				okAll = false
				msg = fmt.Sprintf("raw rotation values are turned into cache keys with {%s} but registered points are keyed with {%s}: every received rotation value is refused", sig, refSig)
			}
			if !c17HasRoot(rs, func(r string) bool { return strings.HasPrefix(r, "param:") && r != "param:"+fn.Params[0].Name() }) {
				okAll = false
				msg = "the cache key does not derive from the raw rotation value given"
			}
		}
		c.check(okAll, "D3", construct, fn.Pos(), "raw rotation values are encoded exactly like the keys of registered points", msg)
	}
	// ---- deletes: only in timer callbacks, only the rotation entry of the stale point
	callbacks := map[*ssa.Function]ssa.CallInstruction{}
	for _, fn := range w.ModFuncs {
		if p := fnPkg(fn); p == nil || p.Path() != c17PkgRdv {
			continue
		}
		for _, call := range callsIn(fn, keyIs(c17KeyAFun)) {
			args := call.Common().Args
			if len(args) != 2 {
				continue
			}
			var cb *ssa.Function
			switch f := args[1].(type) {
			case *ssa.MakeClosure:
				cb, _ = f.Fn.(*ssa.Function)
			case *ssa.Function:
				cb = f
			}
			if cb == nil {
				continue
			}
			touches := false
			for f := range w.reachableFuncs([]*ssa.Function{cb}, 2) {
				if len(ci.acc[f]) > 0 {
					touches = true
					callbacks[f] = call
				}
			}
			if !touches {
				continue
			}
			callbacks[cb] = call
			clamped := false
			if mc, isCall := args[0].(*ssa.Call); isCall && calleeKey(mc.Common()) == "builtin.min" {
				for _, ma := range mc.Common().Args {
					if d, ok := constInt(ma); ok && d <= 0 {
						clamped = true
					}
				}
			}
			if d, ok := constInt(args[0]); ok && d <= 0 {
				c.fail("D3", fnName(fn)+"+AfterFunc.delay", posOf(call), "the clean-up of the previous rotation value is scheduled with a constant delay of %d: the previous value is dropped at once instead of after the grace period", d)
			} else if clamped {
				c.fail("D3", fnName(fn)+"+AfterFunc.delay", posOf(call), "the clean-up delay is min(..., 0), never positive: the previous rotation value is dropped at once instead of after the grace period")
			} else {
				c.ok("D3", fnName(fn)+"+AfterFunc.delay", posOf(call), "the clean-up is deferred by a computed delay")
			}
		}
	}
	nDel := 0
	for _, fn := range ci.funcs {
		for _, ac := range ci.acc[fn] {
			if ac.Kind != "delete" {
				continue
			}
			nDel++
			construct := fnName(fn) + "+delete(" + ci.fname(ac.Field) + ")"
			_, inCallback := callbacks[fn]
			sync := false
			if !inCallback {
				// reachable synchronously from a lookup or the registration?
				roots := append([]*ssa.Function{}, a.lookups...)
				roots = append(roots, w.lookupMethod(c17PkgRdv, "RotationInterval", "RegisterRotation"))
				if _, ok := w.reachableFuncs(roots, 6)[fn]; ok {
					sync = true
				}
			}
			switch {
			case ac.Field == ci.topicF && (inCallback || sync):
				c.fail("D3", construct, posOf(ac.Instr), "the rotation clean-up removes the topic entry: once it runs the topic no longer resolves (PointForTopic fails for a registered topic)")
			case sync:
				c.fail("D3", construct, posOf(ac.Instr), "a rotation entry is deleted synchronously on the lookup/rotation path: the peer's previous rotation value is refused immediately instead of being accepted during the grace period")
			case !inCallback:
				c.note("%s deletes from %s outside the rotation path (not checked)", fnName(fn), ci.fname(ac.Field))
				nDel--
			case ac.Key == nil:
				c.fail("D3", construct, posOf(ac.Instr), "the clean-up clears the whole rotation cache")
			default:
				// the replaced point may reach the clean-up through parameters of unexported helpers:
				// follow them to the call sites
				// (only for the fresh-point test: the encoding signature is taken locally)
				rs := rootsOf(provCfg{W: w, InlineResults: true}, ac.Key)
				rsUp := rootsOf(provCfg{W: w, InlineResults: true, FollowCallers: true, MaxDepth: 4}, ac.Key)
				fresh := c17HasRoot(rs, c17FreshRoot) || c17HasRoot(rsUp, c17FreshRoot)
				// the point whose key is deleted, resolved through receiver fields of method values,
				// captured variables and parameters to where it was built
				viaValue := ""
				if pt := a.pointOfKey(ac.Key, 0); pt != nil {
					for _, res := range newC17Resolver(w).val(pt, fn, 0) {
						if rc, ok := res.V.(*ssa.Call); ok {
							if f := staticCallee(rc.Common()); f != nil && (f == a.newPoint || f == a.nextPoint) {
								fresh = true
								viaValue = fnName(f) + "() in " + fnName(res.At)
							}
						}
					}
				}
				// a rotation value of some point: a parameter/receiver path ending in the rotation field,
				// or the result of the exported rotation accessors
				stale := c17HasRoot(rs, func(k string) bool {
					if strings.HasPrefix(k, "param:") && strings.HasSuffix(k, "."+a.fRot) {
						return true
					}
					return (strings.HasPrefix(k, "via:") || strings.HasPrefix(k, "call:")) && (strings.HasSuffix(k, ").RotationTopic") || strings.HasSuffix(k, ").RawRotationTopic"))
				})
				switch {
				case fresh:
					c.fail("D3", construct, posOf(ac.Instr), "the clean-up deletes the rotation entry of the point built by the rotation (key <- {%s}): after the delay the current rotation value is refused", c17Brief(rs)+"; through callers: "+c17FreshNames(rsUp)+" "+viaValue)
				case !stale:
					c.fail("D3", construct, posOf(ac.Instr), "the clean-up key does not derive from the rotation value of the replaced point (key <- {%s})", c17Brief(rs))
				case refSig != "" && c17EncSig(rs) != refSig:
					c.fail("D3", construct, posOf(ac.Instr), "the clean-up key is encoded with {%s}, registered keys with {%s}: stale entries are never removed", c17EncSig(rs), refSig)
				default:
					c.ok("D3", construct, posOf(ac.Instr), "the delayed clean-up removes exactly the rotation entry of the replaced point")
				}
			}
		}
	}
	// ---- locks
	if ci.muF < 0 {
		c.undecided("D3", riName+" mutex", a.ri.Obj().Pos(), "RotationInterval does not have exactly one mutex field")
		return
	}
	lk := &c17Locks{a: a, ci: ci, w: w, local: map[*ssa.Function]map[ssa.Instruction]int{}, entry: map[*ssa.Function]int{}, busy: map[*ssa.Function]bool{}}
	// one obligation per function that takes a cache map out of the RotationInterval (the
	// accesses themselves may sit in helpers that receive the map)
	byOrigin := map[*ssa.Function][]c17Access{}
	var origins []*ssa.Function
	for _, fn := range ci.funcs {
		for _, ac := range ci.acc[fn] {
			if _, ok := byOrigin[ac.Origin]; !ok {
				origins = append(origins, ac.Origin)
			}
			byOrigin[ac.Origin] = append(byOrigin[ac.Origin], ac)
		}
	}
	sort.Slice(origins, func(i, j int) bool { return origins[i].String() < origins[j].String() })
	for _, fn := range origins {
		bad := ""
		n := 0
		for _, ac := range byOrigin[fn] {
			n++
			held := lk.heldAt(ac.Instr)
			need := 1
			if ac.Write {
				need = 2
			}
			if held < need {
				mode := map[int]string{0: "no lock", 1: "only the read lock"}[held]
				bad = fmt.Sprintf("%s of %s at %s with %s held on %s", ac.Kind, ci.fname(ac.Field), c.pos(posOf(ac.Instr)), mode, ci.fname(ci.muF))
			}
		}
		c.check(bad == "", "D3", fnName(fn)+"+lock", fn.Pos(), fmt.Sprintf("%d cache accesses, all with %s held in the required mode", n, ci.fname(ci.muF)), bad+": lookups, rotations and the clean-up timer run concurrently, the map access races")
	}
}

// ---------------------------------------------------------------------------
// D4: head-exchange marshaler agreement

const c17KeyProtoUnmarshal = "google.golang.org/protobuf/proto.Unmarshal"

func (a *c17Anchors) lookupCalls(fn *ssa.Function) []*ssa.Call {
	var out []*ssa.Call
	for _, b := range fn.Blocks {
		for _, in := range b.Instrs {
			call, ok := in.(*ssa.Call)
			if !ok {
				continue
			}
			callee := staticCallee(call.Common())
			for _, l := range a.lookups {
				if callee == l {
					out = append(out, call)
				}
			}
		}
	}
	return out
}

// c17Guard: the error of call is rejected on every path (A3) and no success return bypasses
// its nil side (A2).
func c17Guard(c *Ctx, fn *ssa.Function, call *ssa.Call) (bool, string) {
	ev := errVerdict(call)
	if ev == nil {
		return false, "the error result is discarded"
	}
	r := rejectOnFailure(fn, ev)
	if !r.OK {
		return false, r.Why + " (" + describeReturns(c, r.Returns) + ")"
	}
	if by := bypassReturns(fn, edgesOfVerdict(ev).Accept, []ssa.Value{ev}); len(by) > 0 {
		return false, "a success return at " + describeReturns(c, by) + " is reachable without the lookup having succeeded"
	}
	return true, ""
}

// c17PointOf: the point value (result 0) of a lookup call that v is, looking through phis of
// the same value and conversions.
func c17IsPointOf(v ssa.Value, call *ssa.Call) bool {
	v = stripConv(v)
	if ex, ok := v.(*ssa.Extract); ok {
		return ex.Tuple == ssa.Value(call) && ex.Index == 0
	}
	if phi, ok := v.(*ssa.Phi); ok {
		for _, e := range phi.Edges {
			if !c17IsPointOf(e, call) {
				return false
			}
		}
		return len(phi.Edges) > 0
	}
	return false
}

// c17SeedEqualEdges: the CFG edges of fn taken when a comparison found the seed of a cached
// point (Point.Seed()) equal to seed.
func c17SeedEqualEdges(a *c17Anchors, fn *ssa.Function, seed ssa.Value) map[edge]bool {
	out := map[edge]bool{}
	var polarity func(cond ssa.Value, depth int) (equalOnTrue, ok bool)
	polarity = func(cond ssa.Value, depth int) (bool, bool) {
		if depth > 4 {
			return false, false
		}
		involves := func(vs ...ssa.Value) bool {
			seen := map[ssa.Value]bool{}
			for _, v := range vs {
				c17CondSlice(v, nil, seen)
			}
			hasSeedAcc, hasSeed := false, false
			for v := range seen {
				if call, ok := v.(*ssa.Call); ok && a.seedAcc != nil && staticCallee(call.Common()) == a.seedAcc {
					hasSeedAcc = true
				}
				if stripConv(v) == stripConv(seed) {
					hasSeed = true
				}
			}
			return hasSeedAcc && hasSeed
		}
		switch x := cond.(type) {
		case *ssa.UnOp:
			if x.Op == token.NOT {
				e, ok := polarity(x.X, depth+1)
				return !e, ok
			}
		case *ssa.Call:
			k := calleeKey(x.Common())
			if (k == "bytes.Equal" || k == "crypto/subtle.ConstantTimeCompare" || k == "slices.Equal") && involves(x.Common().Args...) {
				return true, k != "crypto/subtle.ConstantTimeCompare"
			}
		case *ssa.BinOp:
			if (x.Op == token.EQL || x.Op == token.NEQ) && involves(x.X, x.Y) {
				if call, ok := x.X.(*ssa.Call); ok && calleeKey(call.Common()) == "crypto/subtle.ConstantTimeCompare" {
					if n, isC := constInt(x.Y); isC && n == 1 {
						return x.Op == token.EQL, true
					}
					return false, false
				}
				if c17IsString(x.X.Type()) {
					return x.Op == token.EQL, true
				}
			}
		}
		return false, false
	}
	for _, b := range fn.Blocks {
		ifi, ok := b.Instrs[len(b.Instrs)-1].(*ssa.If)
		if !ok {
			continue
		}
		if eq, ok := polarity(ifi.Cond, 0); ok {
			if eq {
				out[edge{b, b.Succs[0]}] = true
			} else {
				out[edge{b, b.Succs[1]}] = true
			}
		}
	}
	return out
}

// c17ExecutesUnless: every execution of u is followed (or preceded) by v, except along cut edges.
func c17ExecutesUnless(u, v ssa.Instruction, cut map[edge]bool) bool {
	if instrDominates(v, u) {
		return true
	}
	if u.Block() == v.Block() {
		return instrDominates(u, v)
	}
	seen := map[*ssa.BasicBlock]bool{}
	type item struct{ from, to *ssa.BasicBlock }
	var stack []item
	for _, s := range u.Block().Succs {
		stack = append(stack, item{u.Block(), s})
	}
	if len(stack) == 0 {
		return false
	}
	for len(stack) > 0 {
		it := stack[len(stack)-1]
		stack = stack[:len(stack)-1]
		if cut[edge{it.from, it.to}] || seen[it.to] || it.to == v.Block() {
			continue
		}
		seen[it.to] = true
		if len(it.to.Succs) == 0 {
			if _, isRet := it.to.Instrs[len(it.to.Instrs)-1].(*ssa.Return); isRet && isSuccessReturn(it.to.Instrs[len(it.to.Instrs)-1].(*ssa.Return)) {
				return false
			}
			continue
		}
		for _, s := range it.to.Succs {
			stack = append(stack, item{it.to, s})
		}
	}
	return true
}

func c17CheckRegistrationAlways(c *Ctx, a *c17Anchors, fn *ssa.Function, rot, key []*ssa.Call, regRot *ssa.Function) {
	construct := fnName(fn) + "+RegisterRotation.always"
	seedIdx := -1
	for i, p := range regRot.Params {
		if i > 0 && c17IsByteSlice(p.Type()) {
			seedIdx = i
		}
	}
	bad := ""
	for _, kc := range key {
		covered := false
		for _, rc := range rot {
			cut := map[edge]bool{}
			if seedIdx >= 0 && seedIdx < len(rc.Common().Args) {
				cut = c17SeedEqualEdges(a, fn, rc.Common().Args[seedIdx])
			}
			if c17ExecutesUnless(kc, rc, cut) {
				covered = true
			}
		}
		if !covered {
			bad = c.pos(posOf(kc))
		}
	}
	c.check(bad == "", "D4", construct, posOf(rot[0]),
		"whenever the shared key of a topic is registered the rotation seed is registered too (or the cached seed was compared equal)",
		"the shared key registered at "+bad+" overwrites the previous one on every open, but a successful return is reachable from there without RegisterRotation (and without a comparison that found the cached point's seed equal to the current one): a topic first opened with another link key keeps resolving with the old seed, the node computes points no other member computes")
}

// c17Chains: the call sites leading from root to host (host first), depth <= 2; nil when host
// is root.
func c17Chains(w *World, root, host *ssa.Function) [][]callSite {
	if root == host {
		return nil
	}
	var out [][]callSite
	cg := w.callGraph()
	for _, cs := range cg.callers[host] {
		if cs.Caller == root {
			out = append(out, []callSite{cs})
			continue
		}
		for _, cs2 := range cg.callers[cs.Caller] {
			if cs2.Caller == root {
				out = append(out, []callSite{cs, cs2})
			}
		}
	}
	return out
}

// c17ParamIsRootBytes: parameter par of host is, on every chain, handed down unchanged from a
// []byte parameter of the root function (the received payload).
func c17ParamIsRootBytes(host *ssa.Function, par *ssa.Parameter, chains [][]callSite) bool {
	if len(chains) == 0 {
		return c17IsByteSlice(par.Type())
	}
	for _, ch := range chains {
		cur, fn := par, host
		for _, cs := range ch {
			idx := -1
			for i, p := range fn.Params {
				if p == cur {
					idx = i
				}
			}
			args := cs.Instr.Common().Args
			if idx < 0 || idx >= len(args) {
				return false
			}
			up, ok := stripConv(args[idx]).(*ssa.Parameter)
			if !ok {
				return false
			}
			cur, fn = up, cs.Caller
		}
		if !c17IsByteSlice(cur.Type()) {
			return false
		}
	}
	return true
}

func c17RunD4(c *Ctx, a *c17Anchors) {
	w := c.W
	marshal := w.lookupMethod(pkgRoot, "OrbitDBMessageMarshaler", "Marshal")
	unmarshal := w.lookupMethod(pkgRoot, "OrbitDBMessageMarshaler", "Unmarshal")
	headsT := namedType(w, pkgTypes, "OrbitDBMessageHeads")
	if marshal == nil || marshal.Blocks == nil || unmarshal == nil || unmarshal.Blocks == nil || headsT == nil || len(a.lookups) == 0 {
		c.undecided("D4", "weshnet.OrbitDBMessageMarshaler", token.NoPos, "Marshal/Unmarshal of OrbitDBMessageMarshaler, protocoltypes.OrbitDBMessageHeads or the rendezvous lookups not found")
		return
	}
	cfg := provCfg{W: w, InlineResults: true}
	// ---------------- Marshal
	c.analysed(marshal)
	mn := fnName(marshal)
	mcalls := a.lookupCalls(marshal)
	if len(mcalls) == 0 {
		c.undecided("D4", mn+"+lookup", marshal.Pos(), "Marshal does not resolve a rendezvous point through an exported lookup of RotationInterval in its own body")
	}
	for _, call := range mcalls {
		callee := staticCallee(call.Common())
		args := call.Common().Args
		if len(args) == 2 {
			pr := paramRoots(rootsOf(cfg, args[1]), marshal)
			fromAddr := false
			for _, r := range pr {
				if strings.HasSuffix(r, ".Address") && !strings.HasPrefix(r, "p0") {
					fromAddr = true
				}
			}
			c.check(fromAddr, "D4", mn+"+lookup.topic", posOf(call), "the point is resolved for the address of the exchanged store", fmt.Sprintf("the point is resolved for %v, not for the address of the message being sent: the receiver maps the rotation value to another topic or refuses it", pr))
		}
		okg, why := c17Guard(c, marshal, call)
		c.check(okg, "D4", mn+"+lookup.err", posOf(call), "a failed lookup makes Marshal fail", "error of "+callee.Name()+" not enforced: "+why)
		// the RawRotation field of the outgoing message
		var stores []*ssa.Store
		for _, b := range marshal.Blocks {
			for _, in := range b.Instrs {
				st, ok := in.(*ssa.Store)
				if !ok {
					continue
				}
				fa, ok := st.Addr.(*ssa.FieldAddr)
				if !ok {
					continue
				}
				pt, ok := fa.X.Type().Underlying().(*types.Pointer)
				if !ok || !types.Identical(pt.Elem(), headsT) {
					continue
				}
				if headsT.Underlying().(*types.Struct).Field(fa.Field).Name() == "RawRotation" {
					stores = append(stores, st)
				}
			}
		}
		if len(stores) == 0 {
			c.fail("D4", mn+"+RawRotation", marshal.Pos(), "Marshal never sets OrbitDBMessageHeads.RawRotation: the receiver cannot map the message to a topic")
		}
		for _, st := range stores {
			v := stripConv(st.Val)
			okv, msg := false, ""
			if vc, isCall := v.(*ssa.Call); isCall {
				f := staticCallee(vc.Common())
				switch {
				case f != nil && f == a.rawRotAcc && len(vc.Common().Args) == 1 && c17IsPointOf(vc.Common().Args[0], call):
					okv = true
				case f != nil && f == a.rawRotAcc:
					msg = "RawRotation is the rotation value of a point other than the one resolved for the message address"
				case f != nil:
					msg = "RawRotation is filled from " + fnName(f) + " instead of the resolved point's raw rotation value"
				}
			}
			if !okv && msg == "" {
				rs := rootsOf(cfg, st.Val)
				if c17HasRoot(rs, func(k string) bool { return strings.HasSuffix(k, ").RawRotationTopic") }) && !c17HasRoot(rs, func(k string) bool {
					return strings.HasSuffix(k, ").RawTopic") || strings.HasSuffix(k, ").Seed") || strings.HasSuffix(k, ").Topic")
				}) {
					okv = true
				} else {
					msg = fmt.Sprintf("RawRotation is filled from {%s}, not from the resolved point's raw rotation value", c17Brief(rs))
				}
			}
			c.check(okv, "D4", mn+"+RawRotation", posOf(st), "the message carries the raw rotation value of the point resolved for its address", msg+": the receiver refuses the message or maps it to another topic")
		}
	}
	// ---------------- Unmarshal
	c.analysed(unmarshal)
	un := fnName(unmarshal)
	// the lookup may sit in Unmarshal itself or in a module function it calls (depth <= 2)
	hosts := []*ssa.Function{unmarshal}
	if len(a.lookupCalls(unmarshal)) == 0 {
		hosts = nil
		for f, d := range w.reachableFuncs([]*ssa.Function{unmarshal}, 2) {
			if p := fnPkg(f); d > 0 && p != nil && p.Path() == pkgRoot && len(a.lookupCalls(f)) > 0 {
				hosts = append(hosts, f)
			}
		}
		sort.Slice(hosts, func(x, y int) bool { return hosts[x].String() < hosts[y].String() })
	}
	if len(hosts) == 0 {
		c.undecided("D4", un+"+lookup", unmarshal.Pos(), "Unmarshal does not resolve the received rotation value through an exported lookup of RotationInterval, neither in its own body nor in a module function it calls (depth 2)")
	}
	for _, host := range hosts {
		c.analysed(host)
		chains := c17Chains(w, unmarshal, host)
		where := ""
		if host != unmarshal {
			where = " (in " + fnName(host) + ")"
			if len(chains) == 0 {
				c.undecided("D4", un+"+lookup", host.Pos(), "cannot trace the calls from Unmarshal to %s", fnName(host))
				continue
			}
		}
		for _, call := range a.lookupCalls(host) {
			callee := staticCallee(call.Common())
			args := call.Common().Args
			var headAlloc ssa.Value
			if len(args) == 2 {
				okSrc, msg := false, "the value looked up is not read from the decoded message"
				if lp, ok := accessPathLocal(args[1]); ok && lp.Path == ".RawRotation" {
					if pt, isP := lp.Base.Type().Underlying().(*types.Pointer); isP && types.Identical(pt.Elem(), headsT) {
						// decoded from the payload parameter?
						for _, u := range callsIn(host, keyIs(c17KeyProtoUnmarshal)) {
							ua := u.Common().Args
							if len(ua) == 2 && stripConv(ua[1]) == lp.Base {
								if par, isPar := ua[0].(*ssa.Parameter); isPar && instrDominates(u, call) && c17ParamIsRootBytes(host, par, chains) {
									okSrc = true
									headAlloc = lp.Base
								}
							}
						}
						if !okSrc {
							msg = "the message whose RawRotation is looked up is not decoded from the received payload before the lookup"
						}
					}
				} else if ok {
					msg = "the lookup uses field " + lp.Path + " of the decoded message instead of RawRotation"
				}
				c.check(okSrc, "D4", un+"+lookup.rotation", posOf(call), "the rotation value looked up is the RawRotation of the message decoded from the payload"+where, msg+where)
			}
			okg, why := c17Guard(c, host, call)
			// the failure must travel up to Unmarshal's own result
			for _, ch := range chains {
				for _, cs := range ch {
					if !okg {
						break
					}
					site, isCall := cs.Instr.(*ssa.Call)
					if !isCall {
						okg, why = false, "the function resolving the rotation value is started with go/defer: its error cannot reach Unmarshal"
						break
					}
					if g, gw := c17Guard(c, cs.Caller, site); !g {
						okg, why = false, "the error returned by "+fnName(staticCallee(site.Common()))+" is not enforced in "+fnName(cs.Caller)+": "+gw
					}
				}
			}
			c.check(okg, "D4", un+"+lookup.err", posOf(call), "an unknown rotation value makes Unmarshal fail on every path", "error of "+callee.Name()+" not enforced, a rotation value of an unknown topic or another seed is accepted: "+why)
			// the box is opened under the resolved point's topic
			found := false
			for _, b := range host.Blocks {
				for _, in := range b.Instrs {
					oc, ok := in.(*ssa.Call)
					if !ok || oc == call {
						continue
					}
					takesBox := false
					for _, ar := range oc.Common().Args {
						if lp, ok := accessPathLocal(ar); ok && lp.Path == ".SealedBox" && (headAlloc == nil || lp.Base == headAlloc) {
							takesBox = true
						}
					}
					if !takesBox {
						continue
					}
					nStr, nGood := 0, 0
					bad := ""
					for _, ar := range oc.Common().Args {
						if !c17IsString(ar.Type()) {
							continue
						}
						if _, isConst := ar.(*ssa.Const); isConst {
							continue
						}
						nStr++
						if tc, isCall := stripConv(ar).(*ssa.Call); isCall && staticCallee(tc.Common()) == a.topicAcc && len(tc.Common().Args) == 1 && c17IsPointOf(tc.Common().Args[0], call) {
							nGood++
							continue
						}
						// other strings are tolerated when they come from the marshaler itself
						pr := paramRoots(rootsOf(cfg, ar), host)
						foreign := len(pr) == 0
						for _, r := range pr {
							if !strings.HasPrefix(r, "p0") {
								foreign = true
							}
						}
						if foreign {
							bad = fmt.Sprintf("%v", pr)
						}
					}
					if nStr == 0 {
						continue
					}
					found = true
					c.check(nGood >= 1 && bad == "", "D4", un+"+open.topic", posOf(oc), "the sealed box is opened with the key registered for the resolved point's topic", "the sealed box is opened under a topic that is not the resolved point's ("+bad+"): the rotation value is not mapped back to its topic")
				}
			}
			if !found {
				c.undecided("D4", un+"+open.topic", posOf(call), "no call in Unmarshal takes the decoded SealedBox together with a topic: the way the box key is selected is not modelled")
			}
		}
	}
	// ---------------- registration: rotation, shared key and group under one topic
	regRot := w.lookupMethod(c17PkgRdv, "RotationInterval", "RegisterRotation")
	regKey := w.lookupMethod(pkgRoot, "OrbitDBMessageMarshaler", "RegisterSharedKeyForTopic")
	if regRot == nil || regKey == nil {
		c.undecided("D4", "registration", token.NoPos, "RotationInterval.RegisterRotation or OrbitDBMessageMarshaler.RegisterSharedKeyForTopic not found")
		return
	}
	n := 0
	for _, fn := range w.ModFuncs {
		var rot, key []*ssa.Call
		for _, b := range fn.Blocks {
			for _, in := range b.Instrs {
				if call, ok := in.(*ssa.Call); ok {
					switch staticCallee(call.Common()) {
					case regRot:
						rot = append(rot, call)
					case regKey:
						key = append(key, call)
					}
				}
			}
		}
		if len(rot) == 0 || fnPkg(fn).Path() == c17PkgRdv {
			continue
		}
		n++
		c.analysed(fn)
		construct := fnName(fn) + "+RegisterRotation.topic"
		if len(key) == 0 {
			c.undecided("D4", construct, posOf(rot[0]), "the function registers a rotation but no shared key: topic agreement with the marshaler is not modelled")
			continue
		}
		pc := provCfg{W: w}
		okAll := true
		msg := ""
		for _, rc := range rot {
			var topicArg ssa.Value
			for i, p := range regRot.Params {
				if c17IsString(p.Type()) && i < len(rc.Common().Args) {
					topicArg = rc.Common().Args[i]
				}
			}
			if topicArg == nil {
				okAll, msg = false, "RegisterRotation has no string topic parameter"
				continue
			}
			rt := rootsOf(pc, topicArg).String()
			for _, kc := range key {
				if len(kc.Common().Args) < 2 {
					continue
				}
				kt := rootsOf(pc, kc.Common().Args[1]).String()
				if kt != rt {
					okAll = false
					msg = fmt.Sprintf("the rotation is registered for topic <- {%s} but the shared key for topic <- {%s}: Unmarshal resolves the rotation value to a topic that has no key", rt, kt)
				}
			}
		}
		c.check(okAll, "D4", construct, posOf(rot[0]), "rotation and shared key are registered under the same topic", msg)
		// the seed is (re)registered whenever the shared key is: both come from the link key of the
		// group being opened, the key registration overwrites, so a skipped rotation registration
		// leaves the topic resolving with the seed of an earlier open. Skipping is harmless only on
		// the side of a comparison that found the cached point's seed equal to the current one.
		c17CheckRegistrationAlways(c, a, fn, rot, key, regRot)
	}
	if n == 0 {
		c.undecided("D4", "registration", token.NoPos, "no module function registers a rotation")
	}
}

// ---------------------------------------------------------------------------
// D5: clock-driven rebuild sites outside the caches (swiper loops, NextPoint): a point is
// rebuilt for time.Now() on the side of an expiry test where its deadline has passed.

// c17ExpiryTest: cond is a test of "the deadline of a point has passed"; expiredOnTrue tells
// which outcome means expired.
func (a *c17Anchors) expiryTest(cond ssa.Value, depth int) (expiredOnTrue, ok bool) {
	if depth > 4 {
		return false, false
	}
	isNow := func(v ssa.Value) bool {
		call, ok := v.(*ssa.Call)
		return ok && calleeKey(call.Common()) == "time.Now"
	}
	isDeadline := func(v ssa.Value) bool {
		call, ok := v.(*ssa.Call)
		return ok && a.deadline != nil && staticCallee(call.Common()) == a.deadline
	}
	switch x := cond.(type) {
	case *ssa.UnOp:
		if x.Op == token.NOT {
			e, ok := a.expiryTest(x.X, depth+1)
			return !e, ok
		}
	case *ssa.Call:
		cc := x.Common()
		if f := staticCallee(cc); f != nil && f == a.isExpired {
			return true, true
		}
		key := calleeKey(cc)
		if (key == "(time.Time).After" || key == "(time.Time).Before") && len(cc.Args) == 2 {
			after := key == "(time.Time).After"
			switch {
			case isNow(cc.Args[0]) && isDeadline(cc.Args[1]):
				return after, true // now.After(deadline): expired
			case isDeadline(cc.Args[0]) && isNow(cc.Args[1]):
				return !after, true // deadline.Before(now): expired
			}
		}
	case *ssa.BinOp:
		ttl := func(v ssa.Value) bool {
			call, ok := v.(*ssa.Call)
			return ok && a.ttl != nil && staticCallee(call.Common()) == a.ttl
		}
		zero := func(v ssa.Value) bool { n, ok := constInt(v); return ok && n == 0 }
		op := x.Op
		l, r := x.X, x.Y
		if zero(l) && ttl(r) { // 0 < ttl  ==  ttl > 0
			l, r = r, l
			op = map[token.Token]token.Token{token.LSS: token.GTR, token.LEQ: token.GEQ, token.GTR: token.LSS, token.GEQ: token.LEQ}[op]
		}
		if ttl(l) && zero(r) {
			switch op {
			case token.LSS, token.LEQ:
				return true, true
			case token.GTR, token.GEQ:
				return false, true
			}
		}
	}
	return false, false
}

// c17ReachAvoiding: blocks reachable from start without entering avoid or one of its
// dominators (re-entering a dominator of the test means the next loop iteration, where the
// test is evaluated again).
func c17ReachAvoiding(start, avoid *ssa.BasicBlock) map[*ssa.BasicBlock]bool {
	seen := map[*ssa.BasicBlock]bool{}
	if start.Dominates(avoid) {
		return seen
	}
	stack := []*ssa.BasicBlock{start}
	seen[start] = true
	for len(stack) > 0 {
		b := stack[len(stack)-1]
		stack = stack[:len(stack)-1]
		for _, n := range b.Succs {
			if !n.Dominates(avoid) && !seen[n] {
				seen[n] = true
				stack = append(stack, n)
			}
		}
	}
	return seen
}

func c17RunD5(c *Ctx, a *c17Anchors) {
	if a.newPoint == nil {
		return // reported by D3
	}
	w := c.W
	n := 0
	for _, fn := range w.ModFuncs {
		var sites []*ssa.Call
		for _, b := range fn.Blocks {
			for _, in := range b.Instrs {
				call, ok := in.(*ssa.Call)
				if !ok || staticCallee(call.Common()) != a.newPoint {
					continue
				}
				// only the sites that (re)build for the clock
				for i, p := range a.newPoint.Params {
					if c17IsTime(p.Type()) && i < len(call.Common().Args) {
						if rootsOf(provCfg{W: w}, call.Common().Args[i])["call:time.Now"] {
							sites = append(sites, call)
						}
					}
				}
			}
		}
		if len(sites) == 0 {
			continue
		}
		for _, b := range fn.Blocks {
			ifi, ok := b.Instrs[len(b.Instrs)-1].(*ssa.If)
			if !ok {
				continue
			}
			expOnTrue, ok := a.expiryTest(ifi.Cond, 0)
			if !ok {
				continue
			}
			expSucc, liveSucc := b.Succs[0], b.Succs[1]
			if !expOnTrue {
				expSucc, liveSucc = liveSucc, expSucc
			}
			fromExp, fromLive := c17ReachAvoiding(expSucc, b), c17ReachAvoiding(liveSucc, b)
			for _, site := range sites {
				if !fromExp[site.Block()] && !fromLive[site.Block()] {
					continue // this test does not guard this site
				}
				c.analysed(fn)
				// one obligation per user: an unexported helper holding the test stands for each of
				// the functions that call it
				users := []*ssa.Function{fn}
				if obj := fn.Object(); obj != nil && !obj.Exported() && fn.Parent() == nil {
					seenU := map[*ssa.Function]bool{}
					var callers []*ssa.Function
					for _, cs := range w.callGraph().callers[fn] {
						if !seenU[cs.Caller] {
							seenU[cs.Caller] = true
							callers = append(callers, cs.Caller)
						}
					}
					if len(callers) > 0 {
						sort.Slice(callers, func(i, j int) bool { return callers[i].String() < callers[j].String() })
						users = callers
					}
				}
				for _, u := range users {
					n++
					construct := fnName(u) + "+rebuild"
					via := ""
					if u != fn {
						via = " (test in " + fnName(fn) + ")"
					}
					// rebuilding a live point for the clock yields the same period's point and is
					// harmless; keeping an expired one is the defect
					if !fromExp[site.Block()] {
						c.fail("D5", construct, posOf(ifi), "the point is rebuilt for the clock only while its deadline is still in the future and kept once it has passed: after the period ends the peer keeps announcing/watching the stale point%s", via)
					} else {
						c.ok("D5", construct, posOf(ifi), "the point is rebuilt for the current period when its deadline has passed%s", via)
					}
				}
			}
		}
	}
	c.count("clock_rebuild_sites", n)
}

// ---------------------------------------------------------------------------
// D6: consumers of a lookup by rotation value keep the grace period. The lookup returns the
// CURRENT point when the value asked for belongs to an expired period (that is how a previous
// rotation value stays accepted), so a consumer that rejects because the returned point's
// rotation value differs from the value it looked up refuses every previous-period value.

// c17CondSlice: the values the condition is computed from, inside fn, not looking into stop.
func c17CondSlice(v ssa.Value, stop ssa.Value, seen map[ssa.Value]bool) {
	if v == nil || seen[v] {
		return
	}
	seen[v] = true
	if v == stop {
		return
	}
	if ex, ok := v.(*ssa.Extract); ok && ex.Tuple == stop {
		return
	}
	in, ok := v.(ssa.Instruction)
	if !ok {
		return
	}
	var ops [12]*ssa.Value
	for _, op := range in.Operands(ops[:0]) {
		if op != nil && *op != nil {
			c17CondSlice(*op, stop, seen)
		}
	}
	// memory read through a local: the values stored into it
	if ld, isLoad := v.(*ssa.UnOp); isLoad && ld.Op == token.MUL {
		if al, isAlloc := ld.X.(*ssa.Alloc); isAlloc && al.Referrers() != nil {
			for _, r := range *al.Referrers() {
				if st, isStore := r.(*ssa.Store); isStore && st.Addr == ssa.Value(al) {
					c17CondSlice(st.Val, stop, seen)
				}
			}
		}
	}
}

// c17ReadsRotation: fn (or a module function it calls, depth 2) reads the rotation value of
// its parameter idx through the exported accessors.
func (a *c17Anchors) readsRotation(w *World, fn *ssa.Function, idx int, depth int) bool {
	if fn == nil || fn.Blocks == nil || idx >= len(fn.Params) || depth > 2 {
		return false
	}
	par := ssa.Value(fn.Params[idx])
	for _, b := range fn.Blocks {
		for _, in := range b.Instrs {
			call, ok := in.(*ssa.Call)
			if !ok {
				continue
			}
			f := staticCallee(call.Common())
			for i, arg := range call.Common().Args {
				if stripConv(arg) != par {
					continue
				}
				if f != nil && (f == a.rawRotAcc || f == a.rotAcc) {
					return true
				}
				if f != nil && inModule(f) && a.readsRotation(w, f, i, depth+1) {
					return true
				}
			}
		}
	}
	return false
}

func c17SameKey(v, key ssa.Value) bool {
	v, key = stripConv(v), stripConv(key)
	if v == key {
		return true
	}
	lv, ok1 := accessPathLocal(v)
	lk, ok2 := accessPathLocal(key)
	return ok1 && ok2 && lv.Base == lk.Base && lv.Path == lk.Path
}

func c17RunD6(c *Ctx, a *c17Anchors) {
	w := c.W
	if a.ri == nil || a.point == nil || len(a.lookups) == 0 {
		return // reported by D3
	}
	ci := c17CachesMemo(c, a)
	if ci == nil || ci.rotF < 0 {
		c.undecided("D6", "rendezvous lookups by rotation value", token.NoPos, "the rotation cache could not be identified (see D3)")
		return
	}
	byRotation := map[*ssa.Function]bool{}
	for _, l := range a.lookups {
		reach := w.reachableFuncs([]*ssa.Function{l}, 2)
		for f := range reach {
			for _, ac := range ci.acc[f] {
				if _, ok := reach[ac.Origin]; ok && ac.Kind == "lookup" && ac.Field == ci.rotF {
					byRotation[l] = true
				}
			}
		}
	}
	n := 0
	for _, fn := range w.ModFuncs {
		for _, b := range fn.Blocks {
			for _, in := range b.Instrs {
				call, ok := in.(*ssa.Call)
				if !ok {
					continue
				}
				callee := staticCallee(call.Common())
				if callee == nil || !byRotation[callee] || len(call.Common().Args) < 2 {
					continue
				}
				n++
				c.analysed(fn)
				key := call.Common().Args[1]
				construct := fnName(fn) + "->" + callee.Name() + "+grace"
				bad := ""
				nIf := 0
				for _, blk := range fn.Blocks {
					ifi, isIf := blk.Instrs[len(blk.Instrs)-1].(*ssa.If)
					if !isIf {
						continue
					}
					seen := map[ssa.Value]bool{}
					c17CondSlice(ifi.Cond, call, seen)
					usesRot, usesKey := false, false
					for v := range seen {
						if c17SameKey(v, key) {
							usesKey = true
						}
						vc, isCall := v.(*ssa.Call)
						if !isCall || vc == call {
							continue
						}
						f := staticCallee(vc.Common())
						for i, arg := range vc.Common().Args {
							if !c17IsPointOf(arg, call) {
								continue
							}
							if f != nil && (f == a.rawRotAcc || f == a.rotAcc) {
								usesRot = true
							} else if f != nil && inModule(f) && a.readsRotation(w, f, i, 0) {
								usesRot = true
								// the helper receives the key too?
								for _, other := range vc.Common().Args {
									if c17SameKey(other, key) {
										usesKey = true
									}
								}
							}
						}
					}
					if !usesRot || !usesKey {
						continue
					}
					nIf++
					// does one side only fail while the other can succeed?
					sides := [2]struct{ ret, succ int }{}
					for i := 0; i < 2; i++ {
						region := reachFromEdges([]edge{{blk, blk.Succs[i]}}, nil)
						for _, r := range returnsOf(fn) {
							if region[r.Block()] {
								sides[i].ret++
								if isSuccessReturn(r) {
									sides[i].succ++
								}
							}
						}
					}
					for i := 0; i < 2; i++ {
						if sides[i].ret > 0 && sides[i].succ == 0 && sides[1-i].succ > 0 && errResultIndex(fn.Signature) >= 0 {
							bad = c.pos(posOf(ifi))
						}
					}
				}
				if bad != "" {
					c.fail("D6", construct, posOf(call), "after the lookup succeeded the function fails (test at %s) when the returned point's rotation value differs from the value it looked up; %s returns the current point for a value of the previous period, so every message carrying the peer's previous rotation value is refused: the grace period is lost on this path", bad, callee.Name())
				} else {
					c.ok("D6", construct, posOf(call), "no failure depends on comparing the returned point's rotation value with the value looked up (%d such comparisons, none rejecting)", nIf)
				}
			}
		}
	}
	if n == 0 {
		c.undecided("D6", "rendezvous lookups by rotation value", token.NoPos, "no module call site of a lookup by rotation value found")
	}
	c.count("rotation_lookup_consumers", n)
}

// ---------------------------------------------------------------------------
// D7: consumers inside a renewal loop use the point current in that iteration. A loop that
// renews a point (constructor, NextPoint or a lookup called inside a CFG cycle) and hands a
// rotation topic to the discovery service (exported methods of tinder.Service taking a
// topic, directly, through a module helper, or through a struct field another function
// passes on) must compute that topic from the renewed point, not from a value fixed outside
// the loop: otherwise the peer keeps advertising / watching the first period's point.

const c17PkgTinder = modulePath + "/pkg/tinder"

type c17Sinks struct {
	a      *c17Anchors
	w      *World
	params map[*ssa.Function]map[int]bool // module function -> string parameters that reach a topic sink
	fields map[string]bool                // "pkg.Type#idx": fields whose value is passed to a topic sink
}

// isServiceTopicArg: call is an exported method of *tinder.Service; returns the indices of its
// string arguments.
func c17ServiceTopicArgs(cc *ssa.CallCommon) []int {
	f := staticCallee(cc)
	if f == nil || f.Signature.Recv() == nil || !isNamed(f.Signature.Recv().Type(), c17PkgTinder, "Service") {
		return nil
	}
	if obj := f.Object(); obj == nil || !obj.Exported() {
		return nil
	}
	var out []int
	for i, arg := range cc.Args {
		if i > 0 && c17IsString(arg.Type()) {
			out = append(out, i)
		}
	}
	return out
}

func c17FieldKey(v ssa.Value) (string, bool) {
	ld, ok := v.(*ssa.UnOp)
	if ok && ld.Op == token.MUL {
		v = ld.X
	}
	fa, ok := v.(*ssa.FieldAddr)
	if !ok {
		return "", false
	}
	pt, ok := fa.X.Type().Underlying().(*types.Pointer)
	if !ok {
		return "", false
	}
	n, ok := pt.Elem().(*types.Named)
	if !ok || n.Obj().Pkg() == nil {
		return "", false
	}
	return fmt.Sprintf("%s.%s#%d", n.Obj().Pkg().Path(), n.Obj().Name(), fa.Field), true
}

func c17FindSinks(a *c17Anchors, w *World) *c17Sinks {
	s := &c17Sinks{a: a, w: w, params: map[*ssa.Function]map[int]bool{}, fields: map[string]bool{}}
	mark := func(fn *ssa.Function, v ssa.Value) bool {
		v = stripConv(v)
		changed := false
		// a parameter captured by a closure is spilled to a cell: look through it
		if ld, ok := v.(*ssa.UnOp); ok && ld.Op == token.MUL {
			if al, ok := ld.X.(*ssa.Alloc); ok && al.Referrers() != nil {
				for _, r := range *al.Referrers() {
					if st, ok := r.(*ssa.Store); ok && st.Addr == ssa.Value(al) {
						if _, isPar := st.Val.(*ssa.Parameter); isPar {
							v = st.Val
						}
					}
				}
			}
		}
		for i, p := range fn.Params {
			if v == ssa.Value(p) {
				if s.params[fn] == nil {
					s.params[fn] = map[int]bool{}
				}
				if !s.params[fn][i] {
					s.params[fn][i] = true
					changed = true
				}
			}
		}
		if ld, ok := v.(*ssa.UnOp); ok && ld.Op == token.MUL {
			if k, ok := c17FieldKey(ld); ok && !s.fields[k] {
				s.fields[k] = true
				changed = true
			}
		}
		return changed
	}
	for iter, changed := 0, true; changed && iter < 4; iter++ {
		changed = false
		for _, fn := range w.ModFuncs {
			if p := fnPkg(fn); p == nil || p.Path() == c17PkgTinder {
				continue
			}
			for _, b := range fn.Blocks {
				for _, in := range b.Instrs {
					ci, ok := in.(ssa.CallInstruction)
					if !ok {
						continue
					}
					for _, i := range s.sinkArgs(ci.Common()) {
						if mark(fn, ci.Common().Args[i]) {
							changed = true
						}
					}
				}
			}
		}
	}
	return s
}

// sinkArgs: the argument indices of the call that are handed to the discovery service as a topic.
func (s *c17Sinks) sinkArgs(cc *ssa.CallCommon) []int {
	if idx := c17ServiceTopicArgs(cc); len(idx) > 0 {
		return idx
	}
	f := staticCallee(cc)
	if f == nil {
		return nil
	}
	var out []int
	for i := range s.params[f] {
		if i < len(cc.Args) {
			out = append(out, i)
		}
	}
	sort.Ints(out)
	return out
}

// c17SCC: the blocks on a common cycle with b (empty when b is not in a loop).
func c17LoopOf(b *ssa.BasicBlock) map[*ssa.BasicBlock]bool {
	fwd := map[*ssa.BasicBlock]bool{}
	stack := append([]*ssa.BasicBlock(nil), b.Succs...)
	for len(stack) > 0 {
		x := stack[len(stack)-1]
		stack = stack[:len(stack)-1]
		if fwd[x] {
			continue
		}
		fwd[x] = true
		stack = append(stack, x.Succs...)
	}
	if !fwd[b] {
		return nil
	}
	bwd := map[*ssa.BasicBlock]bool{}
	stack = append(stack[:0], b.Preds...)
	for len(stack) > 0 {
		x := stack[len(stack)-1]
		stack = stack[:len(stack)-1]
		if bwd[x] {
			continue
		}
		bwd[x] = true
		stack = append(stack, x.Preds...)
	}
	out := map[*ssa.BasicBlock]bool{}
	for x := range fwd {
		if bwd[x] {
			out[x] = true
		}
	}
	return out
}

// c17DerivesFrom: v can carry a value computed from one of the target instructions; memory
// cells (locals, captured variables) are followed through every store to them in the function.
func c17DerivesFrom(v ssa.Value, targets map[ssa.Value]bool, seen map[ssa.Value]bool) bool {
	if v == nil || seen[v] {
		return false
	}
	seen[v] = true
	if targets[v] {
		return true
	}
	if ld, ok := v.(*ssa.UnOp); ok && ld.Op == token.MUL {
		var refs *[]ssa.Instruction
		switch cell := ld.X.(type) {
		case *ssa.Alloc:
			refs = cell.Referrers()
		case *ssa.FreeVar:
			refs = cell.Referrers()
		}
		if refs != nil {
			for _, r := range *refs {
				if st, ok := r.(*ssa.Store); ok && st.Addr == ld.X && c17DerivesFrom(st.Val, targets, seen) {
					return true
				}
			}
		}
		// a struct field: every store in this function to the same field of the same base
		if fa, ok := ld.X.(*ssa.FieldAddr); ok && fa.X.Referrers() != nil {
			for _, r := range *fa.X.Referrers() {
				if fa2, ok := r.(*ssa.FieldAddr); ok && fa2.X == fa.X && fa2.Field == fa.Field && fa2.Referrers() != nil {
					for _, r2 := range *fa2.Referrers() {
						if st, ok := r2.(*ssa.Store); ok && st.Addr == ssa.Value(fa2) && c17DerivesFrom(st.Val, targets, seen) {
							return true
						}
					}
				}
			}
		}
	}
	in, ok := v.(ssa.Instruction)
	if !ok {
		return false
	}
	var ops [12]*ssa.Value
	for _, op := range in.Operands(ops[:0]) {
		if op != nil && *op != nil && c17DerivesFrom(*op, targets, seen) {
			return true
		}
	}
	return false
}

// ---- D7 (b): the wait that paces a renewal loop ends at the point's deadline, not later.
// Known-bad shape: inside a renewal loop, a context deadline / timeout / sleep that is waited
// on in the loop is computed from the point's Deadline()/TTL() plus a positive duration (for
// example the grace period): the loop then stays on the ended period's point for that long.

// c17DurSign: the sign of a duration value when it is decided by constants (and by the
// initial value of a module package variable); ok=false when unknown.
func c17DurSign(w *World, v ssa.Value, depth int) (int, bool) {
	if depth > 6 {
		return 0, false
	}
	sg := func(n int64) int {
		switch {
		case n > 0:
			return 1
		case n < 0:
			return -1
		}
		return 0
	}
	switch x := v.(type) {
	case *ssa.Const:
		if n, ok := constInt(x); ok {
			return sg(n), true
		}
	case *ssa.Convert:
		return c17DurSign(w, x.X, depth+1)
	case *ssa.ChangeType:
		return c17DurSign(w, x.X, depth+1)
	case *ssa.UnOp:
		if x.Op == token.SUB {
			s, ok := c17DurSign(w, x.X, depth+1)
			return -s, ok
		}
		if g, isG := x.X.(*ssa.Global); isG && x.Op == token.MUL && g.Pkg != nil {
			// the value the package initializer gives it
			if init := g.Pkg.Func("init"); init != nil {
				var val ssa.Value
				n := 0
				for _, b := range init.Blocks {
					for _, in := range b.Instrs {
						if st, ok := in.(*ssa.Store); ok && st.Addr == ssa.Value(g) {
							val = st.Val
							n++
						}
					}
				}
				if n == 1 {
					return c17DurSign(w, val, depth+1)
				}
			}
		}
	case *ssa.BinOp:
		a, ok1 := c17DurSign(w, x.X, depth+1)
		b, ok2 := c17DurSign(w, x.Y, depth+1)
		if ok1 && ok2 {
			switch x.Op {
			case token.MUL:
				return a * b, true
			case token.ADD:
				if a >= 0 && b >= 0 {
					return sg(int64(a + b)), true
				}
				if a <= 0 && b <= 0 {
					return sg(int64(a + b)), true
				}
			}
		}
	}
	return 0, false
}

// c17LateBy: walks a time or duration expression back to Point.Deadline()/TTL(); reports
// whether a point's deadline is its base and whether a positive duration was added on the way.
func (a *c17Anchors) lateBy(w *World, v ssa.Value, depth int) (based, late bool, what string) {
	if depth > 8 || v == nil {
		return false, false, ""
	}
	switch x := v.(type) {
	case *ssa.Call:
		f := staticCallee(x.Common())
		if f != nil && (f == a.deadline || f == a.ttl) {
			return true, false, ""
		}
		args := x.Common().Args
		switch calleeKey(x.Common()) {
		case "(time.Time).Add":
			if len(args) == 2 {
				b, l, wh := a.lateBy(w, args[0], depth+1)
				if b {
					if s, ok := c17DurSign(w, args[1], 0); ok && s > 0 {
						return true, true, "Deadline().Add(positive duration)"
					}
				}
				return b, l, wh
			}
		case "time.Until":
			if len(args) == 1 {
				return a.lateBy(w, args[0], depth+1)
			}
		case "builtin.max", "builtin.min":
			for _, arg := range args {
				if b, l, wh := a.lateBy(w, arg, depth+1); b {
					return b, l, wh
				}
			}
		}
	case *ssa.BinOp:
		if x.Op == token.ADD || x.Op == token.SUB {
			for i, side := range []ssa.Value{x.X, x.Y} {
				other := x.Y
				if i == 1 {
					other = x.X
				}
				b, l, wh := a.lateBy(w, side, depth+1)
				if !b {
					continue
				}
				if s, ok := c17DurSign(w, other, 0); ok && (x.Op == token.ADD && s > 0 || x.Op == token.SUB && i == 0 && s < 0) {
					return true, true, "TTL() plus a positive duration"
				}
				return b, l, wh
			}
		}
	case *ssa.Convert:
		return a.lateBy(w, x.X, depth+1)
	case *ssa.Phi:
		for _, e := range x.Edges {
			if b, l, wh := a.lateBy(w, e, depth+1); b {
				return b, l, wh
			}
		}
	}
	return false, false, ""
}

func c17CheckRenewalWaits(c *Ctx, a *c17Anchors, fn *ssa.Function, loop map[*ssa.BasicBlock]bool) {
	w := c.W
	// channels received from inside the loop
	waited := map[ssa.Value]bool{}
	for lb := range loop {
		for _, in := range lb.Instrs {
			switch x := in.(type) {
			case *ssa.Select:
				for _, st := range x.States {
					waited[st.Chan] = true
				}
			case *ssa.UnOp:
				if x.Op == token.ARROW {
					waited[x.X] = true
				}
			}
		}
	}
	nBased := 0
	defer func() {
		if nBased == 0 {
			c.note("%s renews a rendezvous point in a loop but no wait in that loop is bounded by the point's deadline: the loop re-resolves only when something else ends the iteration (advisory, outside the decided clauses)", fnName(fn))
		}
	}()
	for lb := range loop {
		for _, in := range lb.Instrs {
			call, ok := in.(*ssa.Call)
			if !ok {
				continue
			}
			key := calleeKey(call.Common())
			args := call.Common().Args
			var expr ssa.Value
			isWait := false
			switch key {
			case "context.WithDeadline", "context.WithTimeout":
				if len(args) == 2 {
					expr = args[1]
					// is the derived context's Done() received from in this loop?
					for _, ex := range extractsOf(call, 0) {
						if ex.Referrers() == nil {
							continue
						}
						for _, r := range *ex.Referrers() {
							if dc, ok := r.(*ssa.Call); ok && dc.Common().IsInvoke() && dc.Common().Method.Name() == "Done" && waited[dc] {
								isWait = true
							}
						}
					}
				}
			case "time.Sleep":
				if len(args) == 1 {
					expr, isWait = args[0], true
				}
			case "time.After":
				if len(args) == 1 {
					expr, isWait = args[0], waited[call]
				}
			}
			if expr == nil || !isWait {
				continue
			}
			based, late, what := a.lateBy(w, expr, 0)
			if !based {
				continue
			}
			nBased++
			construct := fnName(fn) + "+renewal-wait"
			if late {
				c.fail("D7", construct, posOf(call), "the loop renews its point only after a wait (%s) that ends later than the point's deadline (%s): for that long after every period boundary the peer stays on the ended period's point; the grace period may extend what is accepted, never delay the own rotation", key, what)
			} else {
				c.ok("D7", construct, posOf(call), "the wait that paces the renewal loop ends at the point's deadline")
			}
		}
	}
}

func c17RunD7(c *Ctx, a *c17Anchors) {
	w := c.W
	if a.newPoint == nil {
		return // reported by D3
	}
	renewers := map[*ssa.Function]bool{a.newPoint: true}
	if a.nextPoint != nil {
		renewers[a.nextPoint] = true
	}
	for _, l := range a.lookups {
		renewers[l] = true
	}
	// module helpers that return a point they renew themselves (depth 2)
	for iter := 0; iter < 2; iter++ {
		for _, fn := range w.ModFuncs {
			if p := fnPkg(fn); p == nil || p.Path() == c17PkgRdv || renewers[fn] || fn.Signature.Results().Len() == 0 {
				continue
			}
			targets := map[ssa.Value]bool{}
			for _, b := range fn.Blocks {
				for _, in := range b.Instrs {
					if xc, ok := in.(*ssa.Call); ok && renewers[staticCallee(xc.Common())] {
						targets[xc] = true
					}
				}
			}
			if len(targets) == 0 {
				continue
			}
			for _, r := range returnsOf(fn) {
				for i, res := range retResults(r) {
					if isNamed(fn.Signature.Results().At(i).Type(), c17PkgRdv, "Point") && c17DerivesFrom(res, targets, map[ssa.Value]bool{}) {
						renewers[fn] = true
					}
				}
			}
		}
	}
	sinks := c17FindSinks(a, w)
	n := 0
	for _, fn := range w.ModFuncs {
		if p := fnPkg(fn); p == nil || p.Path() == c17PkgRdv || p.Path() == c17PkgTinder {
			continue
		}
		// renewal sites inside a loop
		handled := map[int]bool{}
		for _, b := range fn.Blocks {
			for _, in := range b.Instrs {
				rc, ok := in.(*ssa.Call)
				if !ok || !renewers[staticCallee(rc.Common())] {
					continue
				}
				loop := c17LoopOf(b)
				if loop == nil {
					continue
				}
				head := b.Index
				for lb := range loop {
					if lb.Index < head {
						head = lb.Index
					}
				}
				if handled[head] {
					continue
				}
				handled[head] = true
				targets := map[ssa.Value]bool{}
				for lb := range loop {
					for _, x := range lb.Instrs {
						if xc, ok := x.(*ssa.Call); ok && renewers[staticCallee(xc.Common())] {
							targets[xc] = true
						}
					}
				}
				c.analysed(fn)
				c17CheckRenewalWaits(c, a, fn, loop)
				// consumers in the same loop
				for lb := range loop {
					for _, x := range lb.Instrs {
						type use struct {
							v    ssa.Value
							what string
						}
						var uses []use
						switch u := x.(type) {
						case ssa.CallInstruction:
							for _, i := range sinks.sinkArgs(u.Common()) {
								name := calleeKey(u.Common())
								if f := staticCallee(u.Common()); f != nil {
									name = f.Name()
								}
								uses = append(uses, use{u.Common().Args[i], name})
							}
						case *ssa.Store:
							if k, ok := c17FieldKey(u.Addr); ok && sinks.fields[k] {
								fa := u.Addr.(*ssa.FieldAddr)
								st := fa.X.Type().Underlying().(*types.Pointer).Elem().Underlying().(*types.Struct)
								uses = append(uses, use{u.Val, "field " + st.Field(fa.Field).Name()})
							}
						}
						for _, us := range uses {
							n++
							construct := fnName(fn) + "+" + us.what
							if c17DerivesFrom(us.v, targets, map[ssa.Value]bool{}) {
								c.ok("D7", construct, posOf(x), "the topic handed to the discovery service is computed from the point renewed in this loop")
							} else {
								c.fail("D7", construct, posOf(x), "the loop renews its rendezvous point at each deadline, but the topic handed to %s is fixed outside the loop and does not derive from the renewed point: after the first period boundary the peer keeps using the previous period's point", us.what)
							}
						}
					}
				}
			}
		}
	}
	if n == 0 {
		c.undecided("D7", "renewal loops", token.NoPos, "no loop that renews a rendezvous point hands a topic to the discovery service")
	}
	c.count("renewal_loop_consumers", n)
}

func runC17(c *Ctx) {
	a := c17Find(c)
	defer c17RunD7(c, a)
	c17RunD1(c, a)
	c17RunD2(c, a)
	c17RunD3Eval(c, a)
	c17RunD3Cache(c, a)
	c17RunD4(c, a)
	c17RunD5(c, a)
	c17RunD6(c, a)
}
