package main

import (
	"fmt"
	"go/constant"
	"go/token"
	"go/types"
	"strings"

	"golang.org/x/tools/go/ssa"
)

func init() {
	register(&PropertyDef{
		ID:          "C02",
		Title:       "Receiver ratchet tolerates any arrival order and duplication of messages",
		Explanation: "Decides the structural clauses of the receiver ratchet from the SSA of pkg/secretstore: (D1) the stored chain key only moves forward (abstract evaluation of the updater over {new<stored,=,>}); (D2) registration is once-only: every write of registration (precomputed window, chain key) is dominated by the 'no chain key stored' outcome of the lookup, and the 'already registered' outcome returns success without any write; (D3) the window created at registration: the precompute loop, evaluated abstractly with window sizes 1..3, derives exactly window-size keys and returns the chain key at counter c+window, the window is persisted before returning, and the chain key stored by registration is that returned value; (D4) slide by one per newly opened message: the post-decryption step writes exactly one next key outside any loop, for the same counter value (stored+1) that it puts in the chain key it returns; (D5) re-reads keep working: key saved by CID before the precomputed key is deleted, the deleted key is the one at the opened header's counter, and the by-CID lookup is tried first with the precomputed lookup only on its miss side, keyed by the header's device and counter; (D6) the 'not registered yet' test that guards registration's writes is made under the same message lock as the writes (no test-then-lock-then-write). In D4/D5 the steps of the post-decryption function are its call sites or, when it runs a local table of closures by one forward loop over the whole table, entered once (`for _, step := range []func() error{...}` or `for i := 0; i < len(steps); i++`, statically known elements; recognised by c09Tables, which also adds the calls to the call graph), the elements of that table in table order; a table walked in any other way (reversed, strided, partial, inside an outer loop) counts as unordered and possibly repeated; values handed from one closure to the next through a captured variable, and parameters of the enclosing function read through a captured variable that is never reassigned, are followed. Not decided: the window inequality for all permutations with repetition (loop arithmetic over runtime history), one-wayness of the KDF.",
		Trusted:     []string{"go/ssa (x/tools v0.29.0)", "HKDF one-wayness", "effects identified by the namespace constants of pkg/secretstore"},
		Assumptions: []string{"the evaluator's window sizes 1..3 are representative of the loop's counting form (the loop body is the same for every size)"},
		Floors:      map[string]int{"D1": 4, "D2": 3, "D3": 7, "D4": 2, "D5": 4, "D6": 2},
		Borrows: []Borrow{
			{From: "C14", Rules: []string{"D1"}, Why: "opening a message through the push route must not consume its precomputed key or the chain key: the same envelope arriving through the log afterwards is inside the window and must open"},
			{From: "C09", Rules: []string{"D1"}, Why: "two envelopes sealed under one counter: the receiver opens one, which deletes the key of that counter, and the other can never be opened whatever the retries"},
			{From: "C08", Rules: []string{"D4", "D5"}, Why: "the property holds 'provided a message that fails is retried after others have been opened'; in the message store (an anchor of this property) that retry is the re-injection of the sender's whole parked queue after a registration and after every successful open"},
			{From: "C15", Rules: []string{"D6"}, Why: "that re-injection relies on the per-device queue handing over every parked item, lowest counter first"},
		},
		Run: runC02,
	})
}

// kdfFuncs: module functions that call hkdf.Expand (the chain KDF).
func kdfFuncs(w *World) map[*ssa.Function]bool {
	out := map[*ssa.Function]bool{}
	for _, fn := range w.ModFuncs {
		if fnPkg(fn).Path() == pkgSecret && len(callsIn(fn, keyIs("golang.org/x/crypto/hkdf.Expand"))) > 0 {
			// the message-chain KDF returns a 32-byte message key array
			for i := 0; i < fn.Signature.Results().Len(); i++ {
				if a, ok := fn.Signature.Results().At(i).Type().Underlying().(*types.Array); ok && a.Len() == 32 {
					out[fn] = true
				}
			}
		}
	}
	return out
}

func hasLoop(fn *ssa.Function) bool {
	for _, b := range fn.Blocks {
		for _, s := range b.Succs {
			if s.Dominates(b) {
				return true
			}
		}
	}
	return false
}

func inLoop(in ssa.Instruction) bool {
	b := in.Block()
	seen := map[*ssa.BasicBlock]bool{}
	stack := append([]*ssa.BasicBlock(nil), b.Succs...)
	for len(stack) > 0 {
		x := stack[len(stack)-1]
		stack = stack[:len(stack)-1]
		if seen[x] {
			continue
		}
		seen[x] = true
		if x == b {
			return true
		}
		stack = append(stack, x.Succs...)
	}
	return false
}

func runC02(c *Ctx) {
	w := c.W
	ei := w.effects()
	reg := secretStoreMethod(w, "RegisterChainKey")
	open := secretStoreMethod(w, "OpenEnvelopePayload")
	if reg == nil || open == nil {
		c.undecided("D1", "SecretStore", token.NoPos, "SecretStore.RegisterChainKey / OpenEnvelopePayload not found")
		return
	}
	getChain, putChain := eff("Get", nsChainKey), eff("Put", nsChainKey)
	putPre := func(e Effect) bool { return eff("Put", nsPrecomputed)(e) || e.Op == "Commit" }
	delPre := eff("Delete", nsPrecomputed)
	putByCID, getByCID, getPre := eff("Put", nsByCID), eff("Get", nsByCID), eff("Get", nsPrecomputed)

	// ---- D1 forward only
	checkMonotoneUpdaters(c, "D1")

	// ---- D2 register once
	regScope := w.reachableFuncs([]*ssa.Function{reg}, 6)
	var regFn *ssa.Function
	for _, fn := range sortedFuncs(regScope) {
		if len(ei.sitesWith(fn, getChain)) > 0 && len(ei.sitesWith(fn, putChain)) > 0 && len(ei.sitesWith(fn, putPre)) > 0 && fn != reg {
			// the innermost such function: prefer the one whose put sites are pure putters
			if regFn == nil || regScope[fn] > regScope[regFn] {
				regFn = fn
			}
		}
	}
	if regFn == nil {
		c.undecided("D2", "registration", reg.Pos(), "no function behind RegisterChainKey looks the chain key up and writes window and chain key")
	} else {
		c.analysed(regFn)
		guard := creationGuarded(w)
		for _, s := range ei.sitesIn(regFn) {
			if !(s.has(putChain) || s.has(putPre)) {
				continue
			}
			what := "chain key"
			if s.has(putPre) {
				what = "precomputed window"
			}
			c.check(guard(s.Instr.(ssa.Instruction)), "D2", fnName(regFn)+"+write:"+what+"@"+calleeLabel(s), posOf(s.Instr),
				"write happens only when no chain key is stored for this device", "registration writes the "+what+" even when a chain key is already stored: a repeated or older announcement rewinds the ratchet")
		}
		// D6: the test and the writes are one critical section. Known-bad shape: the write is
		// made under the message lock taken in this function, but the "not registered yet" test
		// that guards it was made before the lock was taken and is not repeated under it: two
		// registrations of one device both pass the test, and the second one overwrites (rewinds)
		// what the first one and later opens have written.
		class := messageLockClass(w)
		li := w.locks()
		for _, s := range ei.sitesIn(regFn) {
			if !(s.has(putChain) || s.has(putPre)) || class == "" {
				continue
			}
			in := s.Instr.(ssa.Instruction)
			if !li.localOf(regFn)[in].holds(class, 'W') {
				// not locked in this function: when every caller holds the lock over the whole call,
				// the test and the writes inside it are one critical section
				if li.heldAt(in).holds(class, 'W') {
					okTest := false
					for _, l := range ei.sitesWith(regFn, getChain) {
						v := errVerdict(l.Instr)
						if v == nil || !l.pureLookup() {
							continue
						}
						for _, e := range edgesOfVerdict(v).Reject {
							if edgeDominates(e, in.Block()) {
								okTest = true
							}
						}
					}
					c.check(okTest, "D6", fnName(regFn)+"+atomic-register@"+calleeLabel(s), posOf(s.Instr),
						"the 'not registered yet' test guarding this write is made in the same function, which every caller runs under "+class, "the write is not guarded by a 'not registered yet' test made inside the critical section (the function runs under "+class+" taken by its callers)")
				}
				continue // no lock at all here: D2 and C09.D3 judge the callers
			}
			okAtomic := false
			for _, l := range ei.sitesWith(regFn, getChain) {
				v := errVerdict(l.Instr)
				if v == nil || !l.pureLookup() || !li.localOf(regFn)[l.Instr.(ssa.Instruction)].holds(class, 'W') {
					continue
				}
				for _, e := range edgesOfVerdict(v).Reject {
					if edgeDominates(e, in.Block()) {
						okAtomic = true
					}
				}
			}
			c.check(okAtomic, "D6", fnName(regFn)+"+atomic-register@"+calleeLabel(s), posOf(s.Instr),
				"the 'not registered yet' test guarding this write is made under the same lock as the write", "registration tests 'already registered?' before taking "+class+" and writes after taking it without testing again: a concurrent second registration of the same device overwrites the ratchet state (rewind)")
		}
		// the hit side returns success without writes
		// (the outcome is the lookup's error, or the bool a lookup-only helper reports it with)
		for _, lk := range c02ChainKeyLookups(w, regFn) {
			g := lk.Site
			region := reachFromEdges(lk.Hit, nil)
			miss := reachFromEdges(lk.Miss, nil)
			okHit, sawRet := true, false
			for _, s := range ei.sitesIn(regFn) {
				if region[s.Instr.Block()] && !miss[s.Instr.Block()] && (s.has(putChain) || s.has(putPre) || s.has(delPre)) {
					okHit = false
				}
			}
			for _, r := range returnsOf(regFn) {
				if region[r.Block()] && !miss[r.Block()] {
					sawRet = true
					if !isSuccessReturn(r) {
						okHit = false
					}
				}
			}
			c.check(okHit && sawRet, "D2", fnName(regFn)+"+already-registered", posOf(g.Instr), "an already registered device is ignored: success, no write", "the 'already registered' outcome does not return success without writes")
		}
	}

	// ---- D3 window at registration
	windowFn := checkWindowFunction(c, "D3", regScope, reg)
	if windowFn != nil {
		// the chain key stored by registration is the window function's result
		if regFn != nil {
			found := false
			// possible values of an argument: through phis and through loads of a local cell
			// (named results are spilled to cells in functions with defer)
			var possible func(v ssa.Value, d int, out *[]ssa.Value)
			possible = func(v ssa.Value, d int, out *[]ssa.Value) {
				v = stripConv(v)
				*out = append(*out, v)
				if d > 4 {
					return
				}
				switch x := v.(type) {
				case *ssa.Phi:
					for _, e := range x.Edges {
						possible(e, d+1, out)
					}
				case *ssa.UnOp:
					if al, isAlloc := x.X.(*ssa.Alloc); isAlloc && x.Op == token.MUL && al.Referrers() != nil {
						for _, r := range *al.Referrers() {
							if st, isStore := r.(*ssa.Store); isStore && st.Addr == ssa.Value(al) {
								possible(st.Val, d+1, out)
							}
						}
					}
					// a variable of the enclosing function captured by a closure (withLock(func(){...}))
					if fv, isFree := x.X.(*ssa.FreeVar); isFree && x.Op == token.MUL && fv.Referrers() != nil {
						for _, r := range *fv.Referrers() {
							if st, isStore := r.(*ssa.Store); isStore && st.Addr == ssa.Value(fv) {
								possible(st.Val, d+1, out)
							}
						}
					}
				}
			}
			for _, s := range ei.sitesWith(regFn, putChain) {
				for _, a := range s.Instr.Common().Args {
					var vals []ssa.Value
					possible(a, 0, &vals)
					for _, v := range vals {
						if ex, ok := v.(*ssa.Extract); ok {
							if call, ok := ex.Tuple.(*ssa.Call); ok && staticCallee(call.Common()) == windowFn && ex.Index == 0 {
								found = true
							}
						}
					}
				}
			}
			c.check(found, "D3", fnName(regFn)+"+stores-window-result", regFn.Pos(), "registration stores the chain key returned by the window computation", "registration does not store the chain key produced by the window computation (stored counter and window disagree)")
		}
	}

	// ---- D4 slide by one
	openScope := w.reachableFuncs([]*ssa.Function{open}, 6)
	var post *ssa.Function
	for _, fn := range sortedFuncs(openScope) {
		// two distinct steps (two call sites, or two elements of a table of steps run by a loop)
		a, b := c02Steps(w, fn, putByCID), c02Steps(w, fn, delPre)
		if len(a) > 0 && len(b) > 0 && !(a[0].Instr == b[0].Instr && a[0].Seq == b[0].Seq) {
			post = fn
		}
	}
	if post == nil {
		c.undecided("D4", "post-decryption", open.Pos(), "no function on the open path saves the key by CID and deletes the precomputed key")
	} else {
		c.analysed(post)
		slides := c02Steps(w, post, putPre)
		okOne := len(slides) == 1 && !c02StepRepeats(slides[0])
		slideMsg := fmt.Sprintf("%d next-key writes per opened message (or inside a loop): the window does not slide by exactly one", len(slides))
		if len(slides) == 1 && slides[0].Table != nil {
			slideMsg = "the next-key write is a step of a table of closures that is not run exactly once, first element to last, by a forward loop over the whole table (range, or i := 0; i < len; i++) entered once: that the window slides by exactly one per opened message is not established"
		}
		c.check(okOne, "D4", fnName(post)+"+one-slide", post.Pos(), "exactly one next-key write per newly opened message", slideMsg)
		if len(slides) == 1 && slides[0].Callee != nil {
			// the function that slides (through the closure that wraps the step, if any)
			sl := slides[0].Callee
			if in := c02StepCalls(ei, slides[0], putPre); len(in) == 1 && in[0].Callee != nil {
				sl = in[0].Callee
			}
			c.analysed(sl)
			// all uint64 values derived from the stored counter that are stored into struct
			// fields in the slide function are the same value, and it is stored+1
			var vals []ssa.Value
			for _, b := range sl.Blocks {
				for _, in := range b.Instrs {
					st, ok := in.(*ssa.Store)
					if !ok {
						continue
					}
					if bt, ok := st.Val.Type().Underlying().(*types.Basic); !ok || bt.Kind() != types.Uint64 {
						continue
					}
					if _, isC := st.Val.(*ssa.Const); isC {
						continue
					}
					vals = append(vals, st.Val)
				}
			}
			same := len(vals) >= 2
			for _, v := range vals {
				if v != vals[0] || !isPlusOneOfCounter(v) {
					same = false
				}
			}
			c.check(same, "D4", fnName(sl)+"+same-counter", sl.Pos(), "the key written and the chain key returned are both at stored counter + 1", "the slide writes a key for a different counter than the chain key it returns (or not stored+1)")
			// result goes to the monotone updater for foreign devices
			ups := chainKeyUpdaters(w)
			fed := false
			for _, ps := range c02Steps(w, post, putChain) {
				for _, s := range c02StepCalls(ei, ps, putChain) {
					for _, u := range ups {
						if s.Callee != u {
							continue
						}
						for _, a := range s.Instr.Common().Args {
							// the argument, or any value the captured variable it is read from can hold
							for _, v := range c02PossibleValues(a) {
								if ex, ok := stripConv(v).(*ssa.Extract); ok {
									if call, ok := ex.Tuple.(*ssa.Call); ok && staticCallee(call.Common()) == sl {
										fed = true
									}
								}
							}
						}
					}
				}
			}
			c.check(fed, "D4", fnName(post)+"+advance", post.Pos(), "the slid chain key is handed to the monotone updater", "the chain key derived by the slide is not stored through the monotone updater")
		}
	}

	// ---- D5 re-reads keep working
	if post != nil {
		n := orderRule(c, "D5", "byCID<delete", map[*ssa.Function]int{post: 0}, putByCID, delPre, "Put[messageKeyForCIDs]", "Delete[precomputedMessageKeys]")
		if n == 0 {
			c.fail("D5", fnName(post)+"+byCID<delete", post.Pos(), "save-by-CID and delete are no longer distinct ordered writes")
		}
		for _, ps := range c02Steps(w, post, delPre) {
			okArg := false
			calls := c02StepCalls(ei, ps, delPre)
			for _, s := range calls {
				okThis := false
				for _, a := range s.Instr.Common().Args {
					if bt, ok := a.Type().Underlying().(*types.Basic); ok && bt.Kind() == types.Uint64 {
						if s.Instr.Parent() == post {
							rs := rootsOf(provCfg{W: w}, a)
							for _, r := range paramRoots(rs, post) {
								if strings.HasSuffix(r, ".Counter") {
									for i, p := range post.Params {
										if strings.HasPrefix(r, fmt.Sprintf("p%d.", i)) && isNamed(p.Type(), pkgTypes, "MessageHeaders") {
											okThis = true
										}
									}
								}
							}
						}
						// the call sits in a closure of the step table: the counter is read through the
						// captured (never reassigned) headers parameter of the enclosing function
						if base, path := c02PathOf(a); path == ".Counter" {
							if p, isPar := base.(*ssa.Parameter); isPar && p.Parent() == post && isNamed(p.Type(), pkgTypes, "MessageHeaders") {
								okThis = true
							}
						}
						if _, isBin := stripConv(a).(*ssa.BinOp); isBin {
							okThis = false
						}
					}
				}
				if !okThis {
					okArg = false
					break
				}
				okArg = true
			}
			c.check(okArg, "D5", fnName(post)+"+delete-counter", posOf(ps.Instr), "the deleted precomputed key is the one at the opened header's counter", "the precomputed key deleted after opening is not the one at the opened header's counter")
		}
	}
	nLookup := 0
	for _, fn := range sortedFuncs(openScope) {
		cids, pres := ei.sitesWith(fn, getByCID), ei.sitesWith(fn, getPre)
		if len(cids) == 0 || len(pres) == 0 || cids[0].Instr == pres[0].Instr {
			continue
		}
		nLookup++
		c.analysed(fn)
		for _, p := range pres {
			okSide := false
			for _, g := range cids {
				if v := errVerdict(g.Instr); v != nil {
					for _, e := range edgesOfVerdict(v).Reject {
						if edgeDominates(e, p.Instr.Block()) {
							okSide = true
						}
					}
				}
			}
			c.check(okSide, "D5", fnName(fn)+"+byCID-first", posOf(p.Instr), "the precomputed key is looked up only after the by-CID lookup missed", "the precomputed key is looked up without trying the by-CID key first: a re-read of an opened message fails once its precomputed key is gone")
			// keyed by the header's counter
			okKey := false
			for _, a := range p.Instr.Common().Args {
				if bt, ok := a.Type().Underlying().(*types.Basic); ok && bt.Kind() == types.Uint64 {
					if ap, ok := accessPath(a); ok && strings.HasSuffix(ap, ".Counter") {
						okKey = true
					}
				}
			}
			c.check(okKey, "D5", fnName(fn)+"+lookup-counter", posOf(p.Instr), "precomputed lookup keyed by the header's counter", "precomputed lookup is not keyed by the opened header's counter")
		}
	}
	if nLookup == 0 {
		c.undecided("D5", "lookup-order", open.Pos(), "no function on the open path performs both the by-CID and the precomputed lookup")
	}
}

// ---------- the 'is a chain key already stored?' lookup and its two outcomes ----------

// A c02Lookup is one site of fn that only looks the stored chain key up, with the CFG edges of
// fn taken on its two outcomes. Direct form: the site's error is the outcome (nil = a key is
// stored). Helper form: the site calls a module function that only looks up and reports the
// outcome as a bool result - begin(...) (key, alreadyRegistered bool, err error) - where inside
// the helper every `true` return lies on the hit side of its own lookup and every `false`
// success return on the miss side; the caller's edges are then those of its test of that bool,
// the miss side holding only where the helper's error was also found nil.
type c02Lookup struct {
	Site      effectSite
	Hit, Miss []edge
	AlsoNil   []edge // helper form: accepting edges of the helper's error (required with Miss)
	ViaHelper bool
}

func (l c02Lookup) missDominates(b *ssa.BasicBlock) bool {
	dom := func(es []edge) bool {
		for _, e := range es {
			if edgeDominates(e, b) {
				return true
			}
		}
		return false
	}
	return dom(l.Miss) && (!l.ViaHelper || dom(l.AlsoNil))
}

// c02OutcomeBool: h is a lookup helper in the sense above; returns the index of its bool result.
func c02OutcomeBool(w *World, h *ssa.Function, depth int) (int, bool) {
	if h == nil || h.Blocks == nil || !inModule(h) || depth > 1 || errResultIndex(h.Signature) < 0 {
		return -1, false
	}
	bi := -1
	for i := 0; i < h.Signature.Results().Len(); i++ {
		if isBoolType(h.Signature.Results().At(i).Type()) {
			if bi >= 0 {
				return -1, false
			}
			bi = i
		}
	}
	if bi < 0 {
		return -1, false
	}
	inner := c02ChainKeyLookupsAt(w, h, depth+1)
	if len(inner) == 0 {
		return -1, false
	}
	nTrue := 0
	for _, r := range returnsOf(h) {
		rr := retResults(r)
		if bi >= len(rr) {
			return -1, false
		}
		val, isC := constBool(rr[bi])
		if !isC {
			return -1, false
		}
		okSide := false
		for _, l := range inner {
			if val {
				for _, e := range l.Hit {
					if edgeDominates(e, r.Block()) {
						okSide = true
					}
				}
			} else if l.missDominates(r.Block()) {
				okSide = true
			}
		}
		switch {
		case val && !okSide:
			return -1, false
		case val:
			nTrue++
		case !okSide && isSuccessReturn(r):
			return -1, false
		}
	}
	return bi, nTrue > 0
}

// c02ChainKeyLookups: the pure chain-key lookups of fn with their outcome edges.
func c02ChainKeyLookups(w *World, fn *ssa.Function) []c02Lookup {
	return c02ChainKeyLookupsAt(w, fn, 0)
}

func c02ChainKeyLookupsAt(w *World, fn *ssa.Function, depth int) []c02Lookup {
	ei := w.effects()
	var out []c02Lookup
	for _, s := range ei.sitesWith(fn, eff("Get", nsChainKey)) {
		if !s.pureLookup() {
			continue
		}
		if bi, ok := c02OutcomeBool(w, s.Callee, depth); ok && !s.Direct {
			b := resultValue(s.Instr, bi)
			ev := errVerdict(s.Instr)
			if b == nil || ev == nil {
				continue // outcome discarded: neither side is known
			}
			be := edgesOfVerdict(b)
			out = append(out, c02Lookup{Site: s, Hit: be.Accept, Miss: be.Reject, AlsoNil: edgesOfVerdict(ev).Accept, ViaHelper: true})
			continue
		}
		v := errVerdict(s.Instr)
		if v == nil {
			continue
		}
		ve := edgesOfVerdict(v)
		out = append(out, c02Lookup{Site: s, Hit: ve.Accept, Miss: ve.Reject})
	}
	return out
}

// ---------- steps run from a local table of closures ----------

// c02Steps: the steps of fn that may perform e: its effect sites, a call through a local table
// of closures (c09Tables) being expanded into one step per element of the table (c10VirtualSites:
// the loop over the table is the sequence of its elements).
func c02Steps(w *World, fn *ssa.Function, e EffPred) []c10VSite {
	var out []c10VSite
	for _, v := range c10VirtualSites(w, fn) {
		if v.has(e) {
			out = append(out, v)
		}
	}
	return out
}

// c02StepRepeats: the step can run more than once per execution of its function: an ordinary
// site inside a loop; an element of a table that is not run by a forward loop over the whole
// table (range, or i := 0; i < len; i++: each element once, in order) or whose loop can be
// entered again (it sits in an outer loop). Reversed, strided and partial walks repeat or skip.
func c02StepRepeats(v c10VSite) bool {
	if v.Table == nil {
		return inLoop(v.Instr.(ssa.Instruction))
	}
	if !v.Table.Ordered {
		return true
	}
	// Ordered (c09TableCallOf): a forward walk over the whole table, start, stride and bound
	// checked there: the call is t[idx]() with idx = phi[-1, idx] + 1 (range loop) or
	// idx = phi[0, idx+1] (for i := 0; i < len(t); i++). What remains to be shown here is that the
	// loop is entered once: the constant start of the index comes from a block outside the loop
	// (the loop header is not inside another loop).
	ld, _ := v.Instr.Common().Value.(*ssa.UnOp)
	if ld == nil {
		return true
	}
	ia, _ := ld.X.(*ssa.IndexAddr)
	if ia == nil {
		return true
	}
	var phi *ssa.Phi
	var start int64
	switch idx := ia.Index.(type) {
	case *ssa.BinOp:
		phi, _ = idx.X.(*ssa.Phi)
		start = -1
	case *ssa.Phi:
		phi, start = idx, 0
	}
	if phi == nil || len(phi.Edges) != 2 {
		return true
	}
	hdr := phi.Block()
	fromHdr := map[*ssa.BasicBlock]bool{}
	for _, s := range hdr.Succs {
		for b := range reach(s, nil) {
			fromHdr[b] = true
		}
	}
	for i, e := range phi.Edges {
		if k, isC := constInt(e); isC && k == start && i < len(hdr.Preds) && !fromHdr[hdr.Preds[i]] {
			return false // entered once, from before the loop
		}
	}
	return true
}

// c02StepCalls: the call instruction(s) behind a step of the post-decryption function that
// perform e: the site itself, or - when the step is an element of a table of closures, i.e. a
// closure wrapping the step - the matching call(s) inside that closure.
func c02StepCalls(ei *effectInfo, s c10VSite, e EffPred) []effectSite {
	if s.Table == nil || s.Callee == nil {
		return []effectSite{s.effectSite}
	}
	return ei.sitesWith(s.Callee, e)
}

// c02CellRoot: the local variable behind addr: its Alloc, also when addr is the free variable
// through which a closure (of a closure ...) sees it.
func c02CellRoot(addr ssa.Value) *ssa.Alloc {
	for d := 0; d < 4; d++ {
		switch x := addr.(type) {
		case *ssa.Alloc:
			return x
		case *ssa.FreeVar:
			fn := x.Parent()
			par := fn.Parent()
			idx := -1
			for i, fv := range fn.FreeVars {
				if fv == x {
					idx = i
				}
			}
			if par == nil || idx < 0 {
				return nil
			}
			var bound ssa.Value
			for _, b := range par.Blocks {
				for _, in := range b.Instrs {
					if mc, ok := in.(*ssa.MakeClosure); ok && mc.Fn == ssa.Value(fn) && idx < len(mc.Bindings) {
						if bound != nil && bound != mc.Bindings[idx] {
							return nil
						}
						bound = mc.Bindings[idx]
					}
				}
			}
			if bound == nil {
				return nil
			}
			addr = bound
		default:
			return nil
		}
	}
	return nil
}

// c02CellStores: every value stored into the variable, by its own function or by a closure
// that captures it; ok is false when its address is used in any other way (then other writes
// cannot be excluded).
func c02CellStores(al *ssa.Alloc) (vals []ssa.Value, ok bool) {
	var visit func(addr ssa.Value, d int) bool
	visit = func(addr ssa.Value, d int) bool {
		if addr.Referrers() == nil || d > 4 {
			return false
		}
		for _, r := range *addr.Referrers() {
			switch u := r.(type) {
			case *ssa.Store:
				if u.Addr != addr {
					return false
				}
				vals = append(vals, u.Val)
			case *ssa.UnOp, *ssa.DebugRef:
			case *ssa.MakeClosure:
				f, isF := u.Fn.(*ssa.Function)
				if !isF {
					return false
				}
				for i, b := range u.Bindings {
					if b == addr && (i >= len(f.FreeVars) || !visit(f.FreeVars[i], d+1)) {
						return false
					}
				}
			default:
				return false
			}
		}
		return true
	}
	ok = visit(al, 0)
	return
}

// c02PossibleValues: v, and when v is read from a local variable (possibly one captured by the
// closure that reads it and written by a sibling closure) the values that variable can hold.
func c02PossibleValues(v ssa.Value) []ssa.Value {
	out := []ssa.Value{v}
	seen := map[ssa.Value]bool{v: true}
	for i := 0; i < len(out) && len(out) < 32; i++ {
		var next []ssa.Value
		switch x := stripConv(out[i]).(type) {
		case *ssa.Phi:
			next = x.Edges
		case *ssa.UnOp:
			if x.Op == token.MUL {
				if al := c02CellRoot(x.X); al != nil {
					if vals, ok := c02CellStores(al); ok {
						next = vals
					}
				}
			}
		}
		for _, n := range next {
			if !seen[n] {
				seen[n] = true
				out = append(out, n)
			}
		}
	}
	return out
}

// c02PathOf: v as a chain of field reads "base.f.g": returns the base value and the path. A
// read of a local variable that is assigned exactly once (a parameter captured by a closure is
// such a variable) is replaced by the value assigned.
func c02PathOf(v ssa.Value) (ssa.Value, string) {
	path := ""
	for d := 0; d < 16; d++ {
		v = stripConv(v)
		switch x := v.(type) {
		case *ssa.UnOp:
			if x.Op != token.MUL {
				return v, path
			}
			switch x.X.(type) {
			case *ssa.Alloc, *ssa.FreeVar:
				al := c02CellRoot(x.X)
				if al == nil {
					return v, path
				}
				vals, ok := c02CellStores(al)
				if !ok || len(vals) != 1 {
					return v, path
				}
				v = vals[0]
			default:
				v = x.X
			}
		case *ssa.FieldAddr:
			st := x.X.Type().Underlying().(*types.Pointer).Elem().Underlying().(*types.Struct)
			path = "." + st.Field(x.Field).Name() + path
			v = x.X
		case *ssa.Field:
			st := x.X.Type().Underlying().(*types.Struct)
			path = "." + st.Field(x.Field).Name() + path
			v = x.X
		case *ssa.Call:
			f := staticCallee(x.Common())
			if f == nil || !strings.HasPrefix(f.Name(), "Get") || len(x.Common().Args) != 1 || f.Signature.Recv() == nil {
				return v, path
			}
			path = "." + strings.TrimPrefix(f.Name(), "Get") + path
			v = x.Common().Args[0]
		default:
			return v, path
		}
	}
	return v, path
}

func calleeLabel(s effectSite) string {
	if s.Callee != nil {
		return s.Callee.Name()
	}
	return "direct"
}

// checkWindowFunction finds the function that precomputes the key window at registration and
// evaluates its loop abstractly for window sizes 1..3, both on a fresh store and on a store
// where the window's keys are already cached (a registration interrupted between the window
// commit and the chain-key write, then retried): in both cases it must derive exactly
// window-size keys and return the chain key at c+window — skipping a derivation for a cached
// key would leave the returned chain key un-ratcheted.
func checkWindowFunction(c *Ctx, rule string, regScope map[*ssa.Function]int, reg *ssa.Function) *ssa.Function {
	w := c.W
	ei := w.effects()
	putPre := func(e Effect) bool { return eff("Put", nsPrecomputed)(e) || e.Op == "Commit" }
	getPre := eff("Get", nsPrecomputed)
	kdf := kdfFuncs(w)
	var windowFn *ssa.Function
	for _, fn := range sortedFuncs(regScope) {
		if !hasLoop(fn) || len(ei.sitesWith(fn, putPre)) == 0 {
			continue
		}
		callsKDF := false
		for _, e := range w.callGraph().callees[fn] {
			if kdf[e.Callee] && inLoop(e.Site.(ssa.Instruction)) {
				callsKDF = true
			}
		}
		if callsKDF {
			windowFn = fn
		}
	}
	if windowFn == nil {
		c.undecided(rule, "window", reg.Pos(), "no function behind RegisterChainKey derives keys in a loop and stores them")
	} else {
		c.analysed(windowFn)
		dck := namedType(w, pkgTypes, "DeviceChainKey")
		cand := -1
		for i, p := range windowFn.Params {
			if pt, ok := p.Type().(*types.Pointer); ok && dck != nil && types.Identical(pt.Elem(), dck) {
				cand = i
			}
		}
		if cand < 0 {
			c.undecided(rule, fnName(windowFn), windowFn.Pos(), "window function has no *DeviceChainKey parameter")
		} else {
			for _, sc := range []struct {
				n      int64
				cached bool
			}{{1, false}, {2, false}, {3, false}, {2, true}, {3, true}} {
				n, cached := sc.n, sc.cached
				const c0 = 40
				ev := &Evaluator{W: w}
				ev.Cfg = EvalConfig{
					MaxDepth:  2,
					MaxVisits: int(n) + 3,
					Inline: func(f *ssa.Function) bool {
						// only trivial accessors of the store (no effects, no loops, no KDF)
						return fnPkg(f).Path() == pkgSecret && len(ei.summaryOf(f)) == 0 && !hasLoop(f) && !kdf[f] && len(f.Blocks) <= 4
					},
					Field: func(path string, t types.Type) (AVal, bool) {
						if b, ok := t.Underlying().(*types.Basic); ok {
							if b.Kind() == types.Int && !strings.HasPrefix(path, windowFn.Params[cand].Name()+".") {
								return aConst{V: constant.MakeInt64(n), T: t}, true
							}
							if strings.HasSuffix(path, ".Counter") && strings.HasPrefix(path, windowFn.Params[cand].Name()+".") {
								return aConst{V: constant.MakeInt64(c0), T: t}, true
							}
						}
						return nil, false
					},
					Call: func(e *Evaluator, st *pstate, key string, cc *ssa.CallCommon, args []AVal) ([]AVal, bool) {
						f := staticCallee(cc)
						if f == nil || !inModule(f) {
							return nil, false
						}
						if kdf[f] {
							res := topResults(f.Signature)
							if i := errResultIndex(f.Signature); i >= 0 {
								res[i] = aNil{}
							}
							return res, true
						}
						// lookups: nothing stored yet (fresh registration)
						sum := ei.summaryOf(f)
						onlyGets := len(sum) > 0
						for e2 := range sum {
							if e2.Op != "Get" && e2.Op != "Has" {
								onlyGets = false
							}
						}
						if onlyGets {
							res := topResults(f.Signature)
							hit := false
							if cached {
								// the window's keys survive from an interrupted registration; the chain key does not
								for e2 := range sum {
									if getPre(e2) {
										hit = true
									}
								}
							}
							for i := range res {
								if _, isPtr := f.Signature.Results().At(i).Type().Underlying().(*types.Pointer); isPtr {
									if hit {
										res[i] = aPtr{ID: e.newObj(st, "").ID}
									} else {
										res[i] = aNil{}
									}
								}
							}
							if i := errResultIndex(f.Signature); i >= 0 && hit {
								res[i] = aNil{}
							}
							return res, true
						}
						// stores succeed
						if len(sum) > 0 {
							res := topResults(f.Signature)
							if i := errResultIndex(f.Signature); i >= 0 {
								res[i] = aNil{}
							}
							return res, true
						}
						return nil, false
					},
					Interesting: func(key string, cc *ssa.CallCommon) bool {
						f := staticCallee(cc)
						return f != nil && kdf[f]
					},
				}
				outs := ev.Eval(windowFn, ev.SymbolicArgs(windowFn))
				construct := fmt.Sprintf("%s+window=%d", fnName(windowFn), n)
				if cached {
					construct += "+keys-already-cached"
				}
				nSucc, bad, trunc := 0, "", false
				for _, o := range outs {
					if o.Kind == "truncated" {
						trunc = true
						continue
					}
					if o.Kind != "return" || len(o.Results) == 0 {
						continue
					}
					if i := errResultIndex(windowFn.Signature); i >= 0 && i < len(o.Results) && isDefNonNil(o.Results[i]) {
						continue
					}
					nSucc++
					if debugOn() {
						fmt.Printf("DBG window n=%d outcome results=%v trace=%d\n", n, avString(aTuple{Elems: o.Results}), len(o.Trace))
						if p, ok := o.Results[0].(aPtr); ok && o.Heap[p.ID] != nil {
							fmt.Printf("   slots=%v\n", o.Heap[p.ID].Slots)
						}
					}
					if int64(len(o.Trace)) != n {
						bad = fmt.Sprintf("%d key derivations for a window of %d", len(o.Trace), n)
					}
					cv, ok := o.Slot(o.Results[0], ".Counter")
					cc, isC := cv.(aConst)
					if !ok || !isC {
						bad = "returned chain-key counter is not a function of the registered counter and the window size"
					} else if got, _ := constant.Int64Val(cc.V); got != c0+n {
						bad = fmt.Sprintf("returned chain key is at counter c+%d for a window of %d (must be c+window)", got-c0, n)
					}
				}
				switch {
				case trunc:
					c.undecided(rule, construct, windowFn.Pos(), "abstract evaluation of the precompute loop truncated: loop form not modelled")
				case nSucc == 0:
					c.undecided(rule, construct, windowFn.Pos(), "abstract evaluation found no success path through the precompute loop")
				default:
					c.check(bad == "", rule, construct, windowFn.Pos(), fmt.Sprintf("derives exactly %d keys and returns the chain key at c+%d", n, n), bad)
				}
			}
			// persisted before returning
			okP, by := ei.mustPerform(windowFn, putPre, nil, -1)
			c.check(okP, rule, fnName(windowFn)+"+persist", windowFn.Pos(), "the window is stored before the function succeeds", "the window function can succeed without storing the keys (returns at "+describeReturns(c, by)+")")
		}
	}
	return windowFn
}
