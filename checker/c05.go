package main

// C05 — Chain-key announcements: recipient-only, exact, and reaching every member.
//
// The rules are built on a small context-sensitive backward tracer (c05Tracer): it follows an
// SSA value back to its origins through locals, spilled variables, struct fields, maps, module
// callees (descending into their return values with a call-string context) and opaque library
// calls (passing through to their arguments and remembering the callee in Via). Origins keep
// the field path that was read from the root, so that "the device private key of the own
// member-device holder" and "field DestMemberPk of the decoded announcement" are
// distinguishable without relying on any unexported name.

import (
	"fmt"
	"go/constant"
	"go/token"
	"go/types"
	"sort"
	"strings"

	"golang.org/x/tools/go/ssa"
)

const (
	c05KeyBoxSeal  = "golang.org/x/crypto/nacl/box.Seal"
	c05KeyBoxOpen  = "golang.org/x/crypto/nacl/box.Open"
	c05KeyProtoU   = "google.golang.org/protobuf/proto.Unmarshal"
	c05KeySign     = "(github.com/libp2p/go-libp2p/core/crypto.PrivKey).Sign"
	c05KeyBusSub   = "(github.com/libp2p/go-libp2p/core/event.Bus).Subscribe"
	c05PkgLibp2pCr = "github.com/libp2p/go-libp2p/core/crypto"
)

func init() {
	register(&PropertyDef{
		ID:    "C05",
		Title: "Chain-key announcements: recipient-only, exact, and reaching every member",
		Explanation: "Decides structural necessary conditions from the type-checked SSA of /repo, using a context-sensitive backward origin tracer. " +
			"(D1) seal/open sibling agreement: the box.Seal behind SecretStore.GetShareableChainKey uses the own member-device holder's DEVICE private key (the key DeviceSign signs with) and the target-member parameter, the box.Open behind RegisterChainKey uses the holder's MEMBER private key (the key MemberSign signs with) and the sender-device parameter, both holders being obtained for the group parameter; both nonces derive from the group's public key and from nothing else, with the same origin signature on both sides; private/public keys go through the same conversion primitives on both sides; the opened bytes are the ciphertext parameter; box.Open failure and every error on the way up reject (a wrapper that returns the bool verdict of box.Open unchanged hands it on: its caller must then enforce it); what is registered is the decoded output of box.Open under the sender and group parameters, on every success path; GetShareableChainKey returns only box.Seal output. " +
			"(D2) the recipient filter - the root-package function taking (metadata, local public key) and returning an error from which a GroupDeviceChainKeyAdded is decoded, the decode, the event-type guard and the recipient test each living in that function or in a module helper (depth <= 2), decoded values possibly carried in a local struct built by a helper - returns sender key and ciphertext decoded from one GroupDeviceChainKeyAdded taken from the metadata payload, only on the accepting side of (event type == GroupDeviceChainKeyAdded) and of (local key Equals decoded DestMemberPk); a test made in a helper counts when all success returns of the helper pass it and every caller up to the filter enforces the helper's error. " +
			"(D3) every module call of RegisterChainKey takes sender and ciphertext from the results of one recipient-filter call (directly or through a map filled only with such results) which, looking through the filter and its helpers, are the DevicePk and the Payload of the decoded announcement; every use of the filter's results lies on the nil-error side of the filter call, and the filter is given the own MEMBER public key. " +
			"(D4) announce: the metadata-event handler behind ActivateGroupContext calls SendSecret on every success path of the GroupMemberDeviceAdded branch with the MemberPk decoded from the event; activation subscribes before it starts the catch-up, sends to every member listed and registers from the listed events, both unconditionally (every success return of the activation, and every return of each function or goroutine body on the way, is preceded by the SendSecret loop over the listed members and by the RegisterChainKey loop over the listed announcements; an error return of the activation itself is the only excuse; function values - closures, functions, method values - stored in a local table and handed to a module helper that calls the values derived from its parameter count as called at the helper call, and as unconditionally called only when every return of the helper is preceded by those calls); SendSecret seals for exactly the member it addresses (GetShareableChainKey target = DestMemberPk = its parameter), publishes the sealed bytes under the own device key and has no success return that skips publishing. " +
			"(D5) the set that SendSecret's 'already sent to this member' refusal reads is written only on the equal side of a comparison between the index's own DEVICE key and the DevicePk of the GroupDeviceChainKeyAdded event being indexed, keyed by that event's DestMemberPk, and is otherwise only initialised empty (an announcement by another device must never silence this device); the one other accepted writer is a reservation made by SendSecret itself (or a helper, depth <= 2) for its member parameter, provided every path of SendSecret from the reservation to a return that does not follow a successful publication passes a delete of that same key in that same set (a constant result chosen by a key-presence test, as in a check-and-mark helper, is recognised as reading the set). " +
			"(D6) in the get-or-create function behind GetShareableChainKey (the function that returns a *DeviceChainKey and both looks up and stores under the chain-key datastore namespace) every store site is dominated by a lookup made under the same write lock, held without release from the lookup to the store: the key that gets sealed is either the stored one or one registered in the critical section that found it missing. " +
			"(D7) the store-event subscriber of the metadata store (the function that opens log entries into *GroupMetadataEvent and emits them on the event bus, which is the only way the activated group context learns of GroupMemberDeviceAdded / GroupDeviceChainKeyAdded entries): the per-entry open call lies in a loop (in that function or, for a per-entry helper, around its call sites), no path from the failing side of the open call or of an Emit leaves that loop before its next iteration (return, break; a return from a callee that contains the loop counts), and every successfully opened entry reaches the Emit of its *GroupMetadataEvent before the next iteration: one unopenable entry must not suppress the events of the entries behind it. " +
			"Not decided: NaCl box secrecy/integrity and Ed25519->X25519 conversion correctness (trusted); that the sealed DeviceChainKey is the current one beyond D6 (C09/C10 cover the store discipline); replication and scheduling (that every device really holds every key at quiescence for all join orders and delivery plans); release of parked messages after registration (C08).",
		Trusted:     []string{"golang.org/x/tools go/packages+go/ssa (v0.29.0)", "golang.org/x/crypto/nacl/box semantics", "libp2p crypto key types", "go/types"},
		Assumptions: []string{"dependencies behave as documented; only module code is analysed", "interface calls to SecretStore/OwnMemberDevice resolve to the module implementations"},
		Floors:      map[string]int{"D1": 16, "D2": 5, "D3": 5, "D4": 10, "D5": 3, "D6": 1, "D7": 4},
		Run:         runC05,
	})
}

// ---------------------------------------------------------------------------
// tracer

type c05Frame struct {
	site  ssa.CallInstruction
	up    *c05Frame
	depth int
}

type c05Origin struct {
	Kind  string // param | call | written | const | zero | alloc | make | global | other
	Fn    *ssa.Function
	Param int
	Call  ssa.CallInstruction
	Res   int
	Val   ssa.Value
	Ctx   *c05Frame
	Path  string
	Via   []string
}

func (o c05Origin) hasVia(k string) bool {
	for _, v := range o.Via {
		if v == k {
			return true
		}
	}
	return false
}

func (o c05Origin) withVia(k string) c05Origin {
	if o.hasVia(k) {
		return o
	}
	n := append(append([]string(nil), o.Via...), k)
	sort.Strings(n)
	o.Via = n
	return o
}

func (o c05Origin) withPath(p string) c05Origin {
	if p == "" {
		return o
	}
	switch o.Kind {
	case "const", "zero", "other", "global":
		return o
	}
	if len(o.Via) > 0 && o.Kind != "alloc" && o.Kind != "make" {
		// data transformed by an opaque call: a field path on it means nothing
		return o
	}
	o.Path += p
	return o
}

func c05ShortKey(k string) string {
	k = strings.ReplaceAll(k, modulePath+"/", "")
	k = strings.ReplaceAll(k, "github.com/libp2p/go-libp2p/core/", "")
	k = strings.ReplaceAll(k, "golang.org/x/crypto/", "")
	k = strings.ReplaceAll(k, "google.golang.org/protobuf/", "")
	return k
}

func (o c05Origin) String() string {
	s := ""
	switch o.Kind {
	case "param":
		name := fmt.Sprintf("#%d", o.Param)
		if o.Fn != nil && o.Param < len(o.Fn.Params) {
			name = o.Fn.Params[o.Param].Name()
		}
		s = "param " + name
	case "call":
		s = "result of " + c05ShortKey(calleeKey(o.Call.Common()))
	case "written":
		s = "object filled by " + c05ShortKey(calleeKey(o.Call.Common()))
	case "const":
		s = "constant"
		if c, ok := o.Val.(*ssa.Const); ok {
			s = "constant " + c.Name()
		}
	case "zero":
		s = "zero memory"
	case "alloc", "make":
		s = "local memory"
	case "global":
		s = "global " + o.Val.Name()
	default:
		s = o.Kind
	}
	s += o.Path
	if len(o.Via) > 0 {
		var v []string
		for _, k := range o.Via {
			v = append(v, c05ShortKey(k))
		}
		s += " via{" + strings.Join(v, ",") + "}"
	}
	return s
}

// role string without positions or names (for sibling comparison)
func (o c05Origin) sig(role func(c05Origin) string) string {
	return role(o) + o.Path + "|" + strings.Join(o.Via, ",")
}

type c05MemoKey struct {
	v   ssa.Value
	ctx *c05Frame
}

type c05Tracer struct {
	w    *World
	stop func(fn *ssa.Function) bool
	memo map[c05MemoKey][]c05Origin
	busy map[c05MemoKey]bool
}

func newC05Tracer(w *World, stop func(fn *ssa.Function) bool) *c05Tracer {
	return &c05Tracer{w: w, stop: stop, memo: map[c05MemoKey][]c05Origin{}, busy: map[c05MemoKey]bool{}}
}

func c05CalleeOf(ci ssa.CallInstruction) *ssa.Function {
	f := staticCallee(ci.Common())
	if f == nil {
		return nil
	}
	if o := f.Origin(); o != nil && o.Blocks != nil && f.Blocks == nil {
		f = o
	}
	return f
}

func c05IsContext(t types.Type) bool {
	n, ok := t.(*types.Named)
	return ok && n.Obj().Pkg() != nil && n.Obj().Pkg().Path() == "context" && n.Obj().Name() == "Context"
}

func c05Dedup(os []c05Origin) []c05Origin {
	seen := map[string]bool{}
	var out []c05Origin
	for _, o := range os {
		k := fmt.Sprintf("%s|%p|%d|%p|%d|%p|%p|%s|%s", o.Kind, o.Fn, o.Param, o.Call, o.Res, o.Val, o.Ctx, o.Path, strings.Join(o.Via, ","))
		if !seen[k] {
			seen[k] = true
			out = append(out, o)
		}
	}
	return out
}

func (t *c05Tracer) origins(v ssa.Value, ctx *c05Frame) []c05Origin {
	if v == nil {
		return nil
	}
	k := c05MemoKey{v, ctx}
	if r, ok := t.memo[k]; ok {
		return r
	}
	if t.busy[k] {
		return nil
	}
	t.busy[k] = true
	r := c05Dedup(t.compute(v, ctx))
	delete(t.busy, k)
	t.memo[k] = r
	return r
}

func c05Suffix(os []c05Origin, p string) []c05Origin {
	out := make([]c05Origin, 0, len(os))
	for _, o := range os {
		out = append(out, o.withPath(p))
	}
	return out
}

func c05FieldName(structPtrOrVal types.Type, idx int) string {
	t := structPtrOrVal.Underlying()
	if p, ok := t.(*types.Pointer); ok {
		t = p.Elem().Underlying()
	}
	if st, ok := t.(*types.Struct); ok && idx < st.NumFields() {
		return st.Field(idx).Name()
	}
	return fmt.Sprintf("#%d", idx)
}

func (t *c05Tracer) compute(v ssa.Value, ctx *c05Frame) []c05Origin {
	switch x := v.(type) {
	case *ssa.Const:
		return []c05Origin{{Kind: "const", Val: x}}
	case *ssa.Global:
		return []c05Origin{{Kind: "global", Val: x}}
	case *ssa.Function:
		return []c05Origin{{Kind: "const", Val: x}}
	case *ssa.Builtin:
		return nil
	case *ssa.Parameter:
		fn := x.Parent()
		idx := -1
		for i, p := range fn.Params {
			if p == x {
				idx = i
			}
		}
		if ctx != nil && c05CalleeOf(ctx.site) == fn && idx >= 0 {
			args := ctx.site.Common().Args
			if idx < len(args) {
				return t.origins(args[idx], ctx.up)
			}
		}
		return []c05Origin{{Kind: "param", Fn: fn, Param: idx, Ctx: ctx}}
	case *ssa.FreeVar:
		fn := x.Parent()
		par := fn.Parent()
		idx := -1
		for i, f := range fn.FreeVars {
			if f == x {
				idx = i
			}
		}
		if par == nil || idx < 0 {
			return []c05Origin{{Kind: "other"}}
		}
		var pctx *c05Frame
		if ctx != nil && ctx.site.Parent() == par {
			pctx = ctx.up
		}
		var out []c05Origin
		for _, b := range par.Blocks {
			for _, in := range b.Instrs {
				if mc, ok := in.(*ssa.MakeClosure); ok && mc.Fn == fn && idx < len(mc.Bindings) {
					out = append(out, t.origins(mc.Bindings[idx], pctx)...)
				}
			}
		}
		return out
	case *ssa.Alloc:
		return []c05Origin{{Kind: "alloc", Val: x, Ctx: ctx}}
	case *ssa.MakeMap, *ssa.MakeSlice, *ssa.MakeChan:
		return []c05Origin{{Kind: "make", Val: v, Ctx: ctx}}
	case *ssa.Phi:
		var out []c05Origin
		for _, e := range x.Edges {
			out = append(out, t.origins(e, ctx)...)
		}
		return out
	case *ssa.UnOp:
		switch x.Op {
		case token.MUL:
			return t.deref(t.origins(x.X, ctx), x, ctx)
		case token.ARROW:
			return c05Suffix(t.origins(x.X, ctx), "<-")
		}
		return t.origins(x.X, ctx)
	case *ssa.BinOp:
		return append(append([]c05Origin(nil), t.origins(x.X, ctx)...), t.origins(x.Y, ctx)...)
	case *ssa.FieldAddr:
		return c05Suffix(t.origins(x.X, ctx), "."+c05FieldName(x.X.Type(), x.Field))
	case *ssa.Field:
		return c05Suffix(t.origins(x.X, ctx), "."+c05FieldName(x.X.Type(), x.Field))
	case *ssa.IndexAddr:
		return t.origins(x.X, ctx)
	case *ssa.Index:
		return t.deref(t.origins(x.X, ctx), x, ctx)
	case *ssa.Slice:
		return t.origins(x.X, ctx)
	case *ssa.Lookup:
		return t.container(t.origins(x.X, ctx), "[v]")
	case *ssa.ChangeType:
		return t.origins(x.X, ctx)
	case *ssa.Convert:
		return t.origins(x.X, ctx)
	case *ssa.MakeInterface:
		return t.origins(x.X, ctx)
	case *ssa.ChangeInterface:
		return t.origins(x.X, ctx)
	case *ssa.SliceToArrayPointer:
		return t.origins(x.X, ctx)
	case *ssa.TypeAssert:
		return t.origins(x.X, ctx)
	case *ssa.MakeClosure:
		return []c05Origin{{Kind: "const", Val: x}}
	case *ssa.Extract:
		switch tup := x.Tuple.(type) {
		case *ssa.Call:
			return t.callResult(tup, x.Index, ctx)
		case *ssa.Next:
			if x.Index == 0 {
				return []c05Origin{{Kind: "other"}}
			}
			rng, ok := tup.Iter.(*ssa.Range)
			if !ok {
				return []c05Origin{{Kind: "other"}}
			}
			if x.Index == 1 {
				return t.container(t.origins(rng.X, ctx), "[k]")
			}
			return t.container(t.origins(rng.X, ctx), "[v]")
		case *ssa.TypeAssert:
			if x.Index == 0 {
				return t.origins(tup.X, ctx)
			}
		case *ssa.Lookup:
			if x.Index == 0 {
				return t.container(t.origins(tup.X, ctx), "[v]")
			}
			// presence bit: depends on which keys were ever stored
			return c05Suffix(t.origins(tup.X, ctx), "[?]")
		case *ssa.UnOp:
			if x.Index == 0 && tup.Op == token.ARROW {
				return c05Suffix(t.origins(tup.X, ctx), "<-")
			}
		}
		return []c05Origin{{Kind: "other"}}
	case *ssa.Call:
		return t.callResult(x, 0, ctx)
	}
	return []c05Origin{{Kind: "other"}}
}

// container resolves a key/value read of a map: for maps made locally, the keys/values ever
// stored; otherwise the container's origins with a path marker.
func (t *c05Tracer) container(os []c05Origin, what string) []c05Origin {
	var out []c05Origin
	for _, o := range os {
		if o.Kind == "make" && o.Path == "" {
			found := false
			if refs := o.Val.Referrers(); refs != nil {
				for _, r := range *refs {
					if mu, ok := r.(*ssa.MapUpdate); ok && mu.Map == o.Val {
						found = true
						if what == "[k]" {
							out = append(out, t.origins(mu.Key, o.Ctx)...)
						} else {
							out = append(out, t.origins(mu.Value, o.Ctx)...)
						}
					}
				}
			}
			if !found {
				out = append(out, c05Origin{Kind: "zero"})
			}
			continue
		}
		out = append(out, o.withPath(what))
	}
	return out
}

// c05ReadPoint: the instruction, in the function owning memory o, before which a write must
// happen to be visible to a read performed at instruction at in context ctx: at itself when
// the read is in the owning frame, the call through which the pointer was handed down when
// the read happens in a callee, nil (any write) when the memory comes from a callee.
func c05ReadPoint(o c05Origin, at ssa.Instruction, ctx *c05Frame) ssa.Instruction {
	if ctx == o.Ctx {
		return at
	}
	for f := ctx; f != nil; f = f.up {
		if f.up == o.Ctx {
			return f.site
		}
	}
	return nil
}

// deref: the value stored at the addresses described by os, read at instruction at in ctx.
func (t *c05Tracer) deref(os []c05Origin, at ssa.Instruction, ctx *c05Frame) []c05Origin {
	var out []c05Origin
	for _, o := range os {
		if o.Kind == "alloc" || o.Kind == "make" {
			out = append(out, t.load(o, c05ReadPoint(o, at, ctx))...)
			continue
		}
		out = append(out, o)
	}
	return out
}

type c05Addr struct {
	v   ssa.Value
	sub string
}

func c05AddrClosure(base ssa.Value) []c05Addr {
	out := []c05Addr{{base, ""}}
	seen := map[ssa.Value]bool{base: true}
	for i := 0; i < len(out); i++ {
		cur := out[i]
		refs := cur.v.Referrers()
		if refs == nil {
			continue
		}
		for _, r := range *refs {
			var nv ssa.Value
			sub := cur.sub
			switch u := r.(type) {
			case *ssa.FieldAddr:
				if u.X == cur.v {
					nv, sub = u, cur.sub+"."+c05FieldName(u.X.Type(), u.Field)
				}
			case *ssa.IndexAddr:
				if u.X == cur.v {
					nv = u
				}
			case *ssa.Slice:
				if u.X == cur.v {
					nv = u
				}
			case *ssa.MakeInterface:
				nv = u
			case *ssa.ChangeType:
				nv = u
			case *ssa.Convert:
				nv = u
			case *ssa.SliceToArrayPointer:
				nv = u
			}
			if nv != nil && !seen[nv] {
				seen[nv] = true
				out = append(out, c05Addr{nv, sub})
			}
		}
	}
	return out
}

func c05MayPrecede(wr, at ssa.Instruction) bool {
	if at == nil || wr.Parent() != at.Parent() {
		return true
	}
	if wr == at {
		return false
	}
	wb, ab := wr.Block(), at.Block()
	if wb == ab {
		for _, in := range wb.Instrs {
			if in == wr {
				return true
			}
			if in == at {
				break
			}
		}
		// later in the same block: only through a loop
		for _, s := range wb.Succs {
			if s == wb || reach(s, nil)[wb] {
				return true
			}
		}
		return false
	}
	return reach(wb, nil)[ab]
}

// load: what memory rooted at o.Val (an Alloc/Make*) holds at path o.Path.
func (t *c05Tracer) load(o c05Origin, at ssa.Instruction) []c05Origin {
	return t.loadOpt(o, at, false)
}

// loadOpt: with storesOnly, calls receiving the memory are not taken as writers (used for
// composite literals that are only read by the calls they are handed to).
func (t *c05Tracer) loadOpt(o c05Origin, at ssa.Instruction, storesOnly bool) []c05Origin {
	path := o.Path
	closure := c05AddrClosure(o.Val)
	inClosure := map[ssa.Value]bool{}
	for _, a := range closure {
		inClosure[a.v] = true
	}
	var out []c05Origin
	for _, a := range closure {
		var rem string
		switch {
		case strings.HasPrefix(path, a.sub):
			rem = path[len(a.sub):]
		case strings.HasPrefix(a.sub, path):
			rem = ""
		default:
			continue
		}
		refs := a.v.Referrers()
		if refs == nil {
			continue
		}
		for _, r := range *refs {
			switch u := r.(type) {
			case *ssa.Store:
				if u.Addr != a.v || !c05MayPrecede(u, at) {
					continue
				}
				out = append(out, c05Suffix(t.origins(u.Val, o.Ctx), rem)...)
			case *ssa.MapUpdate:
				// handled by container()
			case ssa.CallInstruction:
				if storesOnly || !c05MayPrecede(u, at) {
					continue
				}
				if _, isCall := u.(*ssa.Call); !isCall {
					continue
				}
				cc := u.Common()
				key := calleeKey(cc)
				if rem != "" {
					out = append(out, c05Origin{Kind: "written", Call: u, Ctx: o.Ctx, Path: rem})
					continue
				}
				n := 0
				args := cc.Args
				if cc.IsInvoke() {
					args = append([]ssa.Value{cc.Value}, args...)
				}
				for _, arg := range args {
					if inClosure[arg] || c05IsContext(arg.Type()) {
						continue
					}
					for _, ao := range t.contentOrigins(arg, o.Ctx, u) {
						if ao.Kind == "const" || ao.Kind == "zero" {
							continue
						}
						n++
						out = append(out, ao.withVia(key))
					}
				}
				if n == 0 {
					out = append(out, c05Origin{Kind: "written", Call: u, Ctx: o.Ctx})
				}
			}
		}
	}
	if len(out) == 0 {
		out = append(out, c05Origin{Kind: "zero"})
	}
	return out
}

// contentOrigins: origins of v; when v is a pointer/slice into local memory, what that
// memory holds.
func (t *c05Tracer) contentOrigins(v ssa.Value, ctx *c05Frame, at ssa.Instruction) []c05Origin {
	os := t.origins(v, ctx)
	for round := 0; round < 3; round++ {
		again := false
		var out []c05Origin
		for _, o := range os {
			if o.Kind == "alloc" || o.Kind == "make" {
				k := c05MemoKey{o.Val, o.Ctx}
				if t.busy[k] {
					continue
				}
				t.busy[k] = true
				out = append(out, t.load(o, c05ReadPoint(o, at, ctx))...)
				delete(t.busy, k)
				again = true
				continue
			}
			out = append(out, o)
		}
		os = c05Dedup(out)
		if !again {
			break
		}
	}
	return os
}

func (t *c05Tracer) callResult(call *ssa.Call, idx int, ctx *c05Frame) []c05Origin {
	cc := call.Common()
	callee := c05CalleeOf(call)
	depth := 0
	if ctx != nil {
		depth = ctx.depth
	}
	if callee != nil && callee.Blocks != nil && inModule(callee) {
		if t.stop != nil && t.stop(callee) {
			return []c05Origin{{Kind: "call", Call: call, Res: idx, Ctx: ctx}}
		}
		if depth < 8 {
			fr := &c05Frame{site: call, up: ctx, depth: depth + 1}
			// one frame per (site, ctx): reuse to keep the memo effective
			var out []c05Origin
			for _, r := range returnsOf(callee) {
				rs := retResults(r)
				if idx < len(rs) {
					out = append(out, t.origins(rs[idx], fr)...)
				}
			}
			return out
		}
	}
	// opaque: pass through to the receiver and arguments
	key := calleeKey(cc)
	var out []c05Origin
	args := cc.Args
	if cc.IsInvoke() {
		args = append([]ssa.Value{cc.Value}, args...)
	} else if _, isF := cc.Value.(*ssa.Function); !isF {
		if _, isB := cc.Value.(*ssa.Builtin); !isB {
			if _, isMC := cc.Value.(*ssa.MakeClosure); !isMC {
				args = append([]ssa.Value{cc.Value}, args...)
			}
		}
	}
	n := 0
	for _, a := range args {
		if c05IsContext(a.Type()) {
			continue
		}
		for _, ao := range t.contentOrigins(a, ctx, call) {
			if ao.Kind == "const" || ao.Kind == "zero" {
				continue
			}
			n++
			out = append(out, ao.withVia(key))
		}
	}
	if n == 0 {
		return []c05Origin{{Kind: "call", Call: call, Res: idx, Ctx: ctx}}
	}
	return out
}

func c05NonConst(os []c05Origin) []c05Origin {
	var out []c05Origin
	for _, o := range os {
		if o.Kind == "const" || o.Kind == "zero" {
			continue
		}
		out = append(out, o)
	}
	return out
}

func c05Describe(os []c05Origin) string {
	if len(os) == 0 {
		return "nothing (constants/zero memory only)"
	}
	var s []string
	seen := map[string]bool{}
	for _, o := range os {
		d := o.String()
		if !seen[d] {
			seen[d] = true
			s = append(s, d)
		}
	}
	sort.Strings(s)
	if len(s) > 6 {
		s = append(s[:6], "...")
	}
	return strings.Join(s, "; ")
}

func c05All(os []c05Origin, pred func(c05Origin) bool) bool {
	if len(os) == 0 {
		return false
	}
	for _, o := range os {
		if !pred(o) {
			return false
		}
	}
	return true
}

func c05Any(os []c05Origin, pred func(c05Origin) bool) bool {
	for _, o := range os {
		if pred(o) {
			return true
		}
	}
	return false
}

// ---------------------------------------------------------------------------
// CFG helpers

// c05BoolEdges: CFG edges taken when bool value v is true / false (v tested directly by an If).
func c05BoolEdges(v ssa.Value) (onTrue, onFalse []edge) {
	ve := edgesOfVerdict(v)
	return ve.Accept, ve.Reject
}

func c05BlockHas(b *ssa.BasicBlock, pred func(ssa.Instruction) bool) bool {
	for _, in := range b.Instrs {
		if pred(in) {
			return true
		}
	}
	return false
}

// c05SuccessWithout: success returns reachable from the given edges without executing an
// instruction satisfying barrier.
func c05SuccessWithout(fn *ssa.Function, starts []edge, barrier func(ssa.Instruction) bool) []*ssa.Return {
	seen := map[*ssa.BasicBlock]bool{}
	var stack []*ssa.BasicBlock
	for _, e := range starts {
		if !seen[e.To] {
			seen[e.To] = true
			stack = append(stack, e.To)
		}
	}
	var out []*ssa.Return
	for len(stack) > 0 {
		b := stack[len(stack)-1]
		stack = stack[:len(stack)-1]
		if c05BlockHas(b, barrier) {
			continue
		}
		if len(b.Instrs) > 0 {
			if r, ok := b.Instrs[len(b.Instrs)-1].(*ssa.Return); ok && b != fn.Recover && isSuccessReturn(r) {
				out = append(out, r)
			}
		}
		for _, s := range b.Succs {
			if !seen[s] {
				seen[s] = true
				stack = append(stack, s)
			}
		}
	}
	return out
}

func c05InCycle(b *ssa.BasicBlock) bool {
	for _, s := range b.Succs {
		if s == b || reach(s, nil)[b] {
			return true
		}
	}
	return false
}

// c05Chains: static call chains (lists of call sites) from entry to functions containing a
// call with the given key.
type c05Site struct {
	site  ssa.CallInstruction
	fn    *ssa.Function
	ctx   *c05Frame
	chain []ssa.CallInstruction
}

func c05FindSites(w *World, entry *ssa.Function, match func(string, *ssa.CallCommon) bool, maxDepth int) []c05Site {
	var out []c05Site
	onPath := map[*ssa.Function]bool{}
	var walk func(fn *ssa.Function, ctx *c05Frame, chain []ssa.CallInstruction, d int)
	walk = func(fn *ssa.Function, ctx *c05Frame, chain []ssa.CallInstruction, d int) {
		if onPath[fn] || fn.Blocks == nil {
			return
		}
		onPath[fn] = true
		defer delete(onPath, fn)
		for _, ci := range callsIn(fn, match) {
			out = append(out, c05Site{site: ci, fn: fn, ctx: ctx, chain: append([]ssa.CallInstruction(nil), chain...)})
		}
		if d >= maxDepth {
			return
		}
		for _, b := range fn.Blocks {
			for _, in := range b.Instrs {
				ci, ok := in.(ssa.CallInstruction)
				if !ok {
					continue
				}
				cal := c05CalleeOf(ci)
				if cal == nil || !inModule(cal) || cal.Blocks == nil {
					continue
				}
				depth := 1
				if ctx != nil {
					depth = ctx.depth + 1
				}
				walk(cal, &c05Frame{site: ci, up: ctx, depth: depth}, append(chain, ci), d+1)
			}
		}
	}
	walk(entry, nil, nil, 0)
	return out
}

// ---------------------------------------------------------------------------
// anchors

func c05Iface(w *World, pkg, name string) *types.Interface {
	n := namedType(w, pkg, name)
	if n == nil {
		return nil
	}
	it, _ := n.Underlying().(*types.Interface)
	return it
}

func c05Named(t types.Type) *types.Named {
	if p, ok := t.(*types.Pointer); ok {
		t = p.Elem()
	}
	n, _ := t.(*types.Named)
	return n
}

func c05IsPubKey(t types.Type) bool  { return isNamed(t, c05PkgLibp2pCr, "PubKey") }
func c05IsPrivKey(t types.Type) bool { return isNamed(t, c05PkgLibp2pCr, "PrivKey") }

type c05Holder struct {
	typ     *types.Named
	devPath string // path of the private key DeviceSign signs with
	memPath string // path of the private key MemberSign signs with
}

// c05FindHolder: the module type implementing secretstore.OwnMemberDevice and the fields
// holding its two private keys, identified through the exported signing methods.
func c05FindHolder(c *Ctx) *c05Holder {
	w := c.W
	it := c05Iface(w, pkgSecret, "OwnMemberDevice")
	if it == nil {
		return nil
	}
	tr := newC05Tracer(w, nil)
	for _, t := range w.implementersOf(it) {
		n := c05Named(t)
		if n == nil || n.Obj().Pkg().Path() != pkgSecret {
			continue
		}
		h := &c05Holder{typ: n}
		for _, m := range []struct {
			name string
			dst  *string
		}{{"DeviceSign", &h.devPath}, {"MemberSign", &h.memPath}} {
			fn := w.methodOf(t, m.name)
			if fn == nil || fn.Blocks == nil {
				continue
			}
			c.analysed(fn)
			for _, ci := range callsIn(fn, keyIs(c05KeySign)) {
				for _, o := range c05NonConst(tr.origins(ci.Common().Value, nil)) {
					if o.Kind == "param" && o.Fn == fn && o.Param == 0 && o.Path != "" {
						*m.dst = o.Path
					}
				}
			}
		}
		if h.devPath != "" && h.memPath != "" && h.devPath != h.memPath {
			return h
		}
	}
	return nil
}

func (h *c05Holder) yields(fn *ssa.Function) bool {
	res := fn.Signature.Results()
	if res.Len() == 0 {
		return false
	}
	n := c05Named(res.At(0).Type())
	return n != nil && n.Obj() == h.typ.Obj()
}

func c05EnumConst(w *World, name string) (int64, bool) {
	p := w.typesPkg(pkgTypes)
	if p == nil {
		return 0, false
	}
	cst, ok := p.Scope().Lookup(name).(*types.Const)
	if !ok {
		return 0, false
	}
	v, ok := constant.Int64Val(cst.Val())
	return v, ok
}

// c05EventTypeTests: comparisons in fn of an EventType value (matching from) with the
// constant val; returns the edges taken when equal.
func c05EventTypeTests(t *c05Tracer, fn *ssa.Function, val int64, from func(c05Origin) bool) (equalEdges []edge, n int) {
	return c05EventTypeTestsCtx(t, fn, nil, val, from)
}

func c05EventTypeTestsCtx(t *c05Tracer, fn *ssa.Function, ctx *c05Frame, val int64, from func(c05Origin) bool) (equalEdges []edge, n int) {
	for _, b := range fn.Blocks {
		for _, in := range b.Instrs {
			bo, ok := in.(*ssa.BinOp)
			if !ok || (bo.Op != token.EQL && bo.Op != token.NEQ) {
				continue
			}
			var other ssa.Value
			if cv, ok := constInt(bo.Y); ok && cv == val && isNamed(bo.Y.Type(), pkgTypes, "EventType") {
				other = bo.X
			} else if cv, ok := constInt(bo.X); ok && cv == val && isNamed(bo.X.Type(), pkgTypes, "EventType") {
				other = bo.Y
			}
			if other == nil {
				continue
			}
			if !c05Any(t.origins(other, ctx), from) {
				continue
			}
			n++
			onTrue, onFalse := c05BoolEdges(bo)
			if bo.Op == token.EQL {
				equalEdges = append(equalEdges, onTrue...)
			} else {
				equalEdges = append(equalEdges, onFalse...)
			}
		}
	}
	return
}

// ---------------------------------------------------------------------------

func runC05(c *Ctx) {
	w := c.W
	ssIface := c05Iface(w, pkgSecret, "SecretStore")
	if ssIface == nil {
		c.undecided("D1", "SecretStore", token.NoPos, "interface secretstore.SecretStore not found")
		return
	}
	holder := c05FindHolder(c)
	if holder == nil {
		c.undecided("D1", "OwnMemberDevice", token.NoPos, "no module implementation of secretstore.OwnMemberDevice whose DeviceSign/MemberSign sign with two distinct private-key fields")
		return
	}
	tr := newC05Tracer(w, holder.yields)

	var sealEntry, openEntry *ssa.Function
	for _, t := range w.implementersOf(ssIface) {
		if n := c05Named(t); n == nil || n.Obj().Pkg().Path() != pkgSecret {
			continue
		}
		sealEntry = w.methodOf(t, "GetShareableChainKey")
		openEntry = w.methodOf(t, "RegisterChainKey")
	}
	if sealEntry == nil || openEntry == nil || sealEntry.Blocks == nil || openEntry.Blocks == nil {
		c.undecided("D1", "SecretStore implementation", token.NoPos, "GetShareableChainKey/RegisterChainKey of the module SecretStore implementation not found")
		return
	}
	c05D1(c, tr, holder, sealEntry, openEntry)
	filters := c05D2(c, tr)
	c05D3(c, tr, filters, openEntry)
	c05D4(c, tr, filters)
	c05D5(c)
	c05D6(c, sealEntry)
	c05D7(c)
}

// ---------------------------------------------------------------------------
// D1

type c05Side struct {
	name     string
	entry    *ssa.Function
	box      c05Site
	privSig  []string
	pubSig   []string
	nonceSig []string
}

func c05SigList(os []c05Origin, role func(c05Origin) string) []string {
	m := map[string]bool{}
	for _, o := range os {
		m[o.sig(role)] = true
	}
	var out []string
	for k := range m {
		out = append(out, k)
	}
	sort.Strings(out)
	return out
}

func c05ViaList(os []c05Origin) []string {
	m := map[string]bool{}
	for _, o := range os {
		for _, v := range o.Via {
			m[v] = true
		}
	}
	var out []string
	for k := range m {
		out = append(out, c05ShortKey(k))
	}
	sort.Strings(out)
	return out
}

func c05D1(c *Ctx, tr *c05Tracer, h *c05Holder, sealEntry, openEntry *ssa.Function) {
	w := c.W
	c.analysed(sealEntry)
	c.analysed(openEntry)
	// parameter roles are fixed by the exported interface: (recv, ctx, group, key[, ciphertext])
	const pGroup, pKey, pCipher = 2, 3, 4
	isEntryParam := func(entry *ssa.Function, idx int) func(c05Origin) bool {
		return func(o c05Origin) bool { return o.Kind == "param" && o.Fn == entry && o.Param == idx }
	}
	role := func(entry *ssa.Function) func(c05Origin) string {
		return func(o c05Origin) string {
			switch {
			case o.Kind == "param" && o.Fn == entry && o.Param == pGroup:
				return "group"
			case o.Kind == "param" && o.Fn == entry && o.Param == pKey:
				return "peer-key"
			case o.Kind == "param" && o.Fn == entry:
				return fmt.Sprintf("param%d", o.Param)
			case o.Kind == "call" && c05CalleeOf(o.Call) != nil && h.yields(c05CalleeOf(o.Call)):
				return "own-holder"
			case o.Kind == "call" || o.Kind == "written":
				return o.Kind + ":" + calleeKey(o.Call.Common())
			}
			return o.Kind
		}
	}
	var sides []*c05Side
	for _, spec := range []struct {
		name, key string
		entry     *ssa.Function
		privPath  string
		privName  string
		wrongName string
	}{
		{"seal", c05KeyBoxSeal, sealEntry, h.devPath, "device", "member"},
		{"open", c05KeyBoxOpen, openEntry, h.memPath, "member", "device"},
	} {
		en := fnName(spec.entry)
		sites := c05FindSites(w, spec.entry, keyIs(spec.key), 5)
		if len(sites) == 0 {
			c.fail("D1", en+"+"+spec.name, spec.entry.Pos(), "no nacl/box.%s call is reachable from %s: the announcement is not sealed/opened with a public-key box", strings.Title(spec.name), en)
			continue
		}
		for _, bx := range sites {
			c.analysed(bx.fn)
			side := &c05Side{name: spec.name, entry: spec.entry, box: bx}
			sides = append(sides, side)
			args := bx.site.Common().Args
			if len(args) != 5 {
				c.undecided("D1", en+"+"+spec.name, posOf(bx.site), "unexpected box call arity")
				continue
			}
			cons := en + "+box." + strings.Title(spec.name)
			// private key
			priv := c05NonConst(tr.contentOrigins(args[4], bx.ctx, bx.site))
			isHolderKey := func(o c05Origin) bool {
				cal := (*ssa.Function)(nil)
				if o.Kind == "call" {
					cal = c05CalleeOf(o.Call)
				}
				return cal != nil && h.yields(cal) && o.Path == spec.privPath
			}
			okPriv := c05All(priv, isHolderKey)
			c.check(okPriv, "D1", cons+".private-key", posOf(bx.site),
				fmt.Sprintf("box private key is the own %s private key of the member-device holder (%s) and nothing else", spec.privName, spec.privPath),
				fmt.Sprintf("box private key must be the own %s private key of the member-device holder (field %s, the one %sSign uses) but derives from: %s", spec.privName, spec.privPath, strings.Title(spec.privName), c05Describe(priv)))
			// holder obtained for the entry's group
			if okPriv {
				okGroup := true
				var got []c05Origin
				for _, o := range priv {
					hargs := o.Call.Common().Args
					found := false
					for _, a := range hargs {
						ao := c05NonConst(tr.origins(a, o.Ctx))
						if c05Any(ao, isEntryParam(spec.entry, pGroup)) {
							found = true
						}
						got = append(got, ao...)
					}
					if !found {
						okGroup = false
					}
				}
				c.check(okGroup, "D1", cons+".holder-group", posOf(bx.site),
					"the member-device holder is obtained for the group parameter",
					"the member-device holder whose key is used is not obtained for the group parameter of "+en+": "+c05Describe(got))
			}
			// public key
			pub := c05NonConst(tr.contentOrigins(args[3], bx.ctx, bx.site))
			okPub := c05All(pub, func(o c05Origin) bool { return isEntryParam(spec.entry, pKey)(o) && o.Path == "" })
			c.check(okPub, "D1", cons+".peer-key", posOf(bx.site),
				"box peer public key is the public-key parameter of "+en+" and nothing else",
				"box peer public key must be the public-key parameter of "+en+" (target member when sealing, sender device when opening) but derives from: "+c05Describe(pub))
			// nonce
			nonce := c05NonConst(tr.contentOrigins(args[2], bx.ctx, bx.site))
			okNonce := c05All(nonce, isEntryParam(spec.entry, pGroup)) && c05Any(nonce, func(o c05Origin) bool { return o.Path == ".PublicKey" })
			c.check(okNonce, "D1", cons+".nonce", posOf(bx.site),
				"box nonce derives from the group parameter's public key and from nothing else",
				"box nonce must derive from the public key of the group parameter (it is the only thing binding the box to the group) but derives from: "+c05Describe(nonce))
			side.privSig = c05SigList(priv, role(spec.entry))
			side.pubSig = c05SigList(pub, role(spec.entry))
			side.nonceSig = c05SigList(c05NonConst(tr.contentOrigins(args[2], bx.ctx, bx.site)), role(spec.entry))
			// constants participate in the nonce signature (offsets, fixed bytes)
			for _, o := range tr.contentOrigins(args[2], bx.ctx, bx.site) {
				if cst, ok := o.Val.(*ssa.Const); ok && o.Kind == "const" && cst.Value != nil {
					side.nonceSig = append(side.nonceSig, "const:"+cst.Value.String())
				}
			}
			sort.Strings(side.nonceSig)
			side.nonceSig = c05Uniq(side.nonceSig)

			if spec.name == "open" {
				// ciphertext
				box := c05NonConst(tr.contentOrigins(args[1], bx.ctx, bx.site))
				c.check(c05All(box, func(o c05Origin) bool { return isEntryParam(spec.entry, pCipher)(o) && o.Path == "" }), "D1", cons+".ciphertext", posOf(bx.site),
					"the opened bytes are the ciphertext parameter",
					"the opened bytes must be the ciphertext parameter of "+en+" but derive from: "+c05Describe(box))
				// verdict of box.Open and of every call on the way up; a wrapper that returns
				// the bool verdict unchanged hands it on to its caller, which must enforce it
				cur := boolVerdict(bx.site)
				curFn := bx.fn
				curCons, curPos := cons+".verdict", posOf(bx.site)
				what := "box.Open verdict"
				for i := len(bx.chain); ; i-- {
					enforced, why := false, "result discarded"
					if cur != nil {
						r := rejectOnFailure(curFn, cur)
						var vs []ssa.Value
						if isErrorType(cur.Type()) {
							vs = []ssa.Value{cur}
						}
						by := bypassReturns(curFn, edgesOfVerdict(cur).Accept, vs)
						enforced = r.OK && len(by) == 0
						why = r.Why + " bypass=" + describeReturns(c, by)
					}
					handed := -1
					if !enforced && cur != nil && i > 0 {
						handed = c05HandedOn(curFn, cur)
					}
					switch {
					case enforced:
						c.ok("D1", curCons, curPos, "%s accepted on every success path of %s; failure rejects", what, fnName(curFn))
					case handed >= 0:
						c.ok("D1", curCons, curPos, "%s is returned unchanged by %s (result #%d) and enforced by its caller", what, fnName(curFn), handed)
					default:
						c.fail("D1", curCons, curPos, "%s not enforced in %s: %s", what, fnName(curFn), why)
					}
					if i == 0 {
						break
					}
					up := bx.chain[i-1]
					caller := up.Parent()
					curCons, curPos = fnName(caller)+"->"+fnName(c05CalleeOf(up))+".verdict", posOf(up)
					if handed >= 0 {
						cur = resultValue(up, handed)
						what = "box.Open verdict handed on by " + fnName(curFn)
					} else {
						cur = errVerdict(up)
						what = "error of the opening step " + fnName(c05CalleeOf(up))
					}
					curFn = caller
				}
				c05D1Registered(c, tr, spec.entry, bx, pGroup, pKey)
			} else {
				// the entry returns only box.Seal output
				okRet, n := true, 0
				var bad []c05Origin
				for _, r := range returnsOf(spec.entry) {
					if !isSuccessReturn(r) {
						continue
					}
					rs := retResults(r)
					if len(rs) == 0 {
						continue
					}
					if isNilConst(rs[0]) {
						continue
					}
					n++
					os := c05NonConst(tr.contentOrigins(rs[0], nil, r))
					if !c05All(os, func(o c05Origin) bool { return o.hasVia(c05KeyBoxSeal) }) {
						okRet = false
						bad = append(bad, os...)
					}
				}
				c.check(okRet && n > 0, "D1", en+".result", spec.entry.Pos(),
					"every success return hands out box.Seal output only",
					"a success return of "+en+" hands out bytes that are not (only) box.Seal output: "+c05Describe(bad))
			}
		}
	}
	// sibling agreement
	var seals, opens []*c05Side
	for _, s := range sides {
		if s.name == "seal" {
			seals = append(seals, s)
		} else {
			opens = append(opens, s)
		}
	}
	for _, s := range seals {
		for _, o := range opens {
			cons := fnName(s.box.fn) + "<->" + fnName(o.box.fn)
			c.check(strings.Join(s.nonceSig, ";") == strings.Join(o.nonceSig, ";"), "D1", cons+".nonce-agreement", posOf(o.box.site),
				"sealer and opener derive the nonce from the same inputs through the same primitives",
				fmt.Sprintf("sealer and opener derive the nonce differently: seal{%s} open{%s}", strings.Join(s.nonceSig, "; "), strings.Join(o.nonceSig, "; ")))
			sv, ov := c05SigVia(s.privSig), c05SigVia(o.privSig)
			sp, op := c05SigVia(s.pubSig), c05SigVia(o.pubSig)
			c.check(sv == ov && sp == op, "D1", cons+".conversion-agreement", posOf(o.box.site),
				"both sides convert private and public keys through the same primitives",
				fmt.Sprintf("key conversion differs between the two ends: private seal{%s} open{%s}; public seal{%s} open{%s}", sv, ov, sp, op))
		}
	}
}

func c05Uniq(s []string) []string {
	var out []string
	for i, x := range s {
		if i == 0 || s[i-1] != x {
			out = append(out, x)
		}
	}
	return out
}

func c05SigVia(sigs []string) string {
	m := map[string]bool{}
	for _, s := range sigs {
		if i := strings.Index(s, "|"); i >= 0 {
			for _, v := range strings.Split(s[i+1:], ",") {
				if v != "" {
					m[c05ShortKey(v)] = true
				}
			}
		}
	}
	var out []string
	for k := range m {
		out = append(out, k)
	}
	sort.Strings(out)
	return strings.Join(out, ",")
}

// c05D1Registered: what RegisterChainKey stores is the decoded output of box.Open, under the
// sender and group parameters, on every success path.
func c05D1Registered(c *Ctx, tr *c05Tracer, entry *ssa.Function, bx c05Site, pGroup, pKey int) {
	en := fnName(entry)
	isCK := func(t types.Type) bool {
		_, isPtr := t.(*types.Pointer)
		return isPtr && isNamed(t, pkgTypes, "DeviceChainKey")
	}
	// candidate functions: the entry and the functions on the chain to the box
	type cand struct {
		fn  *ssa.Function
		ctx *c05Frame
	}
	cands := []cand{{entry, nil}}
	ctx := (*c05Frame)(nil)
	for i, up := range bx.chain {
		ctx = &c05Frame{site: up, up: ctx, depth: i + 1}
		cands = append(cands, cand{c05CalleeOf(up), ctx})
	}
	n := 0
	var regCalls []*ssa.Call
	var regCons []string
	for _, cd := range cands {
		for _, b := range cd.fn.Blocks {
			for _, in := range b.Instrs {
				call, ok := in.(*ssa.Call)
				if !ok {
					continue
				}
				cal := c05CalleeOf(call)
				if cal == nil || !inModule(cal) {
					continue
				}
				args := call.Common().Args
				var ck, pk, grp ssa.Value
				for _, a := range args {
					switch {
					case isCK(a.Type()) && ck == nil:
						ck = a
					case c05IsPubKey(a.Type()) && pk == nil:
						pk = a
					case isNamed(a.Type(), pkgTypes, "Group") && grp == nil:
						grp = a
					}
				}
				if ck == nil {
					continue
				}
				n++
				cons := en + "->" + fnName(cal)
				cko := c05NonConst(tr.contentOrigins(ck, cd.ctx, call))
				c.check(c05All(cko, func(o c05Origin) bool { return o.hasVia(c05KeyBoxOpen) }), "D1", cons+".chain-key", posOf(call),
					"the chain key handed on for registration is the decoded output of box.Open",
					"the chain key handed on for registration is not (only) the output of box.Open: "+c05Describe(cko))
				if pk != nil {
					po := c05NonConst(tr.origins(pk, cd.ctx))
					c.check(c05All(po, func(o c05Origin) bool { return o.Kind == "param" && o.Fn == entry && o.Param == pKey && o.Path == "" }), "D1", cons+".device", posOf(call),
						"the chain key is registered under the sender-device parameter",
						"the chain key must be registered under the sender-device parameter of "+en+" (the key the box was opened against) but is registered under: "+c05Describe(po))
				}
				if grp != nil {
					gro := c05NonConst(tr.origins(grp, cd.ctx))
					c.check(c05All(gro, func(o c05Origin) bool { return o.Kind == "param" && o.Fn == entry && o.Param == pGroup && o.Path == "" }), "D1", cons+".group", posOf(call),
						"the chain key is registered for the group parameter",
						"the chain key must be registered for the group parameter of "+en+" but is registered for: "+c05Describe(gro))
				}
				if cd.fn == entry {
					regCalls = append(regCalls, call)
					regCons = append(regCons, cons)
				}
			}
		}
	}
	// every success return of the entry follows ONE of the registering calls (the registration
	// may be one of several functions chosen by a test): the accepting edges are pooled
	var pool []edge
	var verdicts []ssa.Value
	for _, call := range regCalls {
		if ev := errVerdict(call); ev != nil {
			pool = append(pool, edgesOfVerdict(ev).Accept...)
			verdicts = append(verdicts, ev)
		}
	}
	for i, call := range regCalls {
		ev := errVerdict(call)
		okc := ev != nil
		why := "result discarded"
		if okc {
			by := bypassReturns(entry, pool, verdicts)
			okc = len(by) == 0
			why = "success return bypassing the registration at " + describeReturns(c, by)
		}
		msg := "every success return of " + en + " follows a successful registration"
		if len(regCalls) > 1 {
			msg = fmt.Sprintf("every success return of %s follows one of its %d registering calls", en, len(regCalls))
		}
		c.check(okc, "D1", regCons[i]+".always", posOf(call), msg,
			en+" can succeed without registering the opened chain key: "+why)
	}
	if n == 0 {
		c.fail("D1", en+"+registration", entry.Pos(), "%s never hands a *DeviceChainKey on to a registering function: an opened announcement has no effect", en)
	}
}

// ---------------------------------------------------------------------------
// D2: the recipient filter

type c05Filter struct {
	fn       *ssa.Function
	localIdx int // parameter index of the local member public key
	metaIdx  int
}

// c05IsDecode: a proto.Unmarshal into a *GroupDeviceChainKeyAdded.
func c05IsDecode(ci ssa.CallInstruction) bool {
	if ci == nil || calleeKey(ci.Common()) != c05KeyProtoU {
		return false
	}
	ua := ci.Common().Args
	if len(ua) != 2 {
		return false
	}
	mi, ok := ua[1].(*ssa.MakeInterface)
	return ok && isNamed(mi.X.Type(), pkgTypes, "GroupDeviceChainKeyAdded")
}

// c05FrameOf is one function reached from an entry through a chain of static module calls.
type c05FrameOf struct {
	fn    *ssa.Function
	ctx   *c05Frame
	chain []ssa.CallInstruction
}

// c05Frames: entry and its module callees up to maxDepth, one element per call path.
func c05Frames(entry *ssa.Function, maxDepth int) []c05FrameOf {
	var out []c05FrameOf
	onPath := map[*ssa.Function]bool{}
	var walk func(fn *ssa.Function, ctx *c05Frame, chain []ssa.CallInstruction, d int)
	walk = func(fn *ssa.Function, ctx *c05Frame, chain []ssa.CallInstruction, d int) {
		if onPath[fn] || fn.Blocks == nil {
			return
		}
		onPath[fn] = true
		defer delete(onPath, fn)
		out = append(out, c05FrameOf{fn, ctx, append([]ssa.CallInstruction(nil), chain...)})
		if d >= maxDepth {
			return
		}
		for _, b := range fn.Blocks {
			for _, in := range b.Instrs {
				ci, ok := in.(*ssa.Call)
				if !ok {
					continue
				}
				cal := c05CalleeOf(ci)
				if cal == nil || !inModule(cal) || cal.Blocks == nil || fnPkg(cal) == nil || fnPkg(cal).Path() != fnPkg(entry).Path() {
					continue
				}
				depth := 1
				if ctx != nil {
					depth = ctx.depth + 1
				}
				walk(cal, &c05Frame{site: ci, up: ctx, depth: depth}, append(chain, ci), d+1)
			}
		}
	}
	walk(entry, nil, nil, 0)
	return out
}

// c05ChainEnforced: every success return of fr.fn takes one of the accepting edges, its
// failing side rejects (when the verdict value is given), and the error of every call on the
// chain from the entry down to fr.fn is enforced in its caller: a success return of the entry
// implies that the test accepted.
func c05ChainEnforced(c *Ctx, fr c05FrameOf, accept []edge, verdict ssa.Value) (bool, string) {
	if by := bypassReturns(fr.fn, accept, nil); len(by) > 0 {
		return false, "success returns of " + fnName(fr.fn) + " not on its accepting side: " + describeReturns(c, by)
	}
	if verdict != nil {
		if r := rejectOnFailure(fr.fn, verdict); !r.OK {
			return false, "in " + fnName(fr.fn) + ": " + r.Why
		}
	}
	for i := len(fr.chain) - 1; i >= 0; i-- {
		up := fr.chain[i]
		caller := up.Parent()
		ev := errVerdict(up)
		if ev == nil {
			return false, "the error of " + fnName(c05CalleeOf(up)) + " is discarded in " + fnName(caller)
		}
		if r := rejectOnFailure(caller, ev); !r.OK {
			return false, "the error of " + fnName(c05CalleeOf(up)) + " is not enforced in " + fnName(caller) + ": " + r.Why
		}
		if by := bypassReturns(caller, edgesOfVerdict(ev).Accept, []ssa.Value{ev}); len(by) > 0 {
			return false, "success returns of " + fnName(caller) + " that do not follow a nil error of " + fnName(c05CalleeOf(up)) + ": " + describeReturns(c, by)
		}
	}
	return true, ""
}

// c05D2: the recipient filter is the root-package function that takes the metadata and the
// local public key, returns an error, and from which (itself or module callees, depth <= 2)
// a GroupDeviceChainKeyAdded is decoded; the decode, the event-type guard and the recipient
// test may each live in a helper, and the decoded values may travel in a local struct.
func c05D2(c *Ctx, tr *c05Tracer) []*c05Filter {
	w := c.W
	var filters []*c05Filter
	evVal, okEv := c05EnumConst(w, "EventType_EventTypeGroupDeviceChainKeyAdded")
	if !okEv {
		c.undecided("D2", "EventTypeGroupDeviceChainKeyAdded", token.NoPos, "enum constant not found")
		return nil
	}
	for _, fn := range w.ModFuncs {
		if fnPkg(fn) == nil || fnPkg(fn).Path() != pkgRoot || fn.Parent() != nil || len(fn.Blocks) == 0 {
			continue
		}
		f := &c05Filter{fn: fn, localIdx: -1, metaIdx: -1}
		for i, p := range fn.Params {
			if c05IsPubKey(p.Type()) {
				f.localIdx = i
			}
			if _, isPtr := p.Type().(*types.Pointer); isPtr && isNamed(p.Type(), pkgTypes, "GroupMetadata") {
				f.metaIdx = i
			}
		}
		if f.localIdx < 0 || f.metaIdx < 0 || errResultIndex(fn.Signature) < 0 {
			continue
		}
		frames := c05Frames(fn, 2)
		type decSite struct {
			call ssa.CallInstruction
			fr   c05FrameOf
		}
		var dec []decSite
		for _, fr := range frames {
			for _, u := range callsIn(fr.fn, keyIs(c05KeyProtoU)) {
				if c05IsDecode(u) {
					dec = append(dec, decSite{u, fr})
				}
			}
		}
		if len(dec) == 0 {
			continue
		}
		filters = append(filters, f)
		c.analysed(fn)
		for _, fr := range frames {
			c.analysed(fr.fn)
		}
		name := fnName(fn)
		isDec := func(o c05Origin, path string) bool {
			return o.Kind == "written" && o.Path == path && c05IsDecode(o.Call)
		}
		isParam := func(idx int) func(c05Origin) bool {
			return func(o c05Origin) bool { return o.Kind == "param" && o.Fn == fn && o.Param == idx }
		}
		// (a) decoded from the metadata payload
		for _, d := range dec {
			src := c05NonConst(tr.contentOrigins(d.call.Common().Args[0], d.fr.ctx, d.call))
			c.check(c05All(src, func(o c05Origin) bool { return isParam(f.metaIdx)(o) && o.Path == ".Payload" }), "D2", name+"+decode-source", posOf(d.call),
				"the announcement is decoded from the metadata's payload (the bytes whose signature C03 checks)",
				"the announcement must be decoded from the Payload of the metadata parameter but is decoded from: "+c05Describe(src))
		}
		// (b) results come from the decoded announcement
		okS, okP, nKey, nBytes := true, true, 0, 0
		var badS, badP []c05Origin
		for _, r := range returnsOf(fn) {
			if !isSuccessReturn(r) {
				continue
			}
			for i, rv := range retResults(r) {
				rt := fn.Signature.Results().At(i).Type()
				switch {
				case c05IsPubKey(rt):
					nKey++
					so := c05NonConst(tr.contentOrigins(rv, nil, r))
					if !c05All(so, func(o c05Origin) bool { return isDec(o, ".DevicePk") }) {
						okS, badS = false, so
					}
				case isByteSlice(rt):
					nBytes++
					po := c05NonConst(tr.contentOrigins(rv, nil, r))
					if !c05All(po, func(o c05Origin) bool { return isDec(o, ".Payload") }) {
						okP, badP = false, po
					}
				}
			}
		}
		if nKey > 0 {
			c.check(okS, "D2", name+"+sender", fn.Pos(),
				"the returned sender key is the DevicePk of the decoded (device-signed) announcement",
				"the returned sender key must be the DevicePk of the decoded announcement but derives from: "+c05Describe(badS))
		}
		if nBytes > 0 {
			c.check(okP, "D2", name+"+ciphertext", fn.Pos(),
				"the returned ciphertext is the Payload of the same decoded announcement",
				"the returned ciphertext must be the Payload of the decoded announcement but derives from: "+c05Describe(badP))
		}
		if nKey == 0 && nBytes == 0 {
			c.note("%s hands out the decoded announcement in another shape than (PubKey, []byte): what it returns is checked at the RegisterChainKey call sites (D3) only", name)
		}
		// (c) recipient comparison: in the filter or in a helper on the way
		nCmp := 0
		for _, fr := range frames {
			for _, b := range fr.fn.Blocks {
				for _, in := range b.Instrs {
					call, ok := in.(*ssa.Call)
					if !ok || !isBoolType(call.Type()) {
						continue
					}
					ops := call.Common().Args
					if call.Common().IsInvoke() {
						ops = append([]ssa.Value{call.Common().Value}, ops...)
					}
					hasLocal, hasDest := false, false
					for _, op := range ops {
						oo := c05NonConst(tr.contentOrigins(op, fr.ctx, call))
						if c05All(oo, isParam(f.localIdx)) {
							hasLocal = true
						}
						if c05All(oo, func(o c05Origin) bool { return isDec(o, ".DestMemberPk") }) {
							hasDest = true
						}
					}
					if !hasLocal || !hasDest {
						continue
					}
					nCmp++
					okc, why := c05ChainEnforced(c, fr, edgesOfVerdict(call).Accept, call)
					c.check(okc, "D2", name+"+recipient-test", posOf(call),
						"every success return lies on the equal side of (local member key == DestMemberPk); the other side rejects",
						"the recipient test is not enforced: "+why)
				}
			}
		}
		if nCmp == 0 {
			c.fail("D2", name+"+recipient-test", fn.Pos(), "no comparison of the local member key parameter with the DestMemberPk of the decoded announcement: announcements for other members are not filtered out")
		}
		// (d) event-type guard: in the filter or in a helper on the way
		nGuard, okGuard, whyGuard := 0, false, ""
		for _, fr := range frames {
			eq, n := c05EventTypeTestsCtx(tr, fr.fn, fr.ctx, evVal, isParam(f.metaIdx))
			if n == 0 {
				continue
			}
			nGuard += n
			if okc, why := c05ChainEnforced(c, fr, eq, nil); okc {
				okGuard = true
			} else {
				whyGuard = why
			}
		}
		if nGuard == 0 {
			whyGuard = "no test of the metadata's event type"
		}
		c.check(okGuard, "D2", name+"+event-type", fn.Pos(),
			"every success return lies on the (event type == GroupDeviceChainKeyAdded) side",
			"a success return is reachable for metadata whose type is not GroupDeviceChainKeyAdded (payloads of other event types would be read as announcements): "+whyGuard)
	}
	if len(filters) == 0 {
		c.undecided("D2", "recipient filter", token.NoPos, "no function in %s takes (metadata, local public key), returns an error and decodes a GroupDeviceChainKeyAdded (itself or through helpers)", pkgRoot)
	}
	return filters
}

func isByteSlice(t types.Type) bool {
	sl, ok := t.Underlying().(*types.Slice)
	if !ok {
		return false
	}
	b, ok := sl.Elem().Underlying().(*types.Basic)
	return ok && b.Kind() == types.Byte
}

// ---------------------------------------------------------------------------
// D3: filter before register

func c05IsRegisterCall(cc *ssa.CallCommon, openEntry *ssa.Function) (sender, cipher ssa.Value, ok bool) {
	if cc.IsInvoke() {
		if cc.Method.Name() == "RegisterChainKey" && isNamed(cc.Value.Type(), pkgSecret, "SecretStore") && len(cc.Args) == 4 {
			return cc.Args[2], cc.Args[3], true
		}
		return nil, nil, false
	}
	if f := staticCallee(cc); f != nil && f == openEntry && len(cc.Args) == 5 {
		return cc.Args[3], cc.Args[4], true
	}
	return nil, nil, false
}

func c05D3(c *Ctx, tr *c05Tracer, filters []*c05Filter, openEntry *ssa.Function) {
	w := c.W
	isFilter := func(fn *ssa.Function) *c05Filter {
		for _, f := range filters {
			if f.fn == fn {
				return f
			}
		}
		return nil
	}
	memberIface := func(k string) (isMember, isDevice bool) {
		for _, in := range []string{"OwnMemberDevice", "MemberDevice"} {
			p := "(" + pkgSecret + "." + in + ")."
			if k == p+"Member" {
				isMember = true
			}
			if k == p+"Device" {
				isDevice = true
			}
		}
		return
	}
	base := tr.stop
	deep := newC05Tracer(w, base)
	tr = newC05Tracer(w, func(fn *ssa.Function) bool { return isFilter(fn) != nil || base(fn) })
	checkedFilterCalls := map[ssa.CallInstruction]bool{}
	nSites := 0
	for _, fn := range w.ModFuncs {
		for _, b := range fn.Blocks {
			for _, in := range b.Instrs {
				ci, ok := in.(ssa.CallInstruction)
				if !ok {
					continue
				}
				sender, cipher, isReg := c05IsRegisterCall(ci.Common(), openEntry)
				if !isReg {
					continue
				}
				nSites++
				c.analysed(fn)
				cons := fnName(fn) + "+RegisterChainKey"
				so := c05NonConst(tr.origins(sender, nil))
				co := c05NonConst(tr.origins(cipher, nil))
				// (1) the values are handed out by a recipient-filter call and by nothing else
				// (2) looking through the filter and its helpers, they are DevicePk / Payload of
				//     the decoded announcement
				fromFilter := func(o c05Origin) bool {
					return o.Kind == "call" && len(o.Via) == 0 && isFilter(c05CalleeOf(o.Call)) != nil
				}
				decoded := func(path string) func(c05Origin) bool {
					return func(o c05Origin) bool { return o.Kind == "written" && o.Path == path && c05IsDecode(o.Call) }
				}
				sd := c05NonConst(deep.contentOrigins(sender, nil, ci))
				cd := c05NonConst(deep.contentOrigins(cipher, nil, ci))
				okS := c05All(so, fromFilter) && c05All(sd, decoded(".DevicePk"))
				okC := c05All(co, fromFilter) && c05All(cd, decoded(".Payload"))
				c.check(okS, "D3", cons+".sender", posOf(ci),
					"the sender key registered is the DevicePk handed out by the recipient filter",
					"the sender key given to RegisterChainKey is not (only) the DevicePk handed out by the recipient filter: "+c05Describe(so)+" / "+c05Describe(sd))
				c.check(okC, "D3", cons+".ciphertext", posOf(ci),
					"the ciphertext registered is the Payload handed out by the recipient filter",
					"the ciphertext given to RegisterChainKey is not (only) the Payload handed out by the recipient filter (announcements addressed to other members would be opened): "+c05Describe(co)+" / "+c05Describe(cd))
				if !okS || !okC {
					continue
				}
				sc, cc2 := map[ssa.CallInstruction]bool{}, map[ssa.CallInstruction]bool{}
				for _, o := range so {
					sc[o.Call] = true
				}
				for _, o := range co {
					cc2[o.Call] = true
				}
				same := len(sc) == len(cc2)
				for k := range sc {
					if !cc2[k] {
						same = false
					}
				}
				c.check(same, "D3", cons+".pairing", posOf(ci),
					"sender key and ciphertext come from the same filter call",
					"sender key and ciphertext come from different filter calls: the ciphertext would be opened against another device's key")
				for fc := range sc {
					if checkedFilterCalls[fc] {
						continue
					}
					checkedFilterCalls[fc] = true
					c05D3FilterCall(c, tr, fc, isFilter(c05CalleeOf(fc)), memberIface)
				}
			}
		}
	}
	c.count("RegisterChainKey_call_sites", nSites)
	if nSites == 0 {
		c.fail("D3", "RegisterChainKey", token.NoPos, "no module call of SecretStore.RegisterChainKey: received announcements are never registered")
	}
}

func c05D3FilterCall(c *Ctx, tr *c05Tracer, fc ssa.CallInstruction, f *c05Filter, memberIface func(string) (bool, bool)) {
	caller := fc.Parent()
	c.analysed(caller)
	cons := fnName(caller) + "->" + fnName(f.fn)
	call, _ := fc.(*ssa.Call)
	ev := errVerdict(fc)
	if call == nil || ev == nil {
		c.fail("D3", cons+".guard", posOf(fc), "the error of the recipient filter is discarded; its results are used unchecked")
	} else {
		ve := edgesOfVerdict(ev)
		bad := ""
		n := 0
		for idx := 0; idx < call.Common().Signature().Results().Len(); idx++ {
			if idx == errResultIndex(call.Common().Signature()) {
				continue
			}
			for _, ex := range extractsOf(call, idx) {
				if ex.Referrers() == nil {
					continue
				}
				for _, use := range *ex.Referrers() {
					if _, isDbg := use.(*ssa.DebugRef); isDbg {
						continue
					}
					n++
					if ret, isRet := use.(*ssa.Return); isRet {
						i := errResultIndex(caller.Signature)
						if rs := retResults(ret); i >= 0 && i < len(rs) && rs[i] == ev {
							continue
						}
					}
					dom := false
					for _, e := range ve.Accept {
						if edgeDominates(e, use.Block()) {
							dom = true
						}
					}
					if !dom {
						bad = c.pos(posOf(use))
					}
				}
			}
		}
		c.check(bad == "", "D3", cons+".guard", posOf(fc),
			fmt.Sprintf("%d uses of the filter results, all on its nil-error side", n),
			"a result of the recipient filter is used at "+bad+" without the filter having accepted (announcements for other members / of other types would be registered)")
	}
	// the local key given to the filter is the own member key
	lo := c05NonConst(tr.origins(fc.Common().Args[f.localIdx], nil))
	okL := c05All(lo, func(o c05Origin) bool {
		mem, dev := false, false
		for _, v := range o.Via {
			m, d := memberIface(v)
			mem = mem || m
			dev = dev || d
		}
		return mem && !dev
	})
	c.check(okL, "D3", cons+".local-key", posOf(fc),
		"the filter compares against the own member public key (Member() of the member-device holder)",
		"the key the filter compares DestMemberPk with must be the own MEMBER public key (announcements are addressed to members) but derives from: "+c05Describe(lo))
}

// ---------------------------------------------------------------------------
// D4: announce

func c05D4(c *Ctx, tr *c05Tracer, filters []*c05Filter) {
	w := c.W
	activate := w.lookupMethod(pkgRoot, "GroupContext", "ActivateGroupContext")
	sendSecret := w.lookupMethod(pkgRoot, "MetadataStore", "SendSecret")
	listMembers := w.lookupMethod(pkgRoot, "MetadataStore", "ListMembers")
	listEvents := w.lookupMethod(pkgRoot, "MetadataStore", "ListEvents")
	if activate == nil || sendSecret == nil || listMembers == nil || listEvents == nil || activate.Blocks == nil || sendSecret.Blocks == nil {
		c.undecided("D4", "anchors", token.NoPos, "GroupContext.ActivateGroupContext / MetadataStore.SendSecret / ListMembers / ListEvents not found")
		return
	}
	c.analysed(activate)
	c.analysed(sendSecret)
	// a tracer that does not look into the listing functions
	base := tr.stop
	tr4 := newC05Tracer(w, func(fn *ssa.Function) bool {
		return fn == listMembers || fn == listEvents || fn == sendSecret || base(fn)
	})
	isSend := func(in ssa.Instruction) bool {
		ci, ok := in.(*ssa.Call)
		return ok && c05CalleeOf(ci) == sendSecret
	}
	// functions from which SendSecret is called on every success path are barriers too
	sendsAlways := map[*ssa.Function]bool{}
	for _, fn := range w.ModFuncs {
		if fn == sendSecret || fnPkg(fn) == nil || fnPkg(fn).Path() != pkgRoot {
			continue
		}
		if len(callsIn(fn, func(_ string, cc *ssa.CallCommon) bool { return staticCallee(cc) == sendSecret })) == 0 {
			continue
		}
		if len(fn.Blocks) > 0 && len(c05SuccessWithout(fn, []edge{{nil, fn.Blocks[0]}}, isSend)) == 0 {
			sendsAlways[fn] = true
		}
	}
	barrier := func(in ssa.Instruction) bool {
		if isSend(in) {
			return true
		}
		if ci, ok := in.(*ssa.Call); ok {
			if cal := c05CalleeOf(ci); cal != nil && sendsAlways[cal] {
				return true
			}
		}
		return false
	}
	reachable := c05Reachable(c, []*ssa.Function{activate}, 4)
	var rfuncs []*ssa.Function
	for fn := range reachable {
		if fnPkg(fn) != nil && fnPkg(fn).Path() == pkgRoot {
			rfuncs = append(rfuncs, fn)
		}
	}
	sort.Slice(rfuncs, func(i, j int) bool { return rfuncs[i].String() < rfuncs[j].String() })

	// ---- (a) the live handler
	mdaVal, ok := c05EnumConst(w, "EventType_EventTypeGroupMemberDeviceAdded")
	if !ok {
		c.undecided("D4", "EventTypeGroupMemberDeviceAdded", token.NoPos, "enum constant not found")
		return
	}
	an := fnName(activate)
	nHandlers := 0
	var handlers []*ssa.Function
	for _, fn := range rfuncs {
		evIdx := -1
		for i, p := range fn.Params {
			if isNamed(p.Type(), pkgTypes, "GroupMetadataEvent") {
				evIdx = i
			}
		}
		if evIdx < 0 {
			continue
		}
		eq, n := c05EventTypeTests(tr4, fn, mdaVal, func(o c05Origin) bool {
			return o.Kind == "param" && o.Fn == fn && o.Param == evIdx && o.Path == ".Metadata.EventType"
		})
		if n == 0 {
			continue
		}
		nHandlers++
		handlers = append(handlers, fn)
		c.analysed(fn)
		hn := fnName(fn)
		miss := c05SuccessWithout(fn, eq, barrier)
		c.check(len(eq) > 0 && len(miss) == 0, "D4", hn+"+member-device-added", fn.Pos(),
			"every success path of the GroupMemberDeviceAdded branch calls SendSecret",
			"the GroupMemberDeviceAdded branch can finish successfully without calling SendSecret (a newly seen member never receives this device's chain key): return at "+describeReturns(c, miss))
		// the member addressed is the MemberPk of the event
		reg := reachFromEdges(eq, nil)
		nCalls := 0
		for _, s := range c05FindSites(w, fn, func(_ string, cc *ssa.CallCommon) bool { return staticCallee(cc) == sendSecret }, 2) {
			first := s.site
			if len(s.chain) > 0 {
				first = s.chain[0]
			}
			if !reg[first.Block()] {
				continue
			}
			nCalls++
			call := s.site
			mo := c05NonConst(tr4.origins(call.Common().Args[2], s.ctx))
			okM := c05All(mo, func(o c05Origin) bool {
				if o.Kind != "written" || o.Path != ".MemberPk" || calleeKey(o.Call.Common()) != c05KeyProtoU {
					return false
				}
				ua := o.Call.Common().Args
				if mi, ok := ua[1].(*ssa.MakeInterface); !ok || !isNamed(mi.X.Type(), pkgTypes, "GroupMemberDeviceAdded") {
					return false
				}
				src := c05NonConst(tr4.contentOrigins(ua[0], o.Ctx, o.Call))
				return c05All(src, func(s c05Origin) bool {
					return s.Kind == "param" && s.Fn == fn && s.Param == evIdx && s.Path == ".Event"
				})
			})
			c.check(okM, "D4", hn+"+SendSecret.member", posOf(call),
				"the member addressed is the MemberPk decoded from the event",
				"SendSecret must address the MemberPk decoded from the GroupMemberDeviceAdded event (announcements are sealed for member keys) but is given: "+c05Describe(mo))
		}
		c.count("handler_SendSecret_sites", nCalls)
	}
	if nHandlers == 0 {
		c.fail("D4", an+"+member-device-handler", activate.Pos(), "no function reachable from %s reacts to GroupMemberDeviceAdded events: members seen after activation never receive this device's chain key", an)
	}

	// ---- (b) activation: subscribe, catch-up send, catch-up register
	var subs []ssa.Instruction
	for _, s := range c05FindSites(w, activate, keyIs(c05KeyBusSub), 2) {
		// the instruction of the activation function through which the subscription happens
		if len(s.chain) > 0 {
			subs = append(subs, s.chain[0])
		} else {
			subs = append(subs, s.site)
		}
	}
	c.count("subscription_sites", len(subs))
	type launch struct {
		in   ssa.Instruction
		what string
	}
	var launches []launch
	handlerStarted := false
	isHandler := map[*ssa.Function]bool{}
	for _, h := range handlers {
		isHandler[h] = true
	}
	for _, b := range activate.Blocks {
		for _, in := range b.Instrs {
			ci, ok := in.(ssa.CallInstruction)
			if !ok {
				continue
			}
			cal := c05CalleeOf(ci)
			if cal == nil || !inModule(cal) || cal.Blocks == nil {
				continue
			}
			handed, _ := c05HandedFuncs(c, ci)
			sub := c05Reachable(c, append([]*ssa.Function{cal}, handed...), 3)
			handles := false
			listed := map[string]bool{}
			for f := range sub {
				if isHandler[f] {
					handles = true
				}
				for _, lc := range callsIn(f, func(_ string, cc *ssa.CallCommon) bool {
					s := staticCallee(cc)
					return s == listMembers || s == listEvents
				}) {
					listed[staticCallee(lc.Common()).Name()] = true
				}
			}
			if handles {
				handlerStarted = true
				continue
			}
			if len(listed) > 0 {
				var names []string
				for n := range listed {
					names = append(names, n)
				}
				sort.Strings(names)
				launches = append(launches, launch{in, "catch-up over " + strings.Join(names, "+")})
			}
		}
	}
	c.check(handlerStarted && len(subs) > 0, "D4", an+"+handler-started", activate.Pos(),
		"activation subscribes to metadata events and starts the handler",
		"activation does not subscribe to the metadata event bus and start the event handler")
	for _, l := range launches {
		dom := false
		for _, s := range subs {
			if instrDominates(s, l.in) {
				dom = true
			}
		}
		c.check(dom, "D4", an+"+subscribe-before:"+l.what, posOf(l.in),
			"the catch-up over already stored entries starts after the subscription to new ones",
			"the "+l.what+" starts before the subscription to metadata events: an entry arriving in between is seen by neither")
	}
	// catch-up send
	var sendCores, regCores []ssa.Instruction
	nSendCatch := 0
	for _, fn := range rfuncs {
		if isHandler[fn] {
			continue
		}
		for _, b := range fn.Blocks {
			for _, in := range b.Instrs {
				if !isSend(in) {
					continue
				}
				call := in.(*ssa.Call)
				mo := c05NonConst(tr4.origins(call.Common().Args[2], nil))
				if !c05Any(mo, func(o c05Origin) bool { return o.Kind == "call" && c05CalleeOf(o.Call) == listMembers }) {
					continue
				}
				nSendCatch++
				sendCores = append(sendCores, in)
				c.analysed(fn)
				c.check(c05InCycle(b), "D4", fnName(fn)+"+SendSecret(listed members)", posOf(call),
					"activation sends the chain key to the members listed, in a loop over the list",
					"SendSecret on the member list is not inside a loop: only one listed member would be served")
			}
		}
	}
	if nSendCatch == 0 {
		c.fail("D4", an+"+catch-up-send", activate.Pos(), "no SendSecret call reachable from %s is fed from MetadataStore.ListMembers: members announced before activation never receive this device's chain key", an)
	}
	// catch-up register
	nRegCatch := 0
	for _, fn := range rfuncs {
		for _, b := range fn.Blocks {
			for _, in := range b.Instrs {
				ci, ok := in.(*ssa.Call)
				if !ok {
					continue
				}
				var flt *c05Filter
				for _, f := range filters {
					if c05CalleeOf(ci) == f.fn {
						flt = f
					}
				}
				if flt == nil {
					continue
				}
				mo := c05NonConst(tr4.origins(ci.Common().Args[flt.metaIdx], nil))
				if c05Any(mo, func(o c05Origin) bool { return o.Kind == "call" && c05CalleeOf(o.Call) == listEvents }) {
					nRegCatch++
					c.analysed(fn)
					c.check(c05InCycle(b), "D4", fnName(fn)+"+filter(listed events)", posOf(ci),
						"activation filters every listed metadata event for announcements addressed to this member",
						"the recipient filter over the listed events is not inside a loop")
				}
			}
		}
	}
	if nRegCatch == 0 {
		c.fail("D4", an+"+catch-up-register", activate.Pos(), "no recipient-filter call reachable from %s is fed from MetadataStore.ListEvents: announcements stored before activation are never registered", an)
	}
	// both catch-ups are reached on every successful path of the activation: no branch
	// (other than an error return of the activation itself) skips them
	for _, fn := range rfuncs {
		if isHandler[fn] {
			continue
		}
		for _, b := range fn.Blocks {
			for _, in := range b.Instrs {
				if ci, ok := in.(ssa.CallInstruction); ok {
					if _, _, isReg := c05IsRegisterCall(ci.Common(), nil); isReg {
						regCores = append(regCores, in)
					}
				}
			}
		}
	}
	if len(sendCores) > 0 {
		ok, why := c05Unconditional(c, activate, sendCores)
		c.check(ok, "D4", an+"+catch-up-send.unconditional", activate.Pos(),
			"every successful activation reaches the SendSecret loop over the listed members",
			"the activation can complete without running the SendSecret loop over the members already listed ("+why+"): members announced while no context was active never receive this device's chain key")
	}
	if len(regCores) > 0 && nRegCatch > 0 {
		ok, why := c05Unconditional(c, activate, regCores)
		c.check(ok, "D4", an+"+catch-up-register.unconditional", activate.Pos(),
			"every successful activation reaches the registration loop over the announcements already in the log",
			"the activation can complete without registering the announcements already in the log ("+why+"): chain keys published while no context was active (before activation, after a reopen) are never registered")
	}

	// ---- (c) SendSecret itself
	c05D4SendSecret(c, tr, sendSecret)
}

func c05D4SendSecret(c *Ctx, tr *c05Tracer, sendSecret *ssa.Function) {
	w := c.W
	sn := fnName(sendSecret)
	memberIdx := -1
	for i, p := range sendSecret.Params {
		if c05IsPubKey(p.Type()) {
			memberIdx = i
		}
	}
	if memberIdx < 0 {
		c.undecided("D4", sn, sendSecret.Pos(), "SendSecret has no public-key parameter")
		return
	}
	isMember := func(o c05Origin) bool {
		return o.Kind == "param" && o.Fn == sendSecret && o.Param == memberIdx && o.Path == ""
	}
	keyShare := "(" + pkgSecret + ".SecretStore).GetShareableChainKey"
	shares := c05FindSites(w, sendSecret, func(k string, cc *ssa.CallCommon) bool {
		return cc.IsInvoke() && cc.Method.Name() == "GetShareableChainKey" && isNamed(cc.Value.Type(), pkgSecret, "SecretStore")
	}, 3)
	if len(shares) == 0 {
		c.fail("D4", sn+"+GetShareableChainKey", sendSecret.Pos(), "SendSecret never asks the secret store for a shareable chain key")
	}
	for _, s := range shares {
		to := c05NonConst(tr.origins(s.site.Common().Args[2], s.ctx))
		c.check(c05All(to, isMember), "D4", sn+"+GetShareableChainKey.target", posOf(s.site),
			"the chain key is sealed for the member SendSecret was asked to address",
			"the chain key must be sealed for the member parameter of SendSecret but is sealed for: "+c05Describe(to))
	}
	// the published event
	type pub struct {
		alloc *ssa.Alloc
		fn    *ssa.Function
		ctx   *c05Frame
	}
	var pubs []pub
	var walk func(fn *ssa.Function, ctx *c05Frame, d int, seen map[*ssa.Function]bool)
	walk = func(fn *ssa.Function, ctx *c05Frame, d int, seen map[*ssa.Function]bool) {
		if seen[fn] || fn.Blocks == nil {
			return
		}
		seen[fn] = true
		for _, b := range fn.Blocks {
			for _, in := range b.Instrs {
				if al, ok := in.(*ssa.Alloc); ok {
					el := al.Type().(*types.Pointer).Elem()
					if _, isPtr := el.(*types.Pointer); !isPtr && isNamed(el, pkgTypes, "GroupDeviceChainKeyAdded") {
						pubs = append(pubs, pub{al, fn, ctx})
					}
				}
				if ci, ok := in.(ssa.CallInstruction); ok && d < 3 {
					if cal := c05CalleeOf(ci); cal != nil && inModule(cal) && fnPkg(cal).Path() == pkgRoot {
						depth := 1
						if ctx != nil {
							depth = ctx.depth + 1
						}
						walk(cal, &c05Frame{site: ci, up: ctx, depth: depth}, d+1, seen)
					}
				}
			}
		}
	}
	walk(sendSecret, nil, 0, map[*ssa.Function]bool{})
	if len(pubs) == 0 {
		c.fail("D4", sn+"+announcement", sendSecret.Pos(), "SendSecret builds no GroupDeviceChainKeyAdded event")
	}
	for _, p := range pubs {
		c.analysed(p.fn)
		cons := sn + "+" + "GroupDeviceChainKeyAdded"
		field := func(name string) []c05Origin {
			return c05NonConst(tr.loadOpt(c05Origin{Kind: "alloc", Val: p.alloc, Ctx: p.ctx, Path: "." + name}, nil, true))
		}
		dest := field("DestMemberPk")
		c.check(c05All(dest, isMember), "D4", cons+".DestMemberPk", p.alloc.Pos(),
			"the announcement is addressed (DestMemberPk) to the member it is sealed for",
			"DestMemberPk of the published announcement must be the member parameter of SendSecret (the recipient filter selects on it) but derives from: "+c05Describe(dest))
		payload := field("Payload")
		c.check(c05All(payload, func(o c05Origin) bool { return o.hasVia(keyShare) }), "D4", cons+".Payload", p.alloc.Pos(),
			"the published payload is the sealed chain key returned by GetShareableChainKey",
			"the Payload of the published announcement must be the bytes returned by GetShareableChainKey but derives from: "+c05Describe(payload))
		dev := field("DevicePk")
		c.check(c05All(dev, func(o c05Origin) bool {
			return o.hasVia("("+pkgSecret+".OwnMemberDevice).Device") && !o.hasVia("("+pkgSecret+".OwnMemberDevice).Member")
		}), "D4", cons+".DevicePk", p.alloc.Pos(),
			"the announcement names the own device key as sender",
			"DevicePk of the published announcement must be the own device public key (the box is sealed with the device private key) but derives from: "+c05Describe(dev))
	}
	// no success return skips publishing
	isPublish := func(in ssa.Instruction) bool {
		ci, ok := in.(*ssa.Call)
		if !ok {
			return false
		}
		cal := c05CalleeOf(ci)
		if cal == nil {
			return false
		}
		for _, p := range pubs {
			if p.fn == cal {
				return true
			}
			for f := p.ctx; f != nil; f = f.up {
				if f.site == ssa.CallInstruction(ci) {
					return true
				}
			}
		}
		return false
	}
	inSelf := false
	for _, p := range pubs {
		if p.fn == sendSecret {
			inSelf = true
		}
	}
	if len(pubs) > 0 && !inSelf {
		miss := c05SuccessWithout(sendSecret, []edge{{nil, sendSecret.Blocks[0]}}, isPublish)
		c.check(len(miss) == 0, "D4", sn+"+always-publishes", sendSecret.Pos(),
			"every success return of SendSecret follows the publication of the announcement",
			"SendSecret can return success without publishing an announcement (the caller believes the member was served): return at "+describeReturns(c, miss))
	}
}

// ---------------------------------------------------------------------------
// D5: the "already sent" set is fed only by this device's own announcements

const (
	c05PkgErrcode   = modulePath + "/pkg/errcode"
	c05NsChainKey   = "chainKeyForDeviceOnGroup"
	c05ErrAlreadyTo = "ErrCode_ErrGroupSecretAlreadySentToMember"
)

type c05SetField struct {
	owner *types.Named
	field string
}

// c05PresenceFields: the struct fields (maps) whose key presence decides bool value v, looking
// one module callee deep.
func c05PresenceFields(w *World, v ssa.Value) []c05SetField {
	for {
		if u, ok := v.(*ssa.UnOp); ok && u.Op == token.NOT {
			v = u.X
			continue
		}
		break
	}
	tr := newC05Tracer(w, nil)
	var os []c05Origin
	var call *ssa.Call
	idx := 0
	switch x := v.(type) {
	case *ssa.Call:
		call = x
	case *ssa.Extract:
		if cl, ok := x.Tuple.(*ssa.Call); ok {
			call, idx = cl, x.Index
		}
	}
	if cal := (*ssa.Function)(nil); call != nil {
		cal = c05CalleeOf(call)
		if cal != nil && cal.Blocks != nil && inModule(cal) {
			for _, r := range returnsOf(cal) {
				rs := retResults(r)
				if idx >= len(rs) {
					continue
				}
				os = append(os, tr.origins(rs[idx], nil)...)
				// a constant result chosen by a test of key presence (check-and-mark helpers)
				if _, isConst := constBool(rs[idx]); isConst {
					for _, b := range cal.Blocks {
						if len(b.Instrs) == 0 {
							continue
						}
						ifi, ok := b.Instrs[len(b.Instrs)-1].(*ssa.If)
						if !ok {
							continue
						}
						for _, su := range b.Succs {
							if edgeDominates(edge{b, su}, r.Block()) {
								os = append(os, tr.origins(ifi.Cond, nil)...)
							}
						}
					}
				}
			}
		}
	}
	if os == nil {
		os = tr.origins(v, nil)
	}
	var out []c05SetField
	for _, o := range os {
		if o.Kind != "param" || !strings.HasSuffix(o.Path, "[?]") || o.Param >= len(o.Fn.Params) {
			continue
		}
		f := strings.TrimSuffix(strings.TrimPrefix(o.Path, "."), "[?]")
		if f == "" || strings.ContainsAny(f, ".[<") {
			continue
		}
		n := c05Named(o.Fn.Params[o.Param].Type())
		if n == nil {
			continue
		}
		dup := false
		for _, e := range out {
			if e.owner.Obj() == n.Obj() && e.field == f {
				dup = true
			}
		}
		if !dup {
			out = append(out, c05SetField{n, f})
		}
	}
	return out
}

func c05D5(c *Ctx) {
	w := c.W
	sendSecret := w.lookupMethod(pkgRoot, "MetadataStore", "SendSecret")
	ep := w.typesPkg(c05PkgErrcode)
	if sendSecret == nil || sendSecret.Blocks == nil || ep == nil {
		c.undecided("D5", "anchors", token.NoPos, "MetadataStore.SendSecret / package errcode not found")
		return
	}
	cst, _ := ep.Scope().Lookup(c05ErrAlreadyTo).(*types.Const)
	if cst == nil {
		c.undecided("D5", c05ErrAlreadyTo, token.NoPos, "error constant not found")
		return
	}
	want, _ := constant.Int64Val(cst.Val())
	sn := fnName(sendSecret)
	// the refusal returns and the tests that lead to them
	var fields []c05SetField
	nRefusals := 0
	ei := errResultIndex(sendSecret.Signature)
	for _, r := range returnsOf(sendSecret) {
		rs := retResults(r)
		if ei < 0 || ei >= len(rs) {
			continue
		}
		k, ok := stripConv(rs[ei]).(*ssa.Const)
		if !ok || k.Value == nil || !isNamed(k.Type(), c05PkgErrcode, "ErrCode") {
			continue
		}
		if v, ok := constInt(k); !ok || v != want {
			continue
		}
		nRefusals++
		for _, b := range sendSecret.Blocks {
			if len(b.Instrs) == 0 {
				continue
			}
			ifi, ok := b.Instrs[len(b.Instrs)-1].(*ssa.If)
			if !ok {
				continue
			}
			leads := false
			for _, su := range b.Succs {
				if edgeDominates(edge{b, su}, r.Block()) {
					leads = true
				}
			}
			if leads {
				fields = append(fields, c05PresenceFields(w, ifi.Cond)...)
			}
		}
	}
	if nRefusals == 0 {
		c.note("SendSecret has no 'already sent to member' refusal: D5 has no subject")
		c.ok("D5", sn+"+already-sent-set", sendSecret.Pos(), "SendSecret never refuses with 'already sent': nothing can silence it")
		return
	}
	if len(fields) == 0 {
		c.undecided("D5", sn+"+already-sent-set", sendSecret.Pos(), "the 'already sent to member' refusal of SendSecret does not depend on the key presence of a map field (shape not modelled)")
		return
	}
	var fnames []string
	for _, f := range fields {
		fnames = append(fnames, f.owner.Obj().Name()+"."+f.field)
	}
	c.ok("D5", sn+"+already-sent-set", sendSecret.Pos(), "the 'already sent' refusal reads the key set %s", strings.Join(fnames, ", "))

	devVia := func(o c05Origin) (dev, mem bool) {
		for _, v := range o.Via {
			for _, in := range []string{"OwnMemberDevice", "MemberDevice"} {
				if v == "("+pkgSecret+"."+in+").Device" {
					dev = true
				}
				if v == "("+pkgSecret+"."+in+").Member" {
					mem = true
				}
			}
		}
		return
	}
	tr := newC05Tracer(w, nil)
	for _, sf := range fields {
		setName := sf.owner.Obj().Name() + "." + sf.field
		isOwnerParam := func(o c05Origin) bool {
			if o.Kind != "param" || o.Param >= len(o.Fn.Params) {
				return false
			}
			n := c05Named(o.Fn.Params[o.Param].Type())
			return n != nil && n.Obj() == sf.owner.Obj()
		}
		nWrites := 0
		for _, fn := range w.ModFuncs {
			if fnPkg(fn) == nil || fnPkg(fn).Path() != sf.owner.Obj().Pkg().Path() {
				continue
			}
			for _, b := range fn.Blocks {
				for _, in := range b.Instrs {
					switch x := in.(type) {
					case *ssa.Store:
						fa, ok := x.Addr.(*ssa.FieldAddr)
						if !ok || c05FieldName(fa.X.Type(), fa.Field) != sf.field {
							continue
						}
						if n := c05Named(fa.X.Type()); n == nil || n.Obj() != sf.owner.Obj() {
							continue
						}
						c.analysed(fn)
						empty := true
						vo := tr.origins(x.Val, nil)
						for _, o := range vo {
							if o.Kind == "const" && isNilConst(o.Val) {
								continue
							}
							if o.Kind != "make" {
								empty = false
								continue
							}
							if refs := o.Val.Referrers(); refs != nil {
								for _, r := range *refs {
									if _, isMU := r.(*ssa.MapUpdate); isMU {
										empty = false
									}
								}
							}
						}
						c.check(empty, "D5", fnName(fn)+"+init("+setName+")", x.Pos(),
							"the set is (re)initialised empty",
							"the already-sent set "+setName+" is replaced wholesale by a map that is not freshly made and empty: "+c05Describe(c05NonConst(vo)))
					case *ssa.MapUpdate:
						mo := tr.origins(x.Map, nil)
						if !c05Any(mo, func(o c05Origin) bool { return isOwnerParam(o) && o.Path == "."+sf.field }) {
							continue
						}
						nWrites++
						c.analysed(fn)
						cons := fnName(fn) + "+write(" + setName + ")"
						if c05D5Reservation(c, tr, sendSecret, sf, x, isOwnerParam, cons) {
							continue
						}
						// comparisons of the own device key with the event's sender device key
						type cmp struct {
							v   ssa.Value
							ops []ssa.Value
							neq bool
						}
						var cmps []cmp
						for _, b2 := range fn.Blocks {
							for _, in2 := range b2.Instrs {
								switch y := in2.(type) {
								case *ssa.Call:
									if !isBoolType(y.Type()) {
										continue
									}
									ops := y.Common().Args
									if y.Common().IsInvoke() {
										ops = append([]ssa.Value{y.Common().Value}, ops...)
									}
									cmps = append(cmps, cmp{y, ops, false})
								case *ssa.BinOp:
									if y.Op == token.EQL || y.Op == token.NEQ {
										cmps = append(cmps, cmp{y, []ssa.Value{y.X, y.Y}, y.Op == token.NEQ})
									}
								}
							}
						}
						guarded := false
						nCmp := 0
						for _, cm := range cmps {
							own, sender := false, false
							for _, op := range cm.ops {
								oo := c05NonConst(tr.contentOrigins(op, nil, cm.v.(ssa.Instruction)))
								if c05All(oo, func(o c05Origin) bool {
									dev, mem := devVia(o)
									f := strings.TrimPrefix(o.Path, ".")
									return isOwnerParam(o) && dev && !mem && f != "" && !strings.ContainsAny(f, ".[<")
								}) {
									own = true
								}
								if c05All(oo, func(o c05Origin) bool {
									return o.Kind == "param" && o.Fn == fn && !isOwnerParam(o) && o.Path == ".DevicePk"
								}) {
									sender = true
								}
							}
							if !own || !sender {
								continue
							}
							nCmp++
							ve := edgesOfVerdict(cm.v)
							eq := ve.Accept
							if cm.neq {
								eq = ve.Reject
							}
							for _, e := range eq {
								if edgeDominates(e, x.Block()) {
									guarded = true
								}
							}
						}
						why := "there is no comparison of the index's own device key with the DevicePk of the indexed event"
						if nCmp > 0 {
							why = "the write is reachable without that comparison having found them equal (e.g. a disjunction with another test)"
						}
						c.check(guarded, "D5", cons+".guard", x.Pos(),
							"the set is written only on the equal side of (own device key == sender DevicePk of the event)",
							"a member is marked 'already served' ("+setName+") although the indexed announcement was not sent by THIS device: "+why+"; SendSecret would then refuse that member forever and this device's chain key is never published to it")
						ko := c05NonConst(tr.origins(x.Key, nil))
						c.check(c05All(ko, func(o c05Origin) bool {
							return o.Kind == "param" && o.Fn == fn && !isOwnerParam(o) && o.Path == ".DestMemberPk"
						}), "D5", cons+".key", x.Pos(),
							"the member marked is the DestMemberPk of the indexed announcement",
							"the member marked 'already served' must be the DestMemberPk of the indexed announcement but derives from: "+c05Describe(ko))
					}
				}
			}
		}
		c.count("already_sent_set_writes", nWrites)
	}
}

// ---------------------------------------------------------------------------
// D6: get-or-create of the own chain key is one write-locked critical section

func c05D6(c *Ctx, sealEntry *ssa.Function) {
	w := c.W
	ei := w.effects()
	li := w.locks()
	isCK := func(t types.Type) bool {
		_, isPtr := t.(*types.Pointer)
		return isPtr && isNamed(t, pkgTypes, "DeviceChainKey")
	}
	getP, putP := eff("Get|Has", c05NsChainKey), eff("Put", c05NsChainKey)
	reach := w.reachableFuncs([]*ssa.Function{sealEntry}, 3)
	var fns []*ssa.Function
	for fn := range reach {
		fns = append(fns, fn)
	}
	sort.Slice(fns, func(i, j int) bool { return fns[i].String() < fns[j].String() })
	n := 0
	for _, fn := range fns {
		res := fn.Signature.Results()
		if res.Len() == 0 || !isCK(res.At(0).Type()) {
			continue
		}
		var lookups, puts []effectSite
		for _, s := range ei.sitesIn(fn) {
			if _, isCall := s.Instr.(*ssa.Call); !isCall {
				continue
			}
			if s.has(putP) {
				puts = append(puts, s)
			} else if s.has(getP) && s.pureLookup() {
				lookups = append(lookups, s)
			}
		}
		if len(puts) == 0 || len(lookups) == 0 {
			continue
		}
		c.analysed(fn)
		for _, p := range puts {
			n++
			pi := p.Instr.(ssa.Instruction)
			cons := fnName(fn) + "+get-or-create"
			if p.Callee != nil {
				cons += "->" + fnName(p.Callee)
			}
			heldP := li.heldAt(pi)
			var wclasses []string
			for _, k := range heldP.list() {
				if strings.HasSuffix(k, "/W") {
					wclasses = append(wclasses, strings.TrimSuffix(k, "/W"))
				}
			}
			if len(wclasses) == 0 {
				c.fail("D6", cons, posOf(pi), "the own chain key is created and stored without holding a write lock: two callers can each generate a key, one of them is sealed and published but never stored")
				continue
			}
			okAny := false
			why := "no lookup of the stored chain key dominates the store"
			for _, l := range lookups {
				lin := l.Instr.(ssa.Instruction)
				if !instrDominates(lin, pi) {
					continue
				}
				heldL := li.heldAt(lin)
				for _, cl := range wclasses {
					if !heldL.holds(cl, 'W') {
						why = fmt.Sprintf("the lookup at %s that finds the key missing does not hold the write lock %s under which the key is stored (held there: %v)", c.pos(posOf(lin)), cl, heldL.list())
						continue
					}
					released := ""
					for _, b := range fn.Blocks {
						for _, in := range b.Instrs {
							ci, ok := in.(ssa.CallInstruction)
							if !ok {
								continue
							}
							op, ok := lockOpOf(ci)
							if !ok || op.Acquire || op.Deferred || op.Class != cl {
								continue
							}
							if instrReaches(lin, in) && instrReaches(in, pi) {
								released = c.pos(posOf(in))
							}
						}
					}
					if released != "" {
						why = fmt.Sprintf("the lock %s is released at %s between the lookup and the store", cl, released)
						continue
					}
					okAny = true
				}
			}
			c.check(okAny, "D6", cons, posOf(pi),
				"lookup, generation and store of the own chain key happen in one uninterrupted write-locked section",
				"the own chain key is stored outside the critical section of the lookup that found it missing: "+why+"; the loser of a race returns a freshly generated key that is never stored, and GetShareableChainKey seals and publishes it")
		}
	}
	if n == 0 {
		c.undecided("D6", fnName(sealEntry)+"+get-or-create", sealEntry.Pos(), "no function reachable from %s returns a *DeviceChainKey and both looks up and stores under namespace %s", fnName(sealEntry), c05NsChainKey)
	}
}

// ---------------------------------------------------------------------------
// D7: one unopenable metadata entry must not stop the emission of the others

const c05KeyEmit = "(github.com/libp2p/go-libp2p/core/event.Emitter).Emit"

func c05ReachesFromSuccs(from, to *ssa.BasicBlock) bool {
	for _, s := range from.Succs {
		if s == to || reach(s, nil)[to] {
			return true
		}
	}
	return false
}

// c05LoopOf: innermost natural loop (header, blocks) containing b, nil when b is in no loop.
func c05LoopOf(b *ssa.BasicBlock) (*ssa.BasicBlock, map[*ssa.BasicBlock]bool) {
	fn := b.Parent()
	var hdr *ssa.BasicBlock
	for _, h := range fn.Blocks {
		if !h.Dominates(b) || !c05ReachesFromSuccs(b, h) {
			continue
		}
		// a header has a back edge: a predecessor it dominates
		back := false
		for _, p := range h.Preds {
			if h.Dominates(p) {
				back = true
			}
		}
		if !back {
			continue
		}
		if hdr == nil || hdr.Dominates(h) {
			hdr = h
		}
	}
	if hdr == nil {
		return nil, nil
	}
	blocks := map[*ssa.BasicBlock]bool{}
	for _, x := range fn.Blocks {
		if hdr.Dominates(x) && (x == hdr || c05ReachesFromSuccs(x, hdr)) {
			blocks[x] = true
		}
	}
	return hdr, blocks
}

// c05LeavesLoop: an instruction through which control, started on the given edges, leaves
// the loop before reaching its header again; nil when every path reaches the next iteration.
func c05LeavesLoop(hdr *ssa.BasicBlock, blocks map[*ssa.BasicBlock]bool, starts []edge) ssa.Instruction {
	seen := map[*ssa.BasicBlock]bool{}
	var stack []edge
	stack = append(stack, starts...)
	for len(stack) > 0 {
		e := stack[len(stack)-1]
		stack = stack[:len(stack)-1]
		if !blocks[e.To] {
			if len(e.To.Instrs) > 0 {
				// report the exit itself when it is a return, else the branch taken
				if r, ok := e.To.Instrs[len(e.To.Instrs)-1].(*ssa.Return); ok {
					return r
				}
			}
			if e.From != nil && len(e.From.Instrs) > 0 {
				return e.From.Instrs[len(e.From.Instrs)-1]
			}
			return e.To.Instrs[0]
		}
		if e.To == hdr || seen[e.To] {
			continue
		}
		seen[e.To] = true
		for _, s := range e.To.Succs {
			stack = append(stack, edge{e.To, s})
		}
	}
	return nil
}

func c05D7(c *Ctx) {
	w := c.W
	isGME := func(t types.Type) bool {
		_, isPtr := t.(*types.Pointer)
		return isPtr && isNamed(t, pkgTypes, "GroupMetadataEvent")
	}
	isOpener := func(fn *ssa.Function) bool {
		if fn == nil || !inModule(fn) {
			return false
		}
		res := fn.Signature.Results()
		return res.Len() >= 2 && isGME(res.At(0).Type()) && errResultIndex(fn.Signature) >= 0
	}
	isEmitGME := func(in ssa.Instruction) bool {
		ci, ok := in.(*ssa.Call)
		if !ok || calleeKey(ci.Common()) != c05KeyEmit || len(ci.Common().Args) == 0 {
			return false
		}
		return isGME(stripConv(ci.Common().Args[0]).Type())
	}
	isEmit := func(in ssa.Instruction) bool {
		ci, ok := in.(*ssa.Call)
		return ok && calleeKey(ci.Common()) == c05KeyEmit
	}
	// helpers that emit a *GroupMetadataEvent on every path to their returns
	emitsAlways := map[*ssa.Function]bool{}
	for _, fn := range w.ModFuncs {
		if fnPkg(fn) == nil || fnPkg(fn).Path() != pkgRoot || len(fn.Blocks) == 0 {
			continue
		}
		has := false
		for _, b := range fn.Blocks {
			if c05BlockHas(b, isEmitGME) {
				has = true
			}
		}
		if !has {
			continue
		}
		ok := true
		seen := map[*ssa.BasicBlock]bool{fn.Blocks[0]: true}
		stack := []*ssa.BasicBlock{fn.Blocks[0]}
		for len(stack) > 0 {
			b := stack[len(stack)-1]
			stack = stack[:len(stack)-1]
			if c05BlockHas(b, isEmitGME) {
				continue
			}
			if len(b.Instrs) > 0 {
				if _, isRet := b.Instrs[len(b.Instrs)-1].(*ssa.Return); isRet && b != fn.Recover {
					ok = false
				}
			}
			for _, su := range b.Succs {
				if !seen[su] {
					seen[su] = true
					stack = append(stack, su)
				}
			}
		}
		if ok {
			emitsAlways[fn] = true
		}
	}
	emitBarrier := func(in ssa.Instruction) bool {
		if isEmitGME(in) {
			return true
		}
		if ci, ok := in.(*ssa.Call); ok {
			if cal := c05CalleeOf(ci); cal != nil && emitsAlways[cal] {
				return true
			}
		}
		return false
	}

	// checkStays: the failing side of call (verdict v, may be nil = cannot fail visibly) stays
	// in the loop around it; when the call is in no loop of its function, the loop is looked for
	// around the module call sites of that function.
	var checkStays func(site ssa.Instruction, starts []edge, what, cons string, depth int) (found bool)
	checkStays = func(site ssa.Instruction, starts []edge, what, cons string, depth int) bool {
		fn := site.Parent()
		hdr, blocks := c05LoopOf(site.Block())
		if hdr != nil {
			if out := c05LeavesLoop(hdr, blocks, starts); out != nil {
				how := "leaves the loop"
				if _, isRet := out.(*ssa.Return); isRet {
					how = "returns out of the loop"
				}
				c.fail("D7", cons, posOf(site), "a failing %s in %s %s over the store's entries at %s: the entries behind it in the batch are never emitted, so the activated group context never sees their GroupMemberDeviceAdded / GroupDeviceChainKeyAdded events (no announcement, no registration)", what, fnName(fn), how, c.pos(posOf(out)))
			} else {
				c.ok("D7", cons, posOf(site), "a failing %s reaches the next iteration of the loop in %s", what, fnName(fn))
			}
			return true
		}
		if depth >= 3 {
			return false
		}
		// a failure the function absorbs (every return reachable from the failing side carries
		// a nil error) is invisible to its callers and cannot stop their loop
		if idx := errResultIndex(fn.Signature); idx >= 0 && len(starts) > 0 {
			region := reachFromEdges(starts, nil)
			visible := false
			for _, r := range returnsOf(fn) {
				if rs := retResults(r); region[r.Block()] && idx < len(rs) && !isNilConst(rs[idx]) {
					visible = true
				}
			}
			if !visible {
				c.ok("D7", cons, posOf(site), "a failing %s is absorbed by %s (only nil-error returns follow it)", what, fnName(fn))
				return true
			}
		}
		found := false
		for _, cs := range w.callGraph().callers[fn] {
			in, ok := cs.Instr.(ssa.Instruction)
			if !ok {
				continue
			}
			var st []edge
			if call, isCall := cs.Instr.(*ssa.Call); isCall {
				if v := errVerdict(call); v != nil {
					st = edgesOfVerdict(v).Reject
				}
			}
			if checkStays(in, st, what+" (reported by "+fnName(fn)+")", cons+"<-"+fnName(cs.Caller), depth+1) {
				found = true
			}
		}
		return found
	}

	nSubs := 0
	for _, fn := range w.ModFuncs {
		if fnPkg(fn) == nil || fnPkg(fn).Path() != pkgRoot || len(fn.Blocks) == 0 {
			continue
		}
		var opens []*ssa.Call
		emits := false
		for _, b := range fn.Blocks {
			for _, in := range b.Instrs {
				if ci, ok := in.(*ssa.Call); ok && isOpener(c05CalleeOf(ci)) {
					opens = append(opens, ci)
				}
				if emitBarrier(in) {
					emits = true
				}
			}
		}
		if len(opens) == 0 || !emits || isOpener(fn) {
			continue
		}
		nSubs++
		c.analysed(fn)
		name := fnName(fn)
		for _, o := range opens {
			ev := errVerdict(o)
			if ev == nil {
				c.fail("D7", name+"+open-failure", posOf(o), "the error of the per-entry open call is discarded in %s: unopenable entries are emitted as events", name)
				continue
			}
			ve := edgesOfVerdict(ev)
			if !checkStays(o, ve.Reject, "open of a log entry", name+"+open-failure", 0) {
				c.undecided("D7", name+"+open-failure", posOf(o), "no loop over the store's entries found around the per-entry open call of %s or around its call sites", name)
			}
			// every opened entry is emitted before the next one is looked at
			hdr, blocks := c05LoopOf(o.Block())
			if hdr != nil {
				seen := map[*ssa.BasicBlock]bool{}
				var stack []*ssa.BasicBlock
				for _, e := range ve.Accept {
					stack = append(stack, e.To)
				}
				skipped := false
				for len(stack) > 0 {
					b := stack[len(stack)-1]
					stack = stack[:len(stack)-1]
					if seen[b] || !blocks[b] {
						continue
					}
					seen[b] = true
					if b == hdr {
						skipped = true
						continue
					}
					if c05BlockHas(b, emitBarrier) {
						continue
					}
					stack = append(stack, b.Succs...)
				}
				c.check(!skipped, "D7", name+"+emitted", posOf(o),
					"every opened entry reaches the Emit of its *GroupMetadataEvent before the next entry",
					"an opened entry can reach the next iteration without its *GroupMetadataEvent having been emitted (e.g. after a failed Emit of another event): the group context never sees it")
			} else {
				miss := c05SuccessWithout(fn, ve.Accept, emitBarrier)
				var allRet []*ssa.Return
				if len(miss) == 0 {
					// functions without error result: any return counts
					reg := reachFromEdges(ve.Accept, nil)
					for _, r := range returnsOf(fn) {
						if reg[r.Block()] && !c05BlockHas(r.Block(), emitBarrier) {
							dominated := false
							for _, b := range fn.Blocks {
								if c05BlockHas(b, emitBarrier) && b.Dominates(r.Block()) && reg[b] {
									dominated = true
								}
							}
							if !dominated {
								allRet = append(allRet, r)
							}
						}
					}
				}
				c.check(len(miss) == 0 && len(allRet) == 0, "D7", name+"+emitted", posOf(o),
					"every opened entry reaches the Emit of its *GroupMetadataEvent",
					"an opened entry can be dropped without its *GroupMetadataEvent having been emitted: return at "+describeReturns(c, append(miss, allRet...)))
			}
		}
		// Emit failures
		for _, b := range fn.Blocks {
			for _, in := range b.Instrs {
				if !isEmit(in) {
					continue
				}
				call := in.(*ssa.Call)
				what := "Emit"
				if len(call.Common().Args) > 0 {
					if n := c05Named(stripConv(call.Common().Args[0]).Type()); n != nil {
						what = "Emit(" + n.Obj().Name() + ")"
					}
				}
				cons := name + "+" + what + "-failure"
				ev := errVerdict(call)
				if ev == nil {
					c.ok("D7", cons, posOf(call), "the Emit error is not looked at: it cannot stop the loop")
					continue
				}
				if !checkStays(call, edgesOfVerdict(ev).Reject, what, cons, 0) {
					c.undecided("D7", cons, posOf(call), "no loop over the store's entries found around %s in %s or around its call sites", what, name)
				}
			}
		}
	}
	if nSubs == 0 {
		c.undecided("D7", "metadata store-event subscriber", token.NoPos, "no function in %s opens log entries into *GroupMetadataEvent and emits them on the event bus", pkgRoot)
	}
}

// c05D5Reservation: when SendSecret itself (or a module callee, depth <= 2) marks its member
// parameter in the already-sent set ("reservation"), every path of SendSecret from the
// reservation to a return that does not follow a successful publication must undo it (delete
// of the same key in the same set). Returns false when mu is not such a reservation.
func c05D5Reservation(c *Ctx, tr *c05Tracer, sendSecret *ssa.Function, sf c05SetField, mu *ssa.MapUpdate, isOwnerParam func(c05Origin) bool, cons string) bool {
	memberIdx := -1
	for i, p := range sendSecret.Params {
		if c05IsPubKey(p.Type()) {
			memberIdx = i
		}
	}
	if memberIdx < 0 {
		return false
	}
	isMember := func(o c05Origin) bool { return o.Kind == "param" && o.Fn == sendSecret && o.Param == memberIdx }
	isSet := func(m ssa.Value) bool {
		return c05Any(tr.origins(m, nil), func(o c05Origin) bool { return isOwnerParam(o) && o.Path == "."+sf.field })
	}
	frames := c05Frames(sendSecret, 2)
	var resFrame *c05FrameOf
	for i := range frames {
		if frames[i].fn == mu.Parent() {
			if c05All(c05NonConst(tr.origins(mu.Key, frames[i].ctx)), isMember) {
				resFrame = &frames[i]
			}
		}
	}
	if resFrame == nil {
		return false
	}
	setName := sf.owner.Obj().Name() + "." + sf.field
	sn := fnName(sendSecret)
	// where the reservation has happened, seen from SendSecret
	var starts []edge
	var startInstr ssa.Instruction
	if len(resFrame.chain) == 0 {
		startInstr = mu
	} else {
		site := resFrame.chain[0]
		startInstr = site
		// polarity of a bool result: the value returned after the write vs. without it
		if call, ok := site.(*ssa.Call); ok && len(resFrame.chain) == 1 {
			f := resFrame.fn
			after := reach(mu.Block(), nil)
			for i := 0; i < f.Signature.Results().Len(); i++ {
				if !isBoolType(f.Signature.Results().At(i).Type()) {
					continue
				}
				var wrote, not []bool
				known := true
				for _, r := range returnsOf(f) {
					rs := retResults(r)
					b, isC := constBool(rs[i])
					if !isC {
						known = false
						continue
					}
					if after[r.Block()] {
						wrote = append(wrote, b)
					} else if isSuccessReturn(r) {
						not = append(not, b)
					}
				}
				same := func(l []bool, v bool) bool {
					for _, x := range l {
						if x != v {
							return false
						}
					}
					return true
				}
				if !known || len(wrote) == 0 || !same(wrote, wrote[0]) || !same(not, !wrote[0]) {
					continue
				}
				if rv := resultValue(call, i); rv != nil {
					ve := edgesOfVerdict(rv)
					if wrote[0] {
						starts = ve.Accept
					} else {
						starts = ve.Reject
					}
				}
			}
		}
	}
	if len(starts) == 0 {
		// unconditional reservation: everything after the instruction
		b := startInstr.Block()
		for _, su := range b.Succs {
			starts = append(starts, edge{b, su})
		}
	}
	// releases and publications, seen from SendSecret
	release := map[ssa.Instruction]bool{}
	publish := map[ssa.Instruction]bool{}
	for _, fr := range frames {
		top := func(in ssa.Instruction) ssa.Instruction {
			if len(fr.chain) > 0 {
				return fr.chain[0].(ssa.Instruction)
			}
			return in
		}
		for _, b := range fr.fn.Blocks {
			for _, in := range b.Instrs {
				switch x := in.(type) {
				case *ssa.Call:
					if bi, ok := x.Common().Value.(*ssa.Builtin); ok && bi.Name() == "delete" && len(x.Common().Args) == 2 {
						if isSet(x.Common().Args[0]) && c05All(c05NonConst(tr.origins(x.Common().Args[1], fr.ctx)), isMember) {
							release[top(in)] = true
						}
					}
				case *ssa.Alloc:
					el := x.Type().(*types.Pointer).Elem()
					if _, isPtr := el.(*types.Pointer); !isPtr && isNamed(el, pkgTypes, "GroupDeviceChainKeyAdded") {
						publish[top(in)] = true
					}
				}
			}
		}
	}
	cut := map[edge]bool{}
	tail := map[ssa.Value]bool{}
	for in := range publish {
		if call, ok := in.(*ssa.Call); ok {
			if ev := errVerdict(call); ev != nil {
				for _, e := range edgesOfVerdict(ev).Accept {
					cut[e] = true
				}
				tail[ev] = true
			}
		}
	}
	seen := map[*ssa.BasicBlock]bool{}
	var stack []edge
	stack = append(stack, starts...)
	var leak *ssa.Return
	for len(stack) > 0 && leak == nil {
		e := stack[len(stack)-1]
		stack = stack[:len(stack)-1]
		if cut[e] || seen[e.To] {
			continue
		}
		seen[e.To] = true
		released := false
		for _, in := range e.To.Instrs {
			if release[in] {
				released = true
			}
		}
		if released {
			continue
		}
		if n := len(e.To.Instrs); n > 0 {
			if r, ok := e.To.Instrs[n-1].(*ssa.Return); ok && e.To != sendSecret.Recover {
				leak = r
				continue
			}
		}
		for _, su := range e.To.Succs {
			stack = append(stack, edge{e.To, su})
		}
	}
	why := ""
	if leak != nil {
		why = "return at " + c.pos(posOf(leak))
		if len(release) == 0 {
			why += " (the reservation is never undone)"
		}
	}
	c.check(leak == nil, "D5", cons+".reservation", mu.Pos(),
		"SendSecret reserves its member in "+setName+" and undoes the reservation on every path that does not follow a successful publication",
		sn+" marks its member as served in "+setName+" before publishing, and a path that publishes nothing keeps the mark ("+why+"): every later SendSecret for that member answers 'already sent', which the callers take for success, so the member never receives this device's chain key")
	return true
}

// c05Unconditional: every success return of root is preceded by the constructs in cores (a
// construct inside a loop counts as reached when the loop is entered), directly or through
// calls / go statements to module functions all of whose returns are preceded by them.
func c05Unconditional(c *Ctx, root *ssa.Function, cores []ssa.Instruction) (bool, string) {
	barrierBlk := map[*ssa.BasicBlock]bool{}
	coreFns := map[*ssa.Function]bool{}
	for _, in := range cores {
		coreFns[in.Parent()] = true
		if hdr, _ := c05LoopOf(in.Block()); hdr != nil {
			barrierBlk[hdr] = true
		} else {
			barrierBlk[in.Block()] = true
		}
	}
	reachesCore := map[*ssa.Function]bool{}
	reaches := func(fn *ssa.Function) bool {
		if v, ok := reachesCore[fn]; ok {
			return v
		}
		r := false
		for f := range c05Reachable(c, []*ssa.Function{fn}, 3) {
			if coreFns[f] {
				r = true
			}
		}
		reachesCore[fn] = r
		return r
	}
	memo := map[*ssa.Function]bool{}
	busy := map[*ssa.Function]bool{}
	miss := map[*ssa.Function][]*ssa.Return{}
	var must func(fn *ssa.Function, depth int) bool
	must = func(fn *ssa.Function, depth int) bool {
		if v, ok := memo[fn]; ok {
			return v
		}
		if busy[fn] || len(fn.Blocks) == 0 || depth > 4 {
			return false
		}
		busy[fn] = true
		defer delete(busy, fn)
		has := false
		barrier := func(in ssa.Instruction) bool {
			if barrierBlk[in.Block()] {
				has = true
				return true
			}
			switch in.(type) {
			case *ssa.Call, *ssa.Go:
				cal := c05CalleeOf(in.(ssa.CallInstruction))
				if cal != nil && inModule(cal) && reaches(cal) && must(cal, depth+1) {
					has = true
					return true
				}
				// function values handed to a helper that always calls them
				if handed, always := c05HandedFuncs(c, in.(ssa.CallInstruction)); always {
					for _, h := range handed {
						if reaches(h) && must(h, depth+1) {
							has = true
							return true
						}
					}
				}
			}
			return false
		}
		// evaluate the barrier on every instruction first (has); a barrier inside a loop counts
		// as reached when the loop is entered (its header), then the path query
		hdrs := map[*ssa.BasicBlock]bool{}
		for _, b := range fn.Blocks {
			for _, in := range b.Instrs {
				if barrier(in) {
					if hdr, _ := c05LoopOf(b); hdr != nil {
						hdrs[hdr] = true
					}
				}
			}
		}
		by := c05SuccessWithout(fn, []edge{{nil, fn.Blocks[0]}}, func(in ssa.Instruction) bool { return hdrs[in.Block()] || barrier(in) })
		miss[fn] = by
		memo[fn] = has && len(by) == 0
		return memo[fn]
	}
	if must(root, 0) {
		return true, ""
	}
	// explanation: the deepest function on the way that lets a return bypass the construct
	var explain func(fn *ssa.Function, depth int) string
	explain = func(fn *ssa.Function, depth int) string {
		if depth > 4 {
			return ""
		}
		for _, b := range fn.Blocks {
			for _, in := range b.Instrs {
				switch in.(type) {
				case *ssa.Call, *ssa.Go:
					cal := c05CalleeOf(in.(ssa.CallInstruction))
					if cal != nil && cal != fn && inModule(cal) && reaches(cal) && !must(cal, depth+1) {
						if s := explain(cal, depth+1); s != "" {
							return s
						}
					}
					handed, always := c05HandedFuncs(c, in.(ssa.CallInstruction))
					for _, h := range handed {
						if !reaches(h) {
							continue
						}
						if !always {
							return "the helper " + fnName(cal) + " does not call the functions handed to it on every path"
						}
						if !must(h, depth+1) {
							if s := explain(h, depth+1); s != "" {
								return s
							}
						}
					}
				}
			}
		}
		if len(miss[fn]) > 0 {
			return "in " + fnName(fn) + " the return at " + describeReturns(c, miss[fn]) + " is reachable without it"
		}
		return ""
	}
	why := explain(root, 0)
	if why == "" {
		why = "no unconditional path to it from " + fnName(root)
	}
	return false, why
}

// c05HandedOn: the bool verdict v is returned unchanged by fn as result #j, every other return
// of fn yielding false there; -1 otherwise.
func c05HandedOn(fn *ssa.Function, v ssa.Value) int {
	if !isBoolType(v.Type()) {
		return -1
	}
	res := fn.Signature.Results()
	for j := 0; j < res.Len(); j++ {
		if !isBoolType(res.At(j).Type()) {
			continue
		}
		hit, clean := false, true
		for _, r := range returnsOf(fn) {
			rs := retResults(r)
			if j >= len(rs) {
				clean = false
				continue
			}
			if rs[j] == v {
				hit = true
				continue
			}
			if b, ok := constBool(rs[j]); !ok || b {
				clean = false
			}
		}
		if hit && clean {
			return j
		}
	}
	return -1
}

// ---------------------------------------------------------------------------
// function values handed to a module helper that calls them

func c05ResolveFuncValue(w *World, v ssa.Value) *ssa.Function {
	var f *ssa.Function
	switch x := v.(type) {
	case *ssa.Function:
		f = x
	case *ssa.MakeClosure:
		f, _ = x.Fn.(*ssa.Function)
	}
	if f == nil {
		return nil
	}
	if strings.HasPrefix(f.Synthetic, "bound method wrapper") {
		if fo, ok := f.Object().(*types.Func); ok {
			if d := w.Prog.FuncValue(fo); d != nil {
				return d
			}
		}
	}
	return f
}

type c05Runner struct {
	calls  []ssa.Instruction // dynamic calls of function values derived from the helper's parameters
	always bool              // every return of the helper is preceded by them (loops count when entered)
}

// c05RunnerOf: helper fn (itself or closures / module callees it starts, depth <= 2) calls
// function values that derive from its own parameters.
func c05RunnerOf(c *Ctx, fn *ssa.Function) *c05Runner {
	w := c.W
	m, _ := w.memo["c05runners"].(map[*ssa.Function]*c05Runner)
	if m == nil {
		m = map[*ssa.Function]*c05Runner{}
		w.memo["c05runners"] = m
	}
	if r, ok := m[fn]; ok {
		return r
	}
	m[fn] = nil // recursion guard
	if fn == nil || len(fn.Blocks) == 0 || !inModule(fn) {
		return nil
	}
	hasFuncParam := false
	for _, p := range fn.Params {
		if c05MayCarryFunc(p.Type(), 0) {
			hasFuncParam = true
		}
	}
	if !hasFuncParam {
		return nil
	}
	tr := newC05Tracer(w, nil)
	r := &c05Runner{}
	for _, fr := range c05FramesGo(fn, 2) {
		for _, b := range fr.fn.Blocks {
			for _, in := range b.Instrs {
				ci, ok := in.(ssa.CallInstruction)
				if !ok {
					continue
				}
				cc := ci.Common()
				if cc.IsInvoke() || staticCallee(cc) != nil {
					continue
				}
				if _, isB := cc.Value.(*ssa.Builtin); isB {
					continue
				}
				os := c05NonConst(tr.origins(cc.Value, fr.ctx))
				if c05All(os, func(o c05Origin) bool { return o.Kind == "param" && o.Fn == fn }) {
					r.calls = append(r.calls, in)
				}
			}
		}
	}
	if len(r.calls) == 0 {
		return nil
	}
	r.always, _ = c05Unconditional(c, fn, r.calls)
	m[fn] = r
	return r
}

// c05MayCarryFunc: a value of type t can hold a function value (func, or slice/array/struct/
// pointer/map of such), looked at to a small depth.
func c05MayCarryFunc(t types.Type, d int) bool {
	if d > 3 {
		return false
	}
	switch u := t.Underlying().(type) {
	case *types.Signature:
		return true
	case *types.Slice:
		return c05MayCarryFunc(u.Elem(), d+1)
	case *types.Array:
		return c05MayCarryFunc(u.Elem(), d+1)
	case *types.Pointer:
		return c05MayCarryFunc(u.Elem(), d+1)
	case *types.Map:
		return c05MayCarryFunc(u.Elem(), d+1)
	case *types.Struct:
		for i := 0; i < u.NumFields(); i++ {
			if c05MayCarryFunc(u.Field(i).Type(), d+1) {
				return true
			}
		}
	}
	return false
}

// c05FramesGo: like c05Frames, but go statements count as calls too.
func c05FramesGo(entry *ssa.Function, maxDepth int) []c05FrameOf {
	var out []c05FrameOf
	onPath := map[*ssa.Function]bool{}
	var walk func(fn *ssa.Function, ctx *c05Frame, chain []ssa.CallInstruction, d int)
	walk = func(fn *ssa.Function, ctx *c05Frame, chain []ssa.CallInstruction, d int) {
		if onPath[fn] || fn.Blocks == nil {
			return
		}
		onPath[fn] = true
		defer delete(onPath, fn)
		out = append(out, c05FrameOf{fn, ctx, append([]ssa.CallInstruction(nil), chain...)})
		if d >= maxDepth {
			return
		}
		for _, b := range fn.Blocks {
			for _, in := range b.Instrs {
				ci, ok := in.(ssa.CallInstruction)
				if !ok {
					continue
				}
				if _, isDefer := in.(*ssa.Defer); isDefer {
					continue
				}
				cal := c05CalleeOf(ci)
				if cal == nil || !inModule(cal) || cal.Blocks == nil {
					continue
				}
				depth := 1
				if ctx != nil {
					depth = ctx.depth + 1
				}
				walk(cal, &c05Frame{site: ci, up: ctx, depth: depth}, append(chain, ci), d+1)
			}
		}
	}
	walk(entry, nil, nil, 0)
	return out
}

// c05HandedFuncs: the function values (closures, functions, method values) contained in the
// arguments of call ci when its callee is a runner: they are called at the position of ci.
func c05HandedFuncs(c *Ctx, ci ssa.CallInstruction) (fns []*ssa.Function, always bool) {
	cal := c05CalleeOf(ci)
	if cal == nil {
		return nil, false
	}
	carries := false
	for _, a := range ci.Common().Args {
		if c05MayCarryFunc(a.Type(), 0) {
			carries = true
		}
	}
	if !carries {
		return nil, false
	}
	r := c05RunnerOf(c, cal)
	if r == nil {
		return nil, false
	}
	tr := newC05Tracer(c.W, nil)
	seen := map[*ssa.Function]bool{}
	for _, a := range ci.Common().Args {
		if !c05MayCarryFunc(a.Type(), 0) {
			continue
		}
		for _, o := range tr.contentOrigins(a, nil, ci) {
			if o.Kind != "const" {
				continue
			}
			if f := c05ResolveFuncValue(c.W, o.Val); f != nil && !seen[f] && len(f.Blocks) > 0 {
				seen[f] = true
				fns = append(fns, f)
			}
		}
	}
	return fns, r.always
}

// c05Reachable: module functions reachable from roots (static calls, module interface
// implementations, closures) plus the function values handed to runner helpers.
func c05Reachable(c *Ctx, roots []*ssa.Function, depth int) map[*ssa.Function]int {
	w := c.W
	dist := w.reachableFuncs(roots, depth)
	for changed := true; changed; {
		changed = false
		var fns []*ssa.Function
		for f := range dist {
			fns = append(fns, f)
		}
		for _, f := range fns {
			d := dist[f]
			if depth >= 0 && d >= depth {
				continue
			}
			for _, b := range f.Blocks {
				for _, in := range b.Instrs {
					ci, ok := in.(ssa.CallInstruction)
					if !ok {
						continue
					}
					handed, _ := c05HandedFuncs(c, ci)
					for _, h := range handed {
						if _, ok := dist[h]; ok {
							continue
						}
						rem := depth
						if depth >= 0 {
							rem = depth - d - 1
						}
						for g, dg := range w.reachableFuncs([]*ssa.Function{h}, rem) {
							if _, ok := dist[g]; !ok {
								dist[g] = d + 1 + dg
								changed = true
							}
						}
					}
				}
			}
		}
	}
	return dist
}
